#!/bin/bash
# tools/seedcheck.sh [id ...] : run the seeded changes against the checks.
# For each /verif/seeded/<id>/patch.diff: apply to /repo, run the repository's
# suite, run the property's own check (plus CHECKS_EXTRA), restore /repo.
# MUTANT_TOOL=tools/mutant-wt.sh does the same in a scratch worktree without touching /repo.
cd /verif
ids="$@"; [ -z "$ids" ] && ids=$(ls seeded)
for id in $ids; do
  prop=${id%%-*}
  # reverts of repairs (R-<commit>) name their checks in meta.json
  if [ -f seeded/$id/meta.json ]; then
    p=$(python3 -c "import json,sys; m=json.load(open('seeded/$id/meta.json')); print(' '.join(m.get('checks_to_run') or [m.get('breaks_property','')]))")
    [ -n "$p" ] && prop="$p"
  fi
  echo "=== seeded/$id"
  VERIF_STALL_S=60 ${MUTANT_TOOL:-tools/mutant.sh} /verif/seeded/$id/patch.diff $prop ${CHECKS_EXTRA:-} 2>&1 | tee /verif/seeded/$id/result.txt
done
