#!/bin/bash
# tools/seedcheck.sh [id ...] : run the seeded changes against the checks.
# For each /verif/seeded/<id>/patch.diff: apply to /repo, run the repository's
# suite, run the property's own check (plus CHECKS_EXTRA), restore /repo.
cd /verif
ids="$@"; [ -z "$ids" ] && ids=$(ls seeded)
for id in $ids; do
  prop=${id%%-*}
  echo "=== seeded/$id"
  VERIF_STALL_S=60 tools/mutant.sh /verif/seeded/$id/patch.diff $prop ${CHECKS_EXTRA:-} 2>&1 | tee /verif/seeded/$id/result.txt
done
