#!/bin/bash
# tools/confirm.sh <dir with patch.diff and demo_test.go>
# Confirms a seeded change in a scratch worktree of /repo (never in /repo):
# demo passes on the unchanged tree; with the patch the repository's suite
# passes and the demo fails. The worktree is removed afterwards.
set -u
D="$1"
export GOFLAGS=-mod=mod GOPROXY=off GOSUMDB=off GOTOOLCHAIN=local
W=$(mktemp -d /var/tmp/confirm.XXXXXX); rmdir "$W"
git -C /repo worktree add --detach -q "$W" HEAD || exit 2
trap 'git -C /repo worktree remove --force "$W"; rm -rf "$W"' EXIT
pkg=$(grep -m1 '^package ' "$D/demo_test.go" | awk '{print $2}')
case "$pkg" in geojson) sub=. ;; geometry) sub=geometry ;; geo) sub=geo ;; *) echo "unknown package $pkg"; exit 2;; esac
cd "$W"
cp "$D/demo_test.go" "$sub/zz_demo_test.go"
if go test -count=1 -run 'Demo' ./$sub >/var/tmp/confirm.log 2>&1; then echo "demo on unchanged tree: PASS"; else echo "demo on unchanged tree: FAIL (seed not admissible)"; tail -5 /var/tmp/confirm.log; fi
rm "$sub/zz_demo_test.go"
git apply "$D/patch.diff" || { echo "PATCH-DOES-NOT-APPLY"; exit 2; }
if go test -count=1 ./... >/var/tmp/confirm.log 2>&1; then echo "suite with change: PASS"; else echo "suite with change: FAIL"; tail -5 /var/tmp/confirm.log; fi
cp "$D/demo_test.go" "$sub/zz_demo_test.go"
if go test -count=1 -run 'Demo' ./$sub >/var/tmp/confirm.log 2>&1; then echo "demo with change: PASS (seed does not demonstrate anything)"; else echo "demo with change: FAIL (as intended)"; grep -m3 -E '^\s+zz_demo|panic' /var/tmp/confirm.log | cut -c1-300; fi
