#!/bin/bash
# tools/seedcheck-old.sh <commit> <id ...>: how did the checks of an earlier
# /verif commit fare against a seeded change? (first-run record.) Checks out
# that commit into a scratch worktree of /verif, applies each patch to /repo,
# runs the seed's checks from the old tree, restores /repo.
set -u
export GOFLAGS=-mod=mod GOPROXY=off GOSUMDB=off GOTOOLCHAIN=local
commit="$1"; shift
OLD=/var/tmp/verif-old-$commit
[ -d "$OLD" ] || git -C /verif worktree add --detach -q "$OLD" "$commit" || exit 2
cd /repo || exit 2
for id in "$@"; do
  if [ -n "$(git status --porcelain)" ]; then echo "repo working tree not clean"; exit 2; fi
  prop=${id%%-*}
  if [ -f /verif/seeded/$id/meta.json ]; then
    p=$(python3 -c "import json; m=json.load(open('/verif/seeded/$id/meta.json')); print(' '.join(m.get('checks_to_run') or [m.get('breaks_property','')]))")
    [ -n "$p" ] && prop="$p"
  fi
  patch=/verif/seeded/$id/patch.diff
  [ -f /verif/seeded/$id/patch.first-run.diff ] && patch=/verif/seeded/$id/patch.first-run.diff
  git apply "$patch" || { echo "=== $id PATCH-DOES-NOT-APPLY"; continue; }
  for c in $prop; do
    out=$(cd "$OLD" && VERIF_DEADLINE_S=600 ./run.sh "$c" quick 2>&1); rc=$?
    echo "=== $id old-check $c: exit=$rc $(echo "$out" | grep '^violation classes' | cut -c1-200)"
  done
  git checkout -- . ; git clean -fdq
done
(cd /verif && ./run.sh build >/dev/null 2>&1)
