#!/bin/bash
# tools/mutant-wt.sh <patch-file> <check> [<check> ...]
# Like tools/mutant.sh, but never touches /repo or /verif/evidence: the patch is
# applied in a scratch worktree of /repo (removed afterwards), the harness is
# built against that tree (VERIF_REPO) and writes its evidence / replay files
# to a scratch directory (VERIF_OUT). Safe to run while other checks use /repo.
set -u
PATCH="$1"; shift
export GOFLAGS=-mod=mod GOPROXY=off GOSUMDB=off GOTOOLCHAIN=local
W=$(mktemp -d /var/tmp/mutant-wt.XXXXXX); rmdir "$W"
OUT=$(mktemp -d /var/tmp/mutant-out.XXXXXX)
git -C /repo worktree add --detach -q "$W" HEAD || exit 2
tag=$(echo "$W" | md5sum | cut -c1-10)
VDIR="${VERIF_DIR:-/verif}"   # which checkout of the machinery to run (an older commit for first-run records)
trap 'git -C /repo worktree remove --force "$W" 2>/dev/null; rm -rf "$W" "$OUT" "$VDIR/.bin/alt-$tag"' EXIT
( cd "$W" && git apply "$PATCH" ) || { echo "PATCH-DOES-NOT-APPLY $PATCH"; exit 2; }
if ( cd "$W" && go build ./... 2>"$OUT/build.log" && go test -count=1 ./... >"$OUT/test.log" 2>&1 ); then
  echo "suite: PASS"
else
  echo "suite: FAIL (mutant not admissible)"; tail -n 5 "$OUT/test.log"; tail -n 5 "$OUT/build.log"
fi
cd "$VDIR"
for c in "$@"; do
  out=$(VERIF_REPO="$W" VERIF_OUT="$OUT" VERIF_DEADLINE_S=${VERIF_DEADLINE_S:-600} ./run.sh "$c" ${TIER:-quick} 2>&1)
  rc=$?
  nv=$(echo "$out" | grep -c '^VIOLATION')
  cls=$(echo "$out" | grep '^violation classes' | cut -c1-300)
  echo "check $c: exit=$rc violations_reported=$nv $cls"
done
