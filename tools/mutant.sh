#!/bin/bash
# tools/mutant.sh <patch-file> <check> [<check> ...]
# Applies a patch to /repo's working tree, confirms the repository's own test
# suite still passes, runs the given checks (quick tier) and reports which of
# them raise a VIOLATION; always restores /repo afterwards.
set -u
PATCH="$1"; shift
export GOFLAGS=-mod=mod GOPROXY=off GOSUMDB=off GOTOOLCHAIN=local
cd /repo || exit 2
if [ -n "$(git status --porcelain)" ]; then echo "repo working tree not clean"; exit 2; fi
git apply "$PATCH" || { echo "PATCH-DOES-NOT-APPLY $PATCH"; exit 2; }
# evidence written while a change is applied must not replace the evidence of the unchanged tree
EVBAK=$(mktemp -d /var/tmp/evbak.XXXXXX); cp -a /verif/evidence/. "$EVBAK"/
trap 'rm -rf /verif/evidence; mkdir -p /verif/evidence; cp -a "$EVBAK"/. /verif/evidence/; rm -rf "$EVBAK"; git -C /repo checkout -- . ; git -C /repo clean -fdq; (cd /verif && ./run.sh build >/dev/null 2>&1)' EXIT
if go build ./... 2>/tmp/mutant-build.log && go test -count=1 ./... >/tmp/mutant-test.log 2>&1; then
  echo "suite: PASS"
else
  echo "suite: FAIL (mutant not admissible)"; tail -n 5 /tmp/mutant-test.log; tail -n 5 /tmp/mutant-build.log
fi
cd /verif
for c in "$@"; do
  out=$(VERIF_DEADLINE_S=${VERIF_DEADLINE_S:-600} ./run.sh "$c" ${TIER:-quick} 2>&1)
  rc=$?
  nv=$(echo "$out" | grep -c '^VIOLATION')
  cls=$(echo "$out" | grep '^violation classes' | cut -c1-300)
  echo "check $c: exit=$rc violations_reported=$nv $cls"
done
