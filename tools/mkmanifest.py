#!/usr/bin/env python3
"""Regenerates /verif/MANIFEST.json from the table below (kept valid at all times)."""
import json, os
ROOT = os.path.dirname(os.path.dirname(os.path.abspath(__file__)))
props = [json.loads(l) for l in open(os.path.join(ROOT, "properties.jsonl"))]

# id -> (technique, level text, level note, design ref)
CHECKS = {
 "C19": ("bounded exhaustive explicit-state enumeration of the real segment kernels vs an exact integer reference model",
         "Every ordered endpoint pair on a 5x5 (thorough 6x6) lattice, zero-length included, against every half-step probe point and every other segment, in both operand orders, repeated under 5 exact float transforms (2^17, 2^-10, +-2^20 offsets, dyadic offset): raycast on/in, contains-point, collinear-point, intersects (exact + symmetric), contains-segment compared with integer orientation predicates. Complete enumeration, no sampling.",
         "Small-scope: all order types of (segment, point) and (segment, segment) configurations incl. 4 collinear points occur on a 5x5 lattice; coordinates outside the dyadic <=2^20 domain are not covered. Trusted: verif/mc/exact (two formulations cross-checked each run).",
         "DESIGN.md §3 C19"),
}
PENDING_REASON = "check not built yet in this round (planned, see DESIGN.md §7); not claimed until its command exists"

checks, na = [], []
for p in props:
    pid = p["id"]
    if pid in CHECKS:
        tech, text, note, ref = CHECKS[pid]
        checks.append({
            "property_id": pid,
            "quick_cmd": f"./run.sh {pid} quick",
            "thorough_cmd": f"./run.sh {pid} thorough",
            "evidence_file": f"/verif/evidence/{pid}.json",
            "replay_cmd_template": "./run.sh replay {path}",
            "engine": "verif-mc",
            "level_claimed": {"category": "model_checking", "text": text, "design_ref": ref},
            "level_note": note,
            "technique": tech,
        })
    else:
        na.append({"property_id": pid, "reason": PENDING_REASON})
m = {
 "version": 1,
 "setup_cmd": "./run.sh setup",
 "hooks": {
  "guard": "verif",
  "enable": "no hooks are committed to /repo: instrumentation (fuel ticks, scheduling points) is generated from /repo's working tree at check time with go/ast and applied with `go build -overlay`; the tag `verif` is reserved",
  "baseline_off_cmd": "cd /repo && GOFLAGS=-mod=mod GOPROXY=off go test -count=1 ./...",
  "source_commits": [],
  "add_only": True,
 },
 "engines": [
  {"name": "verif-mc", "path": "/verif/mc", "serves_properties": sorted(CHECKS),
   "kind_free_text": "hand-written Go explicit-state explorer: exhaustive enumeration of construction trees (vertex / child / token sequences, option sets, numeric lattices, schedules) executed on the real library, compared with reference models (exact integer geometry, encoding/json reader, brute-force composition, vector great-circle model)"},
 ],
 "checks": checks,
 "not_applicable": na,
 "notes": "Known genuine defects are listed in /verif/known_findings.json (exact failing inputs; read-only at run time). Repairs are 'fix:' commits in /repo.",
}
json.dump(m, open(os.path.join(ROOT, "MANIFEST.json"), "w"), indent=1)
print("checks:", len(checks), "not_applicable:", len(na))
