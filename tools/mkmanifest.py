#!/usr/bin/env python3
"""Regenerates /verif/MANIFEST.json from the table below (kept valid at all times)."""
import json, os
ROOT = os.path.dirname(os.path.dirname(os.path.abspath(__file__)))
props = [json.loads(l) for l in open(os.path.join(ROOT, "properties.jsonl"))]

# id -> (technique, level text, level note, design ref)
CHECKS = {
 "C19": ("bounded exhaustive explicit-state enumeration of the real segment kernels vs an exact integer reference model",
         "Every ordered endpoint pair on a 5x5 (thorough 6x6) lattice, zero-length included, against every half-step probe point and every other segment, in both operand orders, repeated under 5 exact float transforms (2^17, 2^-10, +-2^20 offsets, dyadic offset): raycast on/in, contains-point, collinear-point, intersects (exact + symmetric), contains-segment compared with integer orientation predicates. Complete enumeration, no sampling.",
         "Small-scope: all order types of (segment, point) and (segment, segment) configurations incl. 4 collinear points occur on a 5x5 lattice; coordinates outside the dyadic <=2^20 domain are not covered. Trusted: verif/mc/exact (two formulations cross-checked each run).",
         "DESIGN.md §3 C19"),
 "C05": ("bounded exhaustive enumeration of calls (object pool squared x every method; all short byte/token strings and all documents within 1-2 deviations under 4 option sets) on an instrumented build of the real code with a deterministic fuel oracle, in crash-isolating worker processes",
         "A go/ast instrumenter inserts a tick at every function entry, closure entry and loop iteration of a scratch copy of /repo's working tree (go build -overlay; nothing committed). Pool = the C09 pool (1,100 / 3,500 objects of all 12 kinds) plus constructor-only degenerates (nil polygon, 0/1-position lines, short rings and holes, empty and 3-deep nested collections, extreme circles, indexed series) x 21 method groups (Object, Spatial, Collection, Circle, series accessors, geometry level) with every pool object as argument; Parse on every 1-2 byte string, '{'+2 bytes, every token string <= 5 (6) over 14 tokens, every document within 1 (2 for small seeds) deviations of ~150 seeds, nesting families to depth 1000 (3000), under 4 option sets, plus 9 methods on every accepted object. Each call gets 10^6 + 2000 (n+m+1)^2 ticks; exhausting them, panicking, breaking the (object, error) contract, or killing/stalling the worker is a violation (measured max on the clean tree: ~66k ticks).",
         "Loops inside gjson/pretty/sjson/rtree are not instrumented (120 s no-progress kill of the worker instead). nil Object arguments are out of scope.",
         "DESIGN.md §3 C05"),
 "C16": ("stateless model checking of the real code under a controlled cooperative scheduler: DFS over all schedules with iterative preemption bounding; separate free-running race-detector pass",
         "Instrumented build (scheduling point at every function entry, loop iteration, shimmed sync operation). 8,800 (thorough 26,000+) scenarios = every pair of colliding calls (same receiver / receiver is the other's argument / shared argument / same method on different receivers for package-level state; thorough adds 3-thread scenarios) over 14 shared objects of all kinds with and without geometry and child indexes, a Circle and a moved polygon; for each scenario every schedule with 0 and 1 preemptions, and 2 (thorough 3) when the product of the calls' scheduling-point counts is within budget; every call's result must equal its solo result on a fresh pool; replay determinism asserted (divergence on a replayed prefix is a hard error). Then every scenario x 20 (100) rounds with real goroutines under go build -race.",
         "Interleaving granularity is the instrumented program point; memory-order effects only through the race detector. Dependencies are not instrumented.",
         "DESIGN.md §3 C16"),
 "C13": ("bounded exhaustive enumeration of a numeric lattice (centres x radii x bearings x distance factors x operand kinds/orders; all step counts) on the real Circle code vs an independent vector great-circle model with the stated tolerance band",
         "Full product of 7 (thorough 10) centres incl. poles and antimeridian x 12 (16) radii from 0 to half the circumference x bearings every 15 (3) degrees x distance factors {0, .5, 1-1e-4, 1-3e-8, 1+3e-8, 1+1e-4, 1.5}: Point and SimplePoint, contains and intersects, both operand orders, must agree with each other and with the reference distance outside the band max(1 mm, 1e-8 r); monotone in the radius; circle-circle contains/intersects over the same grid x radius alphabet; JSON form and re-parse for radii incl. negative, NaN, Inf, 3piR x every step count -1..4096; polygon approximation closed, right vertex count, rectangle contains the centre.",
         "Decided on the numeric lattice only (continuum claim). Sphere radius 6371e3 m. Trusted: verif/mc/sphere (unit vectors, atan2).",
         "DESIGN.md §3 C13"),
 "C14": ("bounded exhaustive enumeration of a numeric lattice (latitudes incl. +-4 ulp pole-tangent values x longitudes x radii x probe bearings x distance fractions) on the real RectFromCenter vs an independent destination-point model",
         "Full product of 10 (17) latitudes plus, for every radius, the latitudes at which the disc touches the pole within +-4 ulp x 7 (12) longitudes incl. +-180 and +-179.999 x 14 (18) radii from 0 to half the circumference x probe bearings every 5 (1) degrees plus tangent bearings x distance fractions {1, .999, .5}: the reference destination lies inside the rectangle (1 cm), no NaN, world bounds, full longitude range when the disc reaches a pole or crosses the antimeridian, degenerate rectangle for unresolvable radii.",
         "Decided on the numeric lattice only. Trusted: verif/mc/sphere.",
         "DESIGN.md §3 C14"),
 "C15": ("bounded exhaustive enumeration of a numeric lattice (location pairs incl. antipodes, location x bearing x distance) on the real geo primitives vs an independent vector formulation",
         "Every ordered pair of 84 (308) locations incl. poles, near-pole, antimeridian and each location's exact antipode: distance range, symmetry, zero, agreement with the vector formulation; every location x 26 (362) bearings x 12 (19) distances: destination in range, distance back = d (max(1 mm, 1e-6 d)), initial bearing recovered (conditioning-scaled) away from poles/antipode; haversine monotone and metre round trip along the sorted distance alphabet; normalisation idempotent and haversine-preserving; semicircle round trip on a 65,537-point grid.",
         "Decided on the numeric lattice only. (The near-pole defect of DestinationPoint found here was repaired in 550d452.) Trusted: verif/mc/sphere.",
         "DESIGN.md §3 C15"),
 "C09": ("bounded exhaustive enumeration of ordered object pairs over a pool of all 12 kinds on the real predicates; algebraic laws and representation transparency (oracle-free)",
         "Every ordered pair of a pool (1,100 quick / 3,500 thorough objects: lattice points as Point/SimplePoint/Feature, all rectangles with their 5-point polygons, 2- and 3-position lines, simple rings, polygons with holes, empties, Multi*/GeometryCollection/FeatureCollection/Feature wraps incl. nested, circles with probes between the 64-gon and the disc and a high-latitude circle): Within/Contains duality, Intersects symmetry, contains => intersects and rect cover, intersects => rects meet, reflexivity, Feature = geometry, Rect = 5-point Polygon, SimplePoint = Point, leaf object = geometry-level predicate.",
         "No geometry oracle here (C01-C03 own that); law violations that are consequences of listed leaf defects are listed by exact pair.",
         "DESIGN.md §3 C09"),
 "C10": ("explicit-state exploration of child-sequence construction trees (AddChild) for the five collection kinds x index thresholds on the real code vs the statement evaluated over the real children",
         "Every child sequence up to depth 3 (thorough 4) over a 10-letter child alphabet (points, lines, polygons, empty line, empty collection, nested collection, feature; duplicates as repeated letters) for GeometryCollection/FeatureCollection and depth 4 (5) over 4-letter typed alphabets for Multi*, each realised by constructor and by Parse under IndexChildren {0,1,n,n+1,64}; families of 31..200 (1025) children (grid, cluster+outlier, duplicates, mixed with empties); probes: 31 objects of every kind x contains/within/intersects, 170 query rectangles x every stop position of Search; emptiness, rectangle union, point count, child order, Indexed().",
         "Leaf answers (child vs part) come from the real code, so this isolates wrapper and child-index logic; within is checked for non-collection X (for collection X duality makes it X's contains clause).",
         "DESIGN.md §3 C10"),
 "C11": ("bounded exhaustive enumeration of coordinate sequences over a special-float alphabet per axis x all constructible kinds on the real accessors vs direct min/max, exactly rounded midpoint, raw range test",
         "Every sequence of length 1..3 (thorough 4) over 22 special floats (-0, +-5e-324, +-1, +-90/+-180 with 1-ulp neighbours, +-1e308, +-MaxFloat64) on x, on y and on both axes, realised as 13 object shapes (points, line, polygon, rect, multi*, collections with empties mixed in, features) plus the C09 pool: Rect, Center, Valid, Empty against the definition. (Series rectangles over all vertex sequences are additionally checked inside C18.)",
         "Circle objects excluded (C13). Midpoint reference in 2200-bit arithmetic.",
         "DESIGN.md §3 C11"),
 "C07": ("bounded exhaustive enumeration of documents (grammar seeds + all documents within k token deviations + all short token/byte strings) on the real parser vs a reference reader on encoding/json",
         "~110 grammar seeds (9 types x list lengths 0-5 x 2-5 ordinates x member sets, nested collections to depth 3, duplicate/reordered members) and every document within 1 token deviation (delete / insert / substitute over a 24-token alphabet, truncate, swap members, duplicate a member), 2 deviations for seeds of <= 26 tokens (thorough <= 64); every token string of length <= 5 (thorough 6) over a 14-token alphabet; every 1-2 byte string and '{'+2 bytes; under 2 option sets. must-accept texts must be accepted with type/nesting/child order/x,y equal to the reference decoding, must-reject texts rejected with no object, and Parse returns exactly one of (object, error).",
         "Verdicts come from verif/mc/refdoc, written from the statement; texts the statement does not describe (5+ ordinates, null geometry/ordinates, out-of-range numbers, non-standard Circle units) are not judged. Trusted: encoding/json.",
         "DESIGN.md §3 C07"),
 "C06": ("bounded exhaustive enumeration of accepted documents x option sets on the real Parse/JSON, fixpoint + independent reference decoding of the output",
         "The accepted subset of C07's document space plus float seeds (17-digit values, -0, 1e21, 5e-324, 2^53+1, MaxFloat64) x 4 option sets: output is valid JSON, re-parses under the same options to the same Go kind, JSON byte-identical (fixpoint), identical geometry answers (rect/empty/valid/count + 6 predicates x 14 probe objects), and the reference reader finds the same type, x/y bit-for-bit, z/m of the declared dimensionality, child order and foreign members (values, order) in input and output; Features always carry properties.",
         "Finite numbers only (as stated). Reserved member names are not foreign members. Known finding: the Circle convention drops other members (exact inputs listed).",
         "DESIGN.md §3 C06"),
 "C08": ("bounded exhaustive enumeration of documents x option sets (full product on seeds, all sets within 2 option deviations on deviation documents), metamorphic vs the default-option parse",
         "Seeds (grammar + float + out-of-range-at-every-nesting-position + rectangle/simple-point near misses + Circle features) x the full product of 1,680 option sets x DisableCircleType; every accepted document within 1 token deviation (thorough 2 for small seeds) x the 121 option sets within two single-option deviations of the default: identical JSON, rect, emptiness, validity, point count, 6 predicates x 14 probes; index options keep Go kinds, representation options keep them up to SimplePoint=Point / Rect=Polygon with Circle still a Circle; RequireValid rejects iff a standard-type object of the default parse is invalid and returns only valid objects.",
         "The default-option parse is the reference. Point count is not compared for representation options (a Rect counts 2 by design; the statement fixes JSON and predicate answers).",
         "DESIGN.md §3 C08"),
 "C17": ("bounded exhaustive enumeration of constructor calls (special floats at every pair of ordinate positions, member-text alphabet, nesting) x destination-slice shapes on the real serialisers vs encoding/json reference",
         "13 constructor templates x 10 special floats (NaN, +-Inf, -0, 5e-324, MaxFloat64, ...) at every single and every pair of ordinate positions; NewFeature x 16 member texts (escaped keys, whitespace, 'feature' key, non-object JSON, non-JSON, truncated) x 23 geometries incl. degenerate constructor arguments, nested 3 deep; parsed seed documents; each x 4 prefixes x 4 spare capacities with a sentinel-filled spare region: JSON()=String()=MarshalJSON()=AppendJSON(nil), AppendJSON(p)=p++bytes with p intact, output is one JSON object of the right type with coordinates of the required nesting depth and no NaN/Inf tokens.",
         "Member texts with reserved keys are outside the statement. Trusted: encoding/json.",
         "DESIGN.md §3 C17"),
 "C04": ("bounded exhaustive exploration of insert histories (all short sequences; layout families x sizes x <=1-2 displaced points) x query-rectangle grid x stop positions on the real index code vs brute force; cross-index differential on predicates",
         "Every point sequence <=4 over 3x3 and <=3 over 4x4 (thorough <=5 / <=4) open and closed under {r-tree, quadtree} x MinPoints {1, n, n+1}; 11 layout families (cluster+far outlier, collinear, duplicates, zig-zag, spiral, comb, quadrant midlines, +-1.7e308, grid walk) x 25-29 sizes from 0 to 70,001 crossing the node-split (17, 33), depth-16 overflow and 1/2/4-byte item-encoding thresholds, each small size with one displaced point at every position x 9 (thorough 25) targets and (thorough) two displaced points for n=17,33; every query rectangle of a data-derived grid incl. infinite bounds and 1-ulp neighbours; every early-stop position (sparse for large n). Reported (index, segment) set must equal the definition exactly, once each. Then point/line/rect predicates of family rings and lines must agree across {none, r-tree, quadtree, default} and after Move. The index bytes are decoded to *measure* which encodings occurred (evidence: index_encodings_observed).",
         "Coordinates of the families are the alphabet; layouts not in the families are not covered. Oracle is the definition itself (brute force over SegmentAt(i).Rect()).",
         "DESIGN.md §3 C04"),
 "C18": ("bounded exhaustive exploration of the vertex-sequence construction tree on the real constructors vs an exact reference model",
         "Full construction tree of vertex sequences (length 0..5 over a 4x4 lattice and 0..6 over 3x3; thorough 0..6 / 0..7), nothing filtered, each node realised as closed ring, closed ring with repeated closing vertex, ring restarted at the next vertex and open series: convex flag, clockwise flag, segment count, every i-th segment and the bounding rectangle compared with the literal reading of the statement in exact integer arithmetic; direct invariance under closing-vertex repetition and rotation.",
         "Small scope: the flags depend only on orientation signs of consecutive triples and the sign of the shoelace sum; all sign patterns of <= 6-7 vertices incl. duplicates and collinear runs occur on the lattice. Trusted: verif/mc/exact.",
         "DESIGN.md §3 C18"),
 "C01": ("bounded exhaustive exploration of construction trees (vertex sequences, hole sequences) x probe alphabet x index configurations on the real code vs exact crossing-parity model",
         "Every vertex sequence <=5 (thorough <=6) over a 4x4 lattice as polygon exterior (as given and closed), every sequence <=4 (5) as line string, every rectangle, every hole sequence <=4 inside 7 curated exteriors, two-hole products; x all 49/81 half-step probe points x index configurations {none, r-tree, quadtree, default}; object level (Point, SimplePoint, Feature(Point) against Polygon/Rect/LineString/Feature wrappers, 13 ways of asking) on the shallower tree; scaled and translated copies up to 2^20.",
         "Exactness only on dyadic coordinates <= 2^20 (the property's domain). Trusted: verif/mc/exact (parity vs winding cross-check each run).",
         "DESIGN.md §3 C01"),
 "C02": ("bounded exhaustive enumeration of ordered pairs of valid shapes on the real predicates vs exact set intersection",
         "All ordered pairs over exhaustively built pools: all half-step points, all rectangles (zero-extent included), all lines of 2-3 positions on a 4x4 lattice, all simple rings <=5 on 3x3 (thorough: <=4 on 4x4), 3 curated exteriors x all valid triangle/quadrilateral holes, two-hole polygons; intersects in both operand orders against the exact oracle and against each other, under two index configurations.",
         "Valid operands only (simple rings, holes inside, touching at isolated points). Small-scope hypothesis on contact configurations. Trusted: verif/mc/exact 1-D decomposition.",
         "DESIGN.md §3 C02"),
 "C03": ("bounded exhaustive enumeration of ordered pairs of valid shapes on the real predicates vs exact containment; exact-input known-finding sets",
         "Same pools as C02; A.contains(B) for every ordered pair against the exact oracle (boundary of B inside A by exact 1-D decomposition + one interior sample per hole), two index configurations. Genuine defects of the on-edge case analysis, the line walk and the hole rules are listed by exact failing input (hashed key sets); any other failing input is a violation.",
         "Valid operands only. Known-finding key sets were generated on the unchanged tree over the thorough scope and reviewed by class; a failing input outside them is reported. Trusted: verif/mc/exact.",
         "DESIGN.md §3 C03"),
 "C12": ("bounded exhaustive enumeration of pairs x transformation group elements / re-encodings on the real predicates, metamorphic (answers must not change), exact model used for attribution only",
         "Every pair over pools on the symmetric 3x3 lattice (all simple rings <=5, all lines <=3, all rects, all half-step points, polygons with holes; thorough adds the 4x4 lattice) x 19 both-operand transforms (7 lattice symmetries, 3 translations on the input and the same 3 through Move, 3 power-of-two scalings) and every re-encoding of either operand (every start vertex, reversed, unclosed, holes reversed/restarted; lines reversed); 4 answers per pair compared with the untransformed ones.",
         "Oracle-free trigger; the side that is wrong is identified with verif/mc/exact and matched (exact input) against the known-finding sets.",
         "DESIGN.md §3 C12"),
}

# families added after the adversarial seed rounds (appended to the level text)
EXTRA = {
 "C19": " Beyond the lattice: segments anchored at 3 origins with far endpoints over a 65x65 (129x129) grid x every lattice point on or next to them (unit scale, half scale, shifted to +-2^20); near-miss / near-hit pairs with coordinates up to 2^20 in 8 orientations; near-parallel family (directions M(P,Q)+e1 and M(P,Q)+e2, 12 primitive (P,Q), lengths M to 2^20, e1,e2 over [-2,2]^2, crossing / ending at / starting next to a common point, every offset in [-1,1]^2, both orders). The near-parallel family also on a 1/64 grid with lengths to 2^26 lattice units (one-sided segments, CollinearPoint / ContainsPoint at the meeting point); transforms 2^-30 and 2^-45.",
 "C18": " Near-parallel family: rings whose first two edges are M(P,Q)+e1 and M(P,Q)+e2 (12 primitive directions, 30 lengths to 2^26 lattice units of 1/128, magnitude <= 2^20, e1,e2 over [-2,2]^2) closed as a triangle or through 6 fourth vertices, every rotation, both directions, with and without closing vertex; flags compared where every float product and partial sum of the library is exact. Series obtained through Move: every sequence of length 3..4 (5) over 3x3 with y in units of 2^-40, ring and line, moved by (3,-5), (0.1,0.3), (0,2^19), (0,0): attributes must be those of a series built from the moved positions.",
 "C01": " Larger scopes: rings of 40-100 vertices (comb, staircase, irregular 48-point star, sawtooth, spiral; also densified past the index threshold and as holes) probed at every integer point; right triangles with hypotenuse differences 11..57 probed at every lattice point. Derived objects: every big ring under each index configuration translated through Move by 3 exact offsets; a 2^-30 scaled copy of the ring tree.",
 "C02": " Larger scopes: two-hole x one-hole and three-hole polygons, 16-position discs in concave outers, the 40-100-vertex rings x ~20,000 coarse-grid partners, slanted-triangle contact pairs, near-miss lines passing a line end / square corner at 1/N for N up to 2^20, near-parallel long lines and sliver triangles (orientation-predicate oracle). Every pair is evaluated under four realisations: index-free, alternate indexes, both operands as derived objects (built elsewhere under an r-tree / default quadtree and brought into place through Move), and scaled by 2^-30; threshold rings (14..17 vertices, with / without closing vertex) x frames whose hole the ring touches.",
 "C03": " Larger scopes as in C02 (multi-hole polygons, 16-position inners over concave outers, 40-100-vertex rings, slanted-triangle contact pairs). Four realisations per pair as in C02 (index-free, alternate indexes, Move-derived, 2^-30 scale).",
 "C12": " Slanted-triangle contact pairs (hypotenuse differences 11..57) under every transform. Move transforms start from r-tree / quadtree-indexed sources; scales 2^-30 and 2^-41; 14..17-position discs (closed / unclosed) x outers with notches, slots, holes and frames under every re-encoding.",
 "C04": " 16 layout families incl. fixed-LCG irregular scatters, mixed magnitudes, +-1.7e308 and a decimal family with vertices bit-exactly on candidate quadtree midlines; queries exactly on every candidate midline (both formulas, depth 0-2). Move by 7 offsets (exact, far beyond the extent, inexact in binary) incl. the moved series' own Search.",
 "C05": " Documents with thousands of positions / hundreds of holes and children and coordinates near the top of the float64 range under every index option. Mixed nesting: every wrapper sequence <= 3 over {GeometryCollection, Feature, Circle-typed Feature, Feature with properties, FeatureCollection} repeated to depth 12 and 40; hand-assembled Poly values in the pool.",
 "C06": " Plus generated families: documents with thousands of positions / hundreds of children, 1,545 number spellings (1-19 digits, the band above 2^53, exponent forms) as Point / LineString / Polygon, member texts combining insignificant whitespace with escaped quotes, and the string alphabet (168 units: printable ASCII, DEL, all escapes, \\u escapes of all controls, surrogate pairs and lone surrogates, raw 2-4-byte UTF-8, invalid UTF-8) alone, between letters and in every ordered pair as member key / value / id / property (57,792 documents). Nested reserved keys (8 names x 7 nesting shapes x 3 member names x 8 hosts) and ring-closure near misses (1..8 ulps).",
 "C07": " Plus the generated families of C06 (large documents, number spellings, member texts, string alphabet), each also truncated by a byte, extended by a byte and wrapped in whitespace.",
 "C08": " Seeds with 17-70 positions (past the index thresholds), big-geometry and decimal-midline documents with probes exactly on candidate midlines. Three large circles (mid latitude, polar cap, across the antimeridian) as probes against collections of points all around their rim.",
 "C09": " Big objects: zigzag LineStrings and Polygons with 33..65,538 segments (either side of the index thresholds and of the 1/2/4-byte segment-number boundaries) under QuadTree / RTree / no index x 10 probe objects at ~25 first / last / boundary-numbered segments: the same laws, independence of the index kind, exact point membership. The zigzags and a saw polygon (vertices on the quadtree midlines) of 33..4,097 segments translated through Move by 4 offsets (inexact in binary / beyond the extent), probed at their own positions, reflexivity, independence of the index kind.",
 "C10": " Children and probes near the top of the float64 range (1e308), nested-collection probes, ForEach model with every stop position. Fifth large-collection layout: non-empty Multi* / nested / Feature children holding empty members.",
 "C13": " Dense grid: 13 mantissas x 11 decades of radii (1 mm .. 10,000 km) x a 13 x 10 (24 x 18) grid of centres incl. near-poles and the antimeridian, probes at +-1.5 / +-2.5 / +-4 mm from the rim. Every 30th-degree probe also with its longitude written +-360 degrees away.",
 "C15": " Pole approach: travel along (and within 1e-6..1e-3 degree of) the meridian ending from 10 m (100 m) short of to beyond the pole in 17 (29) steps, from 9 (18) latitudes on both hemispheres x 5 longitudes. Bearings 1e-7..1e-3 degrees either side of each cardinal direction.",
 "C11": " Every coordinate sequence is also realised as LineString / Polygon / MultiPolygon obtained through Move by (0,0), (1,-2), (0.1,0.3).",
 "C14": " Dense grid: 45 (80) irregular latitudes x 5 (8) longitudes x 17 mantissas x 7 decades of radii, with the rim location of extreme longitude on either side found by ternary search; antimeridian approach: the disc ending from 10 m short of to 10 m beyond the antimeridian in 12 steps (6 latitudes x 4 radii, both sides).",
 "C16": " The pool includes objects past the default thresholds (70-hole polygon, 70-feature collection, 100-position line, second circle) with cheap point calls; objects are rebuilt fresh for every execution so that lazily built state is exercised.",
 "C17": " Parsed documents include the member-text family and the string alphabet of C06 (every unit and ordered pair of units as member key / value). Hand-assembled geometry.Poly values (nil exterior with holes, zero value, nil entry, Rect exterior with holes); nested-reserved-key documents.",
}
PENDING_REASON = "check not built yet in this round (planned, see DESIGN.md §7); not claimed until its command exists"

checks, na = [], []
for p in props:
    pid = p["id"]
    if pid in CHECKS:
        tech, text, note, ref = CHECKS[pid]
        text += EXTRA.get(pid, "")
        checks.append({
            "property_id": pid,
            "quick_cmd": f"./run.sh {pid} quick",
            "thorough_cmd": f"./run.sh {pid} thorough",
            "evidence_file": f"/verif/evidence/{pid}.json",
            "replay_cmd_template": "./run.sh replay {path}",
            "engine": "verif-mc",
            "level_claimed": {"category": "model_checking", "text": text, "design_ref": ref},
            "level_note": note,
            "technique": tech,
        })
    else:
        na.append({"property_id": pid, "reason": PENDING_REASON})
m = {
 "version": 1,
 "setup_cmd": "./run.sh setup",
 "hooks": {
  "guard": "verif",
  "enable": "no hooks are committed to /repo: instrumentation (fuel ticks, scheduling points) is generated from /repo's working tree at check time with go/ast and applied with `go build -overlay`; the tag `verif` is reserved",
  "baseline_off_cmd": "cd /repo && GOFLAGS=-mod=mod GOPROXY=off go test -count=1 ./...",
  "source_commits": [],
  "add_only": True,
 },
 "engines": [
  {"name": "verif-mc", "path": "/verif/mc", "serves_properties": sorted(CHECKS),
   "kind_free_text": "hand-written Go explicit-state explorer: exhaustive enumeration of construction trees (vertex / child / token sequences, option sets, numeric lattices, schedules) executed on the real library, compared with reference models (exact integer geometry, encoding/json reader, brute-force composition, vector great-circle model)"},
 ],
 "checks": checks,
 "not_applicable": na,
 "notes": "Known genuine defects are listed in /verif/known_findings.json (exact failing inputs; read-only at run time). Repairs are 'fix:' commits in /repo.",
}
json.dump(m, open(os.path.join(ROOT, "MANIFEST.json"), "w"), indent=1)
print("checks:", len(checks), "not_applicable:", len(na))
