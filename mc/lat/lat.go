// Package lat enumerates the construction trees used by the planar checks:
// lattice points, all vertex sequences up to a depth, simple rings.
//
// Exact coordinates are in half-units: lattice points sit on even integers,
// probe points on all integers, so the library sees v/2 (integers and
// half-integers) and the exact kernel sees plain integers.
package lat

import "verif/mc/exact"

// Lattice returns the k x k lattice points (even integers), shifted by off
// lattice steps so that it straddles zero: coordinates 2*(off) .. 2*(off+k-1).
func Lattice(k, off int) []exact.P {
	var out []exact.P
	for y := 0; y < k; y++ {
		for x := 0; x < k; x++ {
			out = append(out, exact.P{X: int64(2 * (x + off)), Y: int64(2 * (y + off))})
		}
	}
	return out
}

// Half returns the half-step refinement of Lattice(k, off): (2k-1)^2 points.
func Half(k, off int) []exact.P {
	var out []exact.P
	for y := 2 * off; y <= 2*(off+k-1); y++ {
		for x := 2 * off; x <= 2*(off+k-1); x++ {
			out = append(out, exact.P{X: int64(x), Y: int64(y)})
		}
	}
	return out
}

// Seqs calls fn for every sequence over pts with minLen <= length <= maxLen
// whose first element has index first (sharding key; first < 0 = all, and
// then the empty sequence is included when minLen == 0). The slice passed to
// fn is reused. Returns the number of tree nodes visited.
func Seqs(pts []exact.P, minLen, maxLen, first int, fn func(seq []exact.P)) int64 {
	var nodes int64
	buf := make([]exact.P, 0, maxLen)
	var rec func()
	rec = func() {
		nodes++
		if len(buf) >= minLen {
			fn(buf)
		}
		if len(buf) == maxLen {
			return
		}
		for _, p := range pts {
			buf = append(buf, p)
			rec()
			buf = buf[:len(buf)-1]
		}
	}
	if first >= 0 {
		if maxLen < 1 {
			return 0
		}
		buf = append(buf, pts[first])
		rec()
		return nodes
	}
	rec()
	return nodes
}

// SeqsFrom enumerates every sequence extending prefix (prefix itself
// included when long enough) up to maxLen. Used for sharding on level-2
// subtrees. Returns tree nodes visited.
func SeqsFrom(pts []exact.P, prefix []exact.P, minLen, maxLen int, fn func(seq []exact.P)) int64 {
	var nodes int64
	buf := make([]exact.P, len(prefix), maxLen+1)
	copy(buf, prefix)
	var rec func()
	rec = func() {
		nodes++
		if len(buf) >= minLen {
			fn(buf)
		}
		if len(buf) >= maxLen {
			return
		}
		for _, p := range pts {
			buf = append(buf, p)
			rec()
			buf = buf[:len(buf)-1]
		}
	}
	rec()
	return nodes
}

// Shards2 returns the prefixes that partition the sequence tree at level 2:
// the empty sequence and all length-1 sequences are returned as "short"
// (to be visited directly), then every length-2 prefix.
func Shards2(pts []exact.P) (short [][]exact.P, prefixes [][]exact.P) {
	short = append(short, []exact.P{})
	for _, a := range pts {
		short = append(short, []exact.P{a})
		for _, b := range pts {
			prefixes = append(prefixes, []exact.P{a, b})
		}
	}
	return
}

// SimpleRings returns every simple ring with 3..maxV vertices over pts, as
// open vertex sequences (all rotations and both directions occur as distinct
// sequences, because nothing is canonicalised).
func SimpleRings(pts []exact.P, maxV int) [][]exact.P {
	var out [][]exact.P
	Seqs(pts, 3, maxV, -1, func(seq []exact.P) {
		// a sequence that already ends with its first vertex is the closed
		// spelling of a shorter ring; rings are enumerated unclosed
		if seq[len(seq)-1] == seq[0] || !exact.Simple(seq) {
			return
		}
		out = append(out, append([]exact.P(nil), seq...))
	})
	return out
}

// Close appends the first vertex.
func Close(r []exact.P) []exact.P {
	out := make([]exact.P, 0, len(r)+1)
	out = append(out, r...)
	return append(out, r[0])
}
