package main

import (
	"fmt"
	"math"

	"github.com/tidwall/geojson/geometry"
)

func midlines(lo, hi float64, depth int) []float64 {
	m1, m2 := (lo+hi)/2, lo+(hi-lo)/2
	out := []float64{m1}
	if m2 != m1 {
		out = append(out, m2)
	}
	if depth > 0 {
		out = append(out, midlines(lo, m1, depth-1)...)
		out = append(out, midlines(m1, hi, depth-1)...)
	}
	return out
}

func gen(n int) []geometry.Point {
	x0, x1, y0, y1 := 12.3, 15.1, 0.2, 1.0
	ys := midlines(y0, y1, 2)
	xs := midlines(x0, x1, 2)
	out := []geometry.Point{{X: x0, Y: y0}, {X: x1, Y: y0}, {X: x1, Y: y1}, {X: x0, Y: y1}}
	for i := 4; i < n; i++ {
		k := i - 4
		y := y1 - (y1-y0)*float64(k+1)/float64(n-3)
		x := x0
		if k%2 == 1 {
			x = x0 + 0.05
		}
		if k < 2*len(ys) {
			y = ys[k/2]
		} else if k < 2*len(ys)+len(xs) {
			x = xs[k-2*len(ys)]
		}
		out = append(out, geometry.Point{X: x, Y: y})
	}
	return out
}

func main() {
	pts := gen(64)
	p := geometry.Point{X: 12.3, Y: 0.6}
	for _, o := range []*geometry.IndexOptions{{Kind: geometry.None}, {Kind: geometry.RTree, MinPoints: 1}, {Kind: geometry.QuadTree, MinPoints: 1}} {
		l := geometry.NewLine(pts, o)
		var hits []int
		q := geometry.Rect{Min: p, Max: p}
		l.Search(q, func(s geometry.Segment, i int) bool { hits = append(hits, i); return true })
		var brute []int
		for i := 0; i < l.NumSegments(); i++ {
			if l.SegmentAt(i).Rect().IntersectsRect(q) {
				brute = append(brute, i)
			}
		}
		fmt.Println(o.Kind, l.ContainsPoint(p), hits, brute)
		for _, i := range brute {
			fmt.Println("   seg", i, l.SegmentAt(i), l.SegmentAt(i).Raycast(p))
		}
	}
	_ = math.Pi
	for _, n := range []int{33, 64} {
		pts := gen(n)
		for _, o := range []*geometry.IndexOptions{{Kind: geometry.None}, {Kind: geometry.RTree, MinPoints: 1}, {Kind: geometry.QuadTree, MinPoints: 1}, nil} {
			pl := geometry.NewPoly(pts, nil, o)
			var hits []int
			strip := geometry.Rect{Min: geometry.Point{X: math.Inf(-1), Y: p.Y}, Max: geometry.Point{X: math.Inf(1), Y: p.Y}}
			pl.Exterior.Search(strip, func(s geometry.Segment, i int) bool { hits = append(hits, i); return true })
			fmt.Println("poly", n, o, pl.ContainsPoint(p), len(hits), hits)
		}
	}
}
