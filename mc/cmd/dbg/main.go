package main

import (
	"fmt"

	"github.com/tidwall/geojson/geometry"
)

func gen(n int) []geometry.Point {
	out := make([]geometry.Point, n)
	for i := range out {
		switch i % 6 {
		case 0:
			out[i] = geometry.Point{X: -64, Y: -64}
		case 1:
			out[i] = geometry.Point{X: 0, Y: float64(i%64) - 32}
		case 2:
			out[i] = geometry.Point{X: 64, Y: 64}
		case 3:
			out[i] = geometry.Point{X: float64(i%64) - 32, Y: 0}
		case 4:
			out[i] = geometry.Point{X: 32, Y: 32}
		default:
			out[i] = geometry.Point{X: 0, Y: 0}
		}
	}
	return out
}

func main() {
	pts := gen(64)
	for _, e := range []float64{5e-324, 0.5, 0.25} {
		l := geometry.NewLine([]geometry.Point{{X: e, Y: 0}, {X: e, Y: e}}, nil)
		for _, o := range []*geometry.IndexOptions{{Kind: geometry.None}, {Kind: geometry.RTree, MinPoints: 1}, {Kind: geometry.QuadTree, MinPoints: 1}} {
			p := geometry.NewPoly(pts, nil, o)
			fmt.Println(e, o.Kind, p.ContainsLine(l), p.ContainsPoint(geometry.Point{X: e, Y: 0}), p.ContainsPoint(geometry.Point{X: e, Y: e}))
		}
	}
}
