package main

import (
	"fmt"

	"github.com/tidwall/geojson/geometry"
)

func main() {
	for _, n := range []int{34, 40, 66} {
		out := make([]geometry.Point, n)
		for i := range out {
			s := 1.0
			if i%2 == 1 {
				s = -1
			}
			out[i] = geometry.Point{X: s * 1.7e308 * float64(i%5+1) / 5, Y: -s * 1.7e308 * float64(i%3+1) / 3}
		}
		l := geometry.NewLine(out, &geometry.IndexOptions{Kind: geometry.QuadTree, MinPoints: 1})
		fmt.Println(l.Rect(), len(l.Index().([]byte)))
		for _, q := range []geometry.Rect{{Min: geometry.Point{X: 1e307, Y: 1e307}, Max: geometry.Point{X: 2e307, Y: 2e307}}, {Min: geometry.Point{X: 1.6e308, Y: -1.7e308}, Max: geometry.Point{X: 1.7e308, Y: -1.6e308}}} {
			c := 0
			l.Search(q, func(geometry.Segment, int) bool { c++; return true })
			b := 0
			for i := 0; i < l.NumSegments(); i++ {
				if l.SegmentAt(i).Rect().IntersectsRect(q) {
					b++
				}
			}
			fmt.Println(n, c, b)
		}
	}
}
