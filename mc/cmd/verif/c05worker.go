//go:build verifinstr

package main

import (
	"bufio"
	"encoding/json"
	"fmt"
	"os"
	"runtime/debug"
	"strconv"
	"time"

	"github.com/tidwall/geojson"
	"github.com/tidwall/geojson/geometry"
	verifrt "github.com/tidwall/geojson/verifrt"
	"verif/mc/docgen"
	"verif/mc/rt"
)

func init() { subcommands["c05worker"] = c05Worker; subcommands["c05mp"] = c05MP }

// c05MP: Parse (and the methods of what it returns) on the documents with
// hundreds of members, in a process with several processors and no fuel
// accounting: a call that does not come back stops the progress markers.
func c05MP(args []string) {
	shard, _ := strconv.Atoi(args[0])
	n, _ := strconv.Atoi(args[1])
	o := &wout{w: bufio.NewWriterSize(os.Stdout, 1<<16), slow: os.Getenv("VERIF_SLOW") != ""}
	docs := docgen.BrokenMemberDocs()
	nb := len(docs)
	docs = append(docs, docgen.LargeDocs()...)
	for i, d := range docs {
		if i%n != shard {
			continue
		}
		name := fmt.Sprintf("large#%d", i-nb)
		if i < nb {
			name = fmt.Sprintf("broken-members#%d", i)
		}
		o.beat()
		o.states++
		for _, os := range c05OptSets {
			o.evals++
			mk := func() rt.Case {
				return rt.Case{Kind: "parsecall", Doc: name, Cfg: os.Name, X: map[string]string{"processors": "4"}}
			}
			o.begin(mk)
			obj, err, pan := parseChecked(d, os.O)
			if pan != "" || (obj == nil) == (err == nil) {
				o.fail("parse", mk(), "returns (object, nil) or (nil, error)", fmt.Sprintf("obj=%v err=%v panic=%s", obj, err, pan))
				continue
			}
			if obj != nil {
				obj.JSON()
				obj.ForEach(func(geojson.Object) bool { return true })
				obj.Contains(obj)
			}
		}
	}
	fmt.Fprintf(o.w, "O mp\nE %d %d %d %d %d\n", o.evals, o.states, o.trans, o.nt, 0)
	o.w.Flush()
}

type wout struct {
	nbegin                   int64
	lastBeat                 time.Time
	w                        *bufio.Writer
	slow                     bool
	evals, states, trans, nt int64
}

func (o *wout) fail(class string, c rt.Case, exp, got string) {
	b, _ := json.Marshal(workerMsg{class, c, exp, got})
	o.w.WriteString("F ")
	o.w.Write(b)
	o.w.WriteByte('\n')
	o.w.Flush()
}

func (o *wout) begin(c func() rt.Case) {
	if o.nbegin++; o.nbegin%4096 == 0 || (o.nbegin%64 == 0 && time.Since(o.lastBeat) > 5*time.Second) {
		o.beat() // progress marker independent of how the work is sliced and how loaded the machine is
	}
	if o.slow {
		b, _ := json.Marshal(workerMsg{Case: c()})
		o.w.WriteString("B ")
		o.w.Write(b)
		o.w.WriteByte('\n')
		o.w.Flush()
	}
}

func (o *wout) beat() {
	o.lastBeat = time.Now()
	o.w.WriteString("P .\n")
	o.w.Flush()
}

func budget(n, m int) int64 {
	s := int64(n + m + 1)
	return 1_000_000 + 2000*s*s
}

// guarded runs fn under a fuel budget; returns "" or a failure description.
func guarded(b int64, fn func()) (fail string) {
	defer func() {
		if r := recover(); r != nil {
			verifrt.FuelOn = false
			if e, ok := r.(verifrt.Exhausted); ok {
				fail = fmt.Sprintf("fuel budget of %d instrumented steps exhausted (site %d): does not terminate in polynomial time", b, e.Site)
			} else {
				fail = fmt.Sprintf("panic: %v", r)
			}
		}
	}()
	verifrt.StartFuel(b)
	fn()
	verifrt.StopFuel()
	return ""
}

func c05Worker(args []string) {
	shard, _ := strconv.Atoi(args[0])
	n, _ := strconv.Atoi(args[1])
	o := &wout{w: bufio.NewWriterSize(os.Stdout, 1<<16), slow: os.Getenv("VERIF_SLOW") != ""}
	thorough := os.Getenv("VERIF_TIER") == "thorough"
	// no call on any input of this check needs more than a fraction of this
	// (nesting is at most a few thousand levels); a call whose stack grows with
	// the length of a flat run of bytes runs into it (fatal: the worker dies,
	// which is reported) long before the default limit of 1 GB
	debug.SetMaxStack(256 << 20)
	c05Objects(o, shard, n, thorough)
	c05Parse(o, shard, n, thorough)
	fmt.Fprintf(o.w, "E %d %d %d %d %d\n", o.evals, o.states, o.trans, o.nt, verifrt.MaxUsed)
	o.w.Flush()
}

func c05Objects(o *wout, shard, n int, thorough bool) {
	size := 0
	if thorough {
		size = 1
	}
	pool := buildObjPool(size)
	c05Extras(pool)
	np := make([]int, len(pool.objs))
	for i, p := range pool.objs {
		np[i] = safeNumPoints(p.O)
	}
	for i, A := range pool.objs {
		if i%n != shard {
			continue
		}
		o.states++
		o.trans += int64(np[i])
		o.beat()
		for si := range callSpecs {
			spec := &callSpecs[si]
			if !spec.binary {
				o.evals++
				mk := func() rt.Case { return rt.Case{Kind: "call", Op: spec.name, X: map[string]string{"recv": A.Desc}} }
				o.begin(mk)
				if f := guarded(budget(np[i], 8), func() { spec.fn(A.O, nil) }); f != "" {
					o.fail("call-"+spec.name+"-"+A.Kind, mk(), "returns normally within its budget", f)
				}
				continue
			}
			for j, B := range pool.objs {
				o.evals++
				if np[i] > 0 && np[j] > 0 {
					o.nt++
				}
				mk := func() rt.Case {
					return rt.Case{Kind: "call", Op: spec.name, X: map[string]string{"recv": A.Desc, "arg": B.Desc}}
				}
				o.begin(mk)
				if f := guarded(budget(np[i], np[j]), func() { spec.fn(A.O, B.O) }); f != "" {
					o.fail("call-"+spec.name+"-"+A.Kind+"-"+B.Kind, mk(), "returns normally within its budget", f)
				}
			}
		}
		// geometry level
		if A.Geom != nil {
			for j, B := range pool.objs {
				if B.Geom == nil {
					continue
				}
				o.evals += 2
				mk := func() rt.Case {
					return rt.Case{Kind: "call", Op: "geometry", X: map[string]string{"recv": A.Desc, "arg": B.Desc}}
				}
				o.begin(mk)
				if f := guarded(budget(np[i], np[j]), func() { libContains(A.Geom, B.Geom); libIntersects(A.Geom, B.Geom) }); f != "" {
					o.fail("call-geometry-"+A.Kind+"-"+B.Kind, mk(), "returns normally within its budget", f)
				}
			}
		}
	}
	// constructions over degenerate layouts (index building), then a few calls
	for bi, b := range c05Builders() {
		if bi%n != shard {
			continue
		}
		o.states++
		o.evals++
		var obj geojson.Object
		mk := func() rt.Case { return rt.Case{Kind: "call", Op: "build", X: map[string]string{"recv": b.name}} }
		o.begin(mk)
		if f := guarded(budget(400, 0), func() {
			obj = b.fn()
			buildQueries(obj)
		}); f != "" {
			o.fail("build-and-query", mk(), "constructs and answers within its budget", f)
		}
	}
	o.w.WriteString("O objects\n")
}

var c05OptSets = []optSet{optDefault, optAlt,
	{optName(mkOpts(64, 64, geometry.QuadTree, true, false, false, false)), mkOpts(64, 64, geometry.QuadTree, true, false, false, false)},
	{optName(mkOpts(0, 0, geometry.None, false, false, true, false)), mkOpts(0, 0, geometry.None, false, false, true, false)}}

func c05ParseOne(o *wout, text string) { c05ParseNamed(o, text, text) }

// c05ParseNamed: name stands for the text in reported cases (documents of
// many megabytes are regenerated from their name on replay).
func c05ParseNamed(o *wout, name, text string) {
	for _, os := range c05OptSets {
		o.evals++
		mk := func() rt.Case { return rt.Case{Kind: "parsecall", Doc: name, Cfg: os.Name} }
		o.begin(mk)
		var obj geojson.Object
		var err error
		f := guarded(budget(len(text), 0), func() { obj, err = geojson.Parse(text, os.O) })
		if f == "" && (obj == nil) == (err == nil) {
			f = fmt.Sprintf("contract: exactly one of (object, error): obj=%v err=%v", obj, err)
		}
		if f != "" {
			o.fail("parse", mk(), "returns (object, nil) or (nil, error) within its budget", f)
			continue
		}
		if obj != nil {
			np := safeNumPoints(obj)
			if f := guarded(budget(np+len(text), 0), func() {
				obj.JSON()
				obj.Rect()
				obj.Center()
				obj.Valid()
				obj.Empty()
				obj.NumPoints()
				obj.ForEach(func(geojson.Object) bool { return true })
				obj.Contains(obj)
				obj.Intersects(obj)
			}); f != "" {
				o.fail("parsed-object-methods", mk(), "methods of the parsed object return normally", f)
			}
		}
	}
}

func c05Parse(o *wout, shard, n int, thorough bool) {
	// byte strings: all of length <= 2, and '{' + 2 bytes (+ '}')
	cnt := 0
	for b1 := 0; b1 < 256; b1++ {
		if b1%n != shard {
			continue
		}
		o.beat()
		c05ParseOne(o, string([]byte{byte(b1)}))
		for b2 := 0; b2 < 256; b2++ {
			c05ParseOne(o, string([]byte{byte(b1), byte(b2)}))
			c05ParseOne(o, string([]byte{'{', byte(b1), byte(b2)}))
			c05ParseOne(o, string([]byte{'{', byte(b1), byte(b2), '}'}))
			c05ParseOne(o, string([]byte{'{', '"', byte(b1), byte(b2), '"', ':', '1', '}'}))
			o.states += 4
			cnt++
		}
	}
	if shard == 0 {
		c05ParseOne(o, "")
	}
	// token strings
	depth := 5
	if thorough {
		depth = 6
	}
	A := rawAlphabet
	for i := 0; i < len(A)*len(A); i++ {
		if i%n != shard {
			continue
		}
		o.beat()
		var rec func(prefix string, d int)
		rec = func(prefix string, d int) {
			o.states++
			o.trans++
			if len(prefix) > 0 && prefix[0] == '{' {
				o.nt++
			}
			c05ParseOne(o, prefix)
			if d == depth {
				return
			}
			for _, a := range A {
				rec(prefix+a, d+1)
			}
		}
		rec(A[i/len(A)]+A[i%len(A)], 2)
	}
	// seed neighbourhoods
	seeds := append(append(docgen.Seeds(), floatSeeds()...), invalidSeeds()...)
	for i, s := range seeds {
		if i%n != shard {
			continue
		}
		o.beat()
		k := 1
		if len(docgen.T(s)) <= 26 || (thorough && len(docgen.T(s)) <= 48) {
			k = 2
		}
		nn := neighbourhood(s, k, func(text string, dev int) {
			o.trans++
			o.nt++
			c05ParseOne(o, text)
		})
		o.states += nn
	}
	// wrong JSON kind at every node of every seed
	for si, s := range seeds {
		if si%n != shard {
			continue
		}
		o.beat()
		for _, text := range kindSwaps(s) {
			o.states++
			c05ParseOne(o, text)
		}
	}
	// positions of mixed dimensionality, bbox members of every shape
	for i, s := range append(docgen.DimDocs(), docgen.BBoxDocs()...) {
		if i%n != shard {
			continue
		}
		if i%64 == 0 {
			o.beat()
		}
		o.states++
		c05ParseOne(o, s)
	}
	// large documents
	for i, s := range docgen.LargeDocs() {
		if i%n != shard {
			continue
		}
		o.beat()
		o.states++
		c05ParseOne(o, s)
		c05ParseOne(o, s[:len(s)/2])
	}
	// nesting families
	depths := []int{1, 2, 10, 100, 1000}
	if thorough {
		depths = append(depths, 3000)
	}
	for di, d := range depths {
		if di%n != shard {
			continue
		}
		o.beat()
		for _, fam := range []string{"gc", "feature", "array", "object", "fc"} {
			c05ParseOne(o, nestDoc(fam, d))
			o.states++
		}
	}
	// collections of hundreds of members several of which are not acceptable
	for i, d := range docgen.BrokenMemberDocs() {
		if i%n != shard {
			continue
		}
		o.beat()
		o.states++
		o.nt++
		c05ParseNamed(o, fmt.Sprintf("broken-members#%d", i), d)
	}
	// runs of 24 Mi bytes of one kind (white space in every place the grammar
	// allows it, string bodies, digits, zeros, array elements): the work and
	// the stack a call needs must not grow with the length of a run (the
	// worker's stack limit is 256 MB, see c05Worker)
	for i, lr := range c05LongRuns() {
		if i%n != shard {
			continue
		}
		o.beat()
		o.states++
		o.nt++
		c05ParseNamed(o, "longrun#"+lr.name, lr.gen())
	}
	// mixed nesting: every wrapper sequence of length <= 3 over {GeometryCollection,
	// Feature, Feature in the Circle convention, Feature with properties,
	// FeatureCollection}, repeated to depth 12 and 40 (work that doubles per
	// level exhausts the fuel long before depth 40)
	mixed := mixedNestDocs()
	for i, s := range mixed {
		if i%n != shard {
			continue
		}
		if i%16 == 0 {
			o.beat()
		}
		o.states++
		o.nt++
		c05ParseOne(o, s)
	}
	o.w.WriteString("O parse\n")
}

func mixedNestDocs() []string {
	type wr struct{ open, close string }
	ws := []wr{
		{`{"type":"GeometryCollection","geometries":[`, `]}`},
		{`{"type":"Feature","geometry":`, `}`},
		{`{"type":"Feature","properties":{"type":"Circle","radius":10,"radius_units":"m"},"geometry":`, `}`},
		{`{"type":"Feature","id":1,"geometry":`, `,"properties":{"a":[1,2]}}`},
		{`{"type":"FeatureCollection","features":[`, `]}`},
	}
	inner := `{"type":"Point","coordinates":[10,20]}`
	var units [][]int
	for a := range ws {
		units = append(units, []int{a})
		for b := range ws {
			units = append(units, []int{a, b})
			for c := range ws {
				units = append(units, []int{a, b, c})
			}
		}
	}
	var out []string
	for _, depth := range []int{12, 40} {
		for _, u := range units {
			var open, close []byte
			for i := 0; i < depth; i++ {
				w := ws[u[i%len(u)]]
				open = append(open, w.open...)
				close = append([]byte(w.close), close...)
			}
			out = append(out, string(open)+inner+string(close))
		}
	}
	return out
}

func nestDoc(fam string, d int) string {
	open, close, inner := "", "", ""
	switch fam {
	case "gc":
		open, close, inner = `{"type":"GeometryCollection","geometries":[`, `]}`, `{"type":"Point","coordinates":[1,2]}`
	case "feature":
		open, close, inner = `{"type":"Feature","geometry":`, `}`, `{"type":"Point","coordinates":[1,2]}`
	case "fc":
		open, close, inner = `{"type":"FeatureCollection","features":[`, `]}`, `{"type":"Feature","geometry":{"type":"Point","coordinates":[1,2]}}`
	case "array":
		// deeply nested coordinates
		s := `{"type":"Point","coordinates":`
		for i := 0; i < d; i++ {
			s += "["
		}
		s += "1"
		for i := 0; i < d; i++ {
			s += "]"
		}
		return s + "}"
	default:
		s := `{"type":"Point","coordinates":[1,2],"x":`
		for i := 0; i < d; i++ {
			s += `{"a":`
		}
		s += "1"
		for i := 0; i < d; i++ {
			s += "}"
		}
		return s + "}"
	}
	b := make([]byte, 0, d*(len(open)+len(close))+len(inner))
	for i := 0; i < d; i++ {
		b = append(b, open...)
	}
	b = append(b, inner...)
	for i := 0; i < d; i++ {
		b = append(b, close...)
	}
	return string(b)
}
