package main

import (
	"fmt"
	"strconv"
	"strings"

	"github.com/tidwall/geojson"
	"github.com/tidwall/geojson/geometry"
)

// Tracks that drive over a stretch of the same road twice: a LineString that
// runs along y = -10 from x=a to x=b, leaves it to the north or the south,
// goes round a long zigzag loop (87 segments: past the node-split sizes of
// both index kinds), comes back to the road at x=c from the north or the
// south, runs to x=d and leaves again. Every (a,b,c,d) over four road
// positions and every combination of the three turns. The probes are
// LineStrings that follow pieces of either pass: out of the middle of a
// stretch to its end and round the corner, into a stretch from its entry, out
// of the middle of the part both passes share along either continuation, and
// each of these backwards.
type track struct {
	a, b, c, d float64
	l1, e2, l2 float64 // +1 north, -1 south
}

var trackRoad = []float64{-12, -2, 2, 8}

func allTracks() []track {
	var out []track
	for _, a := range trackRoad {
		for _, b := range trackRoad {
			for _, c := range trackRoad {
				for _, d := range trackRoad {
					if a == b || c == d {
						continue
					}
					for m := 0; m < 8; m++ {
						s := func(bit int) float64 {
							if m&bit != 0 {
								return 1
							}
							return -1
						}
						out = append(out, track{a, b, c, d, s(1), s(2), s(4)})
					}
				}
			}
		}
	}
	return out
}

func (t track) String() string {
	return fmt.Sprintf("%v,%v,%v,%v,%v,%v,%v", t.a, t.b, t.c, t.d, t.l1, t.e2, t.l2)
}

func parseTrack(s string) (t track, ok bool) {
	f := strings.Split(s, ",")
	if len(f) != 7 {
		return t, false
	}
	var v [7]float64
	for i := range f {
		x, err := strconv.ParseFloat(f[i], 64)
		if err != nil {
			return t, false
		}
		v[i] = x
	}
	return track{v[0], v[1], v[2], v[3], v[4], v[5], v[6]}, true
}

func (t track) points() []geometry.Point {
	var pts []geometry.Point
	add := func(x, y float64) { pts = append(pts, geometry.Point{X: x, Y: y}) }
	add(t.a, -10)
	add(t.b, -10)
	add(t.b, -10+t.l1)
	for y := -8; y <= 10; y++ { // north along the east side
		add(float64(9-(y&1)), float64(y))
	}
	for x := 7; x >= -15; x-- { // west along the north side
		add(float64(x), float64(10+(x&1)))
	}
	for y := 9; y >= -12; y-- { // south along the west side
		add(float64(-14-(y&1)), float64(y))
	}
	for x := -13; x <= 7; x++ { // east along the south side
		add(float64(x), float64(-12-(x&1)))
	}
	add(t.c, -10+t.e2)
	add(t.c, -10)
	add(t.d, -10)
	add(t.d, -10+t.l2)
	return pts
}

func (t track) doc() string {
	var sb strings.Builder
	sb.WriteString(`{"type":"LineString","coordinates":[`)
	for i, p := range t.points() {
		if i > 0 {
			sb.WriteByte(',')
		}
		fmt.Fprintf(&sb, "[%v,%v]", p.X, p.Y)
	}
	sb.WriteString(`]}`)
	return sb.String()
}

func (t track) probes() []geojson.Object {
	P := func(x, y float64) geometry.Point { return geometry.Point{X: x, Y: y} }
	var paths [][]geometry.Point
	m1, m2 := (t.a+t.b)/2, (t.c+t.d)/2
	paths = append(paths,
		[]geometry.Point{P(m1, -10), P(t.b, -10), P(t.b, -10+t.l1)},
		[]geometry.Point{P(t.a, -10), P(m1, -10)},
		[]geometry.Point{P(m2, -10), P(t.d, -10), P(t.d, -10+t.l2)},
		[]geometry.Point{P(t.c, -10+t.e2), P(t.c, -10), P(m2, -10)},
		[]geometry.Point{P(m1, -10), P((m1+t.b)/2, -10), P(t.b, -10), P(t.b, -10+t.l1)},
	)
	lo, hi := max(min(t.a, t.b), min(t.c, t.d)), min(max(t.a, t.b), max(t.c, t.d))
	if lo < hi {
		mid := (lo + hi) / 2
		q := mid + (hi-lo)/4
		paths = append(paths,
			[]geometry.Point{P(mid, -10), P(t.b, -10), P(t.b, -10+t.l1)},
			[]geometry.Point{P(mid, -10), P(t.d, -10), P(t.d, -10+t.l2)},
			[]geometry.Point{P(mid, -10), P(t.c, -10), P(t.c, -10+t.e2)},
			[]geometry.Point{P(mid, -10), P(q, -10)},
			[]geometry.Point{P(q, -10), P(mid, -10)},
		)
	}
	var out []geojson.Object
	for _, p := range paths {
		out = append(out, geojson.NewLineString(geometry.NewLine(p, nil)))
		r := make([]geometry.Point, len(p))
		for i := range p {
			r[len(p)-1-i] = p[i]
		}
		out = append(out, geojson.NewLineString(geometry.NewLine(r, nil)))
	}
	return out
}

// trackOptionSets: the index options only (threshold below, at and above the
// track's size; both kinds; no index).
func trackOptionSets() []optSet {
	var out []optSet
	for _, ig := range []int{0, 1, 64, 92, 93, 94, 1000} {
		for _, k := range []geometry.IndexKind{geometry.None, geometry.RTree, geometry.QuadTree} {
			o := mkOpts(64, ig, k, false, false, false, false)
			out = append(out, optSet{optName(o), o})
		}
	}
	return out
}
