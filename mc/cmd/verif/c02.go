package main

import (
	"fmt"

	"verif/mc/exact"
	"verif/mc/rt"
)

// C02 — intersects is exact planar intersection and symmetric.

func init() { register("C02", runC02, evalPair) }

func runC02(r *rt.Run) {
	r.Describe = describePair
	p := buildPools(r.Thorough())
	r.Bounds["pools"] = p.desc
	r.Rule = "every ordered pair over pools of valid shapes built exhaustively from lattice alphabets (all half-step points, all rectangles incl. zero-extent, all lines of 2-3 positions incl. zero-length segments, all simple rings, curated exteriors x all valid holes); both operand orders; two index configurations; non-trivial = bounding boxes meet"
	r.Assume = []string{"valid operands (simple rings, holes inside) on small dyadic coordinates", "reference: exact set intersection via 1-D decomposition of boundary segments (verif/mc/exact); symmetric by construction"}
	allPairs(r, p, func(a, b *shp, w *rt.Worker) {
		cur := &curPair{"intersects", a.E, b.E}
		w.Cur = cur
		want := exact.Intersects(a.E, b.E)
		if boxesMeet(a.E, b.E) {
			w.Nontriv++
		}
		w.Outcome(fmt.Sprintf("%s-%s=%v", a.E.Kind, b.E.Kind, want))
		ab, ba := libIntersects(a.G, b.G), libIntersects(b.G, a.G)
		ab2, ba2 := libIntersects(a.G2, b.G2), libIntersects(b.G2, a.G2)
		w.Evals += 4
		if ab != want {
			w.Fail(fmt.Sprintf("intersects-%s-%s-want-%v", a.E.Kind, b.E.Kind, want), func() (rt.Case, string, string) {
				return pairCase("intersects", a.E, b.E, ident, ""), fmt.Sprint(want), fmt.Sprint(ab)
			})
		}
		if ba != want {
			w.Fail(fmt.Sprintf("intersects-%s-%s-want-%v", b.E.Kind, a.E.Kind, want), func() (rt.Case, string, string) {
				return pairCase("intersects", b.E, a.E, ident, ""), fmt.Sprint(want), fmt.Sprint(ba)
			})
		}
		if ab != ba {
			w.Fail(fmt.Sprintf("asymmetric-%s-%s", a.E.Kind, b.E.Kind), func() (rt.Case, string, string) {
				return pairCase("intersects-symmetry", a.E, b.E, ident, ""), "A.intersects(B) == B.intersects(A)", fmt.Sprintf("%v vs %v", ab, ba)
			})
		}
		if ab2 != ab {
			w.Fail("index-dependence", func() (rt.Case, string, string) {
				return pairCase("intersects", a.E, b.E, ident, "alt"), fmt.Sprint(want), fmt.Sprint(ab2)
			})
		}
		if ba2 != ba {
			w.Fail("index-dependence", func() (rt.Case, string, string) {
				return pairCase("intersects", b.E, a.E, ident, "alt"), fmt.Sprint(want), fmt.Sprint(ba2)
			})
		}
	})
	r.Sample(pairCase("intersects", p.polys[7].E, p.lines[100].E, ident, ""))
	r.Sample(pairCase("intersects", p.holed[3].E, p.hPolys[5].E, ident, ""))
}
