package main

import (
	"fmt"

	"github.com/tidwall/geojson/geometry"

	"verif/mc/exact"
	"verif/mc/rt"
)

// C02 — intersects is exact planar intersection and symmetric.

func init() { register("C02", runC02, evalPair) }

func runC02(r *rt.Run) {
	r.Describe = describePair
	p := buildPools(r.Thorough())
	r.Bounds["pools"] = p.desc
	r.Rule = "every ordered pair over pools of valid shapes built exhaustively from lattice alphabets (all half-step points, all rectangles incl. zero-extent, all lines of 2-3 positions incl. zero-length segments, all simple rings, curated exteriors x all valid holes); both operand orders; two index configurations; non-trivial = bounding boxes meet"
	r.Assume = []string{"valid operands (simple rings, holes inside) on small dyadic coordinates", "reference: exact set intersection via 1-D decomposition of boundary segments (verif/mc/exact); symmetric by construction"}
	allPairs(r, p, func(a, b *shp, w *rt.Worker) {
		cur := &curPair{"intersects", a.E, b.E}
		w.Cur = cur
		want := exact.Intersects(a.E, b.E)
		if boxesMeet(a.E, b.E) {
			w.Nontriv++
		}
		w.Outcome(fmt.Sprintf("%s-%s=%v", a.E.Kind, b.E.Kind, want))
		ab, ba := libIntersects(a.G, b.G), libIntersects(b.G, a.G)
		ab2, ba2 := libIntersects(a.G2, b.G2), libIntersects(b.G2, a.G2)
		w.Evals += 4
		if ab != want {
			w.Fail(fmt.Sprintf("intersects-%s-%s-want-%v", a.E.Kind, b.E.Kind, want), func() (rt.Case, string, string) {
				return pairCase("intersects", a.E, b.E, ident, ""), fmt.Sprint(want), fmt.Sprint(ab)
			})
		}
		if ba != want {
			w.Fail(fmt.Sprintf("intersects-%s-%s-want-%v", b.E.Kind, a.E.Kind, want), func() (rt.Case, string, string) {
				return pairCase("intersects", b.E, a.E, ident, ""), fmt.Sprint(want), fmt.Sprint(ba)
			})
		}
		if ab != ba {
			w.Fail(fmt.Sprintf("asymmetric-%s-%s", a.E.Kind, b.E.Kind), func() (rt.Case, string, string) {
				return pairCase("intersects-symmetry", a.E, b.E, ident, ""), "A.intersects(B) == B.intersects(A)", fmt.Sprintf("%v vs %v", ab, ba)
			})
		}
		if ab2 != ab {
			w.Fail("index-dependence", func() (rt.Case, string, string) {
				return pairCase("intersects", a.E, b.E, ident, "alt"), fmt.Sprint(want), fmt.Sprint(ab2)
			})
		}
		if ba2 != ba {
			w.Fail("index-dependence", func() (rt.Case, string, string) {
				return pairCase("intersects", b.E, a.E, ident, "alt"), fmt.Sprint(want), fmt.Sprint(ba2)
			})
		}
	})
	c02NearMiss(r)
	r.Sample(pairCase("intersects", p.polys[7].E, p.lines[100].E, ident, ""))
	r.Sample(pairCase("intersects", p.holed[3].E, p.hPolys[5].E, ident, ""))
}

// c02NearMiss: long segments (coordinates up to 2^20) that pass the end of a
// line or the corner of a square at a distance of about 1/N, and the
// matching exact hits: a tolerance in the kernels can only show here. The
// oracle uses orientation predicates only (int64-exact at this magnitude).
func c02NearMiss(r *rt.Run) {
	w := r.Worker()
	segBox := func(a, b exact.P, n int64) bool { // closed segment meets the closed square [0,n]^2
		in := func(p exact.P) bool { return p.X >= 0 && p.X <= n && p.Y >= 0 && p.Y <= n }
		if in(a) || in(b) {
			return true
		}
		c := []exact.P{{X: 0, Y: 0}, {X: n, Y: 0}, {X: n, Y: n}, {X: 0, Y: n}}
		for i := range c {
			if exact.SegsIntersect(a, b, c[i], c[(i+1)%4]) {
				return true
			}
		}
		return false
	}
	t := Xf{Scale: 1}
	cnt := 0
	for _, n := range []int64{12, 100, 4097, 65537, 1000000, 1048570} {
		sq := []exact.P{{X: 0, Y: 0}, {X: n, Y: 0}, {X: n, Y: n}, {X: 0, Y: n}, {X: 0, Y: 0}}
		poly := geometry.NewPoly(t.pts(sq), nil, idxNone)
		rect := geometry.Rect{Min: t.pt(sq[0]), Max: t.pt(sq[2])}
		base := geometry.NewLine(t.pts([]exact.P{{X: 0, Y: 0}, {X: n, Y: 0}}), idxNone)
		for _, da := range []int64{-1, 0, 1, 2} {
			for _, db := range []int64{-1, 0, 1, 2} {
				for _, top := range []int64{n, 1, 7, n / 10} {
					for _, bot := range []int64{-1, -n/10 - 1} {
						// line q from (n+da, top) to (n+db, bot): passes the end (n,0) of the base line / the corner of the square
						a, b := exact.P{X: n + da, Y: top}, exact.P{X: n + db, Y: bot}
						// and a line passing the corner (n,0) diagonally from outside
						for vi, q := range [][2]exact.P{{a, b}, {exact.P{X: n - n/10 - da, Y: bot}, exact.P{X: n + 1, Y: 1 + db}}} {
							if q[0].X > 1<<20 || q[1].X > 1<<20 || q[0].X < -(1<<20) || q[1].Y < -(1<<20) {
								continue
							}
							line := geometry.NewLine(t.pts(q[:]), idxNone)
							wantLL := exact.SegsIntersect(exact.P{X: 0, Y: 0}, exact.P{X: n, Y: 0}, q[0], q[1])
							wantBox := segBox(q[0], q[1], n)
							cnt++
							w.Evals += 6
							w.Nontriv++
							w.States++
							got := []bool{base.IntersectsLine(line), line.IntersectsLine(base), poly.IntersectsLine(line), line.IntersectsPoly(poly), rect.IntersectsLine(line), line.IntersectsRect(rect)}
							want := []bool{wantLL, wantLL, wantBox, wantBox, wantBox, wantBox}
							for k := range got {
								if got[k] != want[k] {
									k, n, vi := k, n, vi
									w.Fail("intersects-near-miss", func() (rt.Case, string, string) {
										return rt.Case{Kind: "nearmiss", Op: fmt.Sprint(k), Nums: []float64{float64(n), float64(q[0].X), float64(q[0].Y), float64(q[1].X), float64(q[1].Y), float64(vi)}}, fmt.Sprint(want[k]), fmt.Sprint(got[k])
									})
								}
							}
						}
					}
				}
			}
		}
	}
	r.Bounds["near_miss_long_segment_cases"] = cnt
	w.Flush()
}
