package main

import (
	"fmt"

	"github.com/tidwall/geojson/geometry"

	"verif/mc/exact"
	"verif/mc/rt"
)

// C02 — intersects is exact planar intersection and symmetric.

func init() { register("C02", runC02, evalC02) }

func runC02(r *rt.Run) {
	r.Describe = describePair
	p := buildPools(r.Thorough())
	r.Bounds["pools"] = p.desc
	r.Rule = "every ordered pair over pools of valid shapes built exhaustively from lattice alphabets (all half-step points, all rectangles incl. zero-extent, all lines of 2-3 positions incl. zero-length segments, all simple rings, curated exteriors x all valid holes); both operand orders; two index configurations and a third realisation in which both operands are derived objects (built elsewhere under an r-tree index, brought to their place through Move) a fourth scaled by 2^-300 and a fifth small and far away (step 2^-12 at 2^19); rings of types implemented outside the library; polygons sharing a Ring object (a plug built around the ring value another polygon uses as hole / exterior); non-trivial = bounding boxes meet"
	r.Assume = []string{"valid operands (simple rings, holes inside) on small dyadic coordinates", "reference: exact set intersection via 1-D decomposition of boundary segments (verif/mc/exact); symmetric by construction"}
	allPairs(r, p, func(a, b *shp, w *rt.Worker) {
		cur := &curPair{"intersects", a.E, b.E}
		w.Cur = cur
		want := exact.Intersects(a.E, b.E)
		if boxesMeet(a.E, b.E) {
			w.Nontriv++
		}
		w.Outcome(fmt.Sprintf("%s-%s=%v", a.E.Kind, b.E.Kind, want))
		ab, ba := libIntersects(a.G, b.G), libIntersects(b.G, a.G)
		ab2, ba2 := libIntersects(a.G2, b.G2), libIntersects(b.G2, a.G2)
		w.Evals += 4
		if ab != want {
			w.Fail(fmt.Sprintf("intersects-%s-%s-want-%v", a.E.Kind, b.E.Kind, want), func() (rt.Case, string, string) {
				return pairCase("intersects", a.E, b.E, ident, ""), fmt.Sprint(want), fmt.Sprint(ab)
			})
		}
		if ba != want {
			w.Fail(fmt.Sprintf("intersects-%s-%s-want-%v", b.E.Kind, a.E.Kind, want), func() (rt.Case, string, string) {
				return pairCase("intersects", b.E, a.E, ident, ""), fmt.Sprint(want), fmt.Sprint(ba)
			})
		}
		if ab != ba {
			w.Fail(fmt.Sprintf("asymmetric-%s-%s", a.E.Kind, b.E.Kind), func() (rt.Case, string, string) {
				return pairCase("intersects-symmetry", a.E, b.E, ident, ""), "A.intersects(B) == B.intersects(A)", fmt.Sprintf("%v vs %v", ab, ba)
			})
		}
		if ab2 != ab {
			w.Fail("index-dependence", func() (rt.Case, string, string) {
				return pairCase("intersects", a.E, b.E, ident, "alt"), fmt.Sprint(want), fmt.Sprint(ab2)
			})
		}
		if ba2 != ba {
			w.Fail("index-dependence", func() (rt.Case, string, string) {
				return pairCase("intersects", b.E, a.E, ident, "alt"), fmt.Sprint(want), fmt.Sprint(ba2)
			})
		}
		if ab5 := libIntersects(a.G5, b.G5); ab5 != ab {
			w.Fail("translation-dependence", func() (rt.Case, string, string) {
				return pairCase("intersects", a.E, b.E, ident, "far-fine"), fmt.Sprint(want), fmt.Sprint(ab5)
			})
		}
		w.Evals++
		// every position written twice (zero-length segments, same point sets)
		if a.G6 != nil && b.G6 != nil && ab == want && ba == want {
			ab6, ba6, m6 := libIntersects(a.G6, b.G6), libIntersects(b.G6, a.G6), libIntersects(a.G6, b.G)
			if ab6 != want || ba6 != want || m6 != want {
				w.Fail(fmt.Sprintf("intersects-%s-%s-want-%v+doubled", a.E.Kind, b.E.Kind, want), func() (rt.Case, string, string) {
					return pairCase("intersects", a.E, b.E, ident, "doubled"), fmt.Sprint(want), fmt.Sprintf("%v / %v / %v", ab6, ba6, m6)
				})
			}
			w.Evals += 3
		}
		if ab4 := libIntersects(a.G4, b.G4); ab4 != ab {
			w.Fail("scale-dependence", func() (rt.Case, string, string) {
				return pairCase("intersects", a.E, b.E, ident, "tiny"), fmt.Sprint(want), fmt.Sprint(ab4)
			})
		}
		w.Evals++
		ab3, ba3 := libIntersects(a.G3, b.G3), libIntersects(b.G3, a.G3)
		w.Evals += 2
		if ab3 != ab {
			w.Fail("move-dependence", func() (rt.Case, string, string) {
				return pairCase("intersects", a.E, b.E, ident, "moved"), fmt.Sprint(want), fmt.Sprint(ab3)
			})
		}
		if ba3 != ba {
			w.Fail("move-dependence", func() (rt.Case, string, string) {
				return pairCase("intersects", b.E, a.E, ident, "moved"), fmt.Sprint(want), fmt.Sprint(ba3)
			})
		}
	})
	c02NearMiss(r)
	c02NearParallel(r)
	c02RootZigzags(r)
	c02HoleTracks(r)
	sharedRings(r, p, "shared-ring-object")
	foreignRings(r, 4)
	r.Sample(pairCase("intersects", p.polys[7].E, p.lines[100].E, ident, ""))
	r.Sample(pairCase("intersects", p.holed[3].E, p.hPolys[5].E, ident, ""))
}

// c02NearMiss: long segments (coordinates up to 2^20) that pass the end of a
// line or the corner of a square at a distance of about 1/N, and the
// matching exact hits: a tolerance in the kernels can only show here. The
// oracle uses orientation predicates only (int64-exact at this magnitude).
func nearMissEval(n int64, q [2]exact.P) (got, want []bool) {
	segBox := func(a, b exact.P, n int64) bool { // closed segment meets the closed square [0,n]^2
		in := func(p exact.P) bool { return p.X >= 0 && p.X <= n && p.Y >= 0 && p.Y <= n }
		if in(a) || in(b) {
			return true
		}
		c := []exact.P{{X: 0, Y: 0}, {X: n, Y: 0}, {X: n, Y: n}, {X: 0, Y: n}}
		for i := range c {
			if exact.SegsIntersect(a, b, c[i], c[(i+1)%4]) {
				return true
			}
		}
		return false
	}
	t := Xf{Scale: 1}
	sq := []exact.P{{X: 0, Y: 0}, {X: n, Y: 0}, {X: n, Y: n}, {X: 0, Y: n}, {X: 0, Y: 0}}
	poly := geometry.NewPoly(t.pts(sq), nil, idxNone)
	rect := geometry.Rect{Min: t.pt(sq[0]), Max: t.pt(sq[2])}
	base := geometry.NewLine(t.pts([]exact.P{{X: 0, Y: 0}, {X: n, Y: 0}}), idxNone)
	line := geometry.NewLine(t.pts(q[:]), idxNone)
	wantLL := exact.SegsIntersect(exact.P{X: 0, Y: 0}, exact.P{X: n, Y: 0}, q[0], q[1])
	wantBox := segBox(q[0], q[1], n)
	got = []bool{base.IntersectsLine(line), line.IntersectsLine(base), poly.IntersectsLine(line), line.IntersectsPoly(poly), rect.IntersectsLine(line), line.IntersectsRect(rect)}
	want = []bool{wantLL, wantLL, wantBox, wantBox, wantBox, wantBox}
	return
}

func c02NearMiss(r *rt.Run) {
	w := r.Worker()
	cnt := 0
	for _, n := range []int64{12, 100, 4097, 65537, 1000000, 1048570} {
		for _, da := range []int64{-1, 0, 1, 2} {
			for _, db := range []int64{-1, 0, 1, 2} {
				for _, top := range []int64{n, 1, 7, n / 10} {
					for _, bot := range []int64{-1, -n/10 - 1} {
						// line q from (n+da, top) to (n+db, bot): passes the end (n,0) of the base line / the corner of the square
						a, b := exact.P{X: n + da, Y: top}, exact.P{X: n + db, Y: bot}
						// and a line passing the corner (n,0) diagonally from outside
						for _, q := range [][2]exact.P{{a, b}, {exact.P{X: n - n/10 - da, Y: bot}, exact.P{X: n + 1, Y: 1 + db}}} {
							if q[0].X > 1<<20 || q[1].X > 1<<20 || q[0].X < -(1<<20) || q[1].Y < -(1<<20) {
								continue
							}
							cnt++
							w.Evals += 6
							w.Nontriv++
							w.States++
							got, want := nearMissEval(n, q)
							for k := range got {
								if got[k] != want[k] {
									k, n, q := k, n, q
									w.Fail("intersects-near-miss", func() (rt.Case, string, string) {
										return rt.Case{Kind: "nearmiss", Op: fmt.Sprint(k), Nums: []float64{float64(n), float64(q[0].X), float64(q[0].Y), float64(q[1].X), float64(q[1].Y)}}, fmt.Sprint(want[k]), fmt.Sprint(got[k])
									})
								}
							}
						}
					}
				}
			}
		}
	}
	r.Bounds["near_miss_long_segment_cases"] = cnt
	w.Flush()
}

// nearParEval: the 2-position line [a,b] against the 3-position line
// [p,o,q], both orders, and the sliver triangle (a, b, q) against the
// segment [p,o] (triangle-vs-segment decided by orientation predicates).
func nearParEval(a, b, p, o, q exact.P) (got, want []bool) {
	t := Xf{Scale: 1}
	la := geometry.NewLine(t.pts([]exact.P{a, b}), idxNone)
	lb := geometry.NewLine(t.pts([]exact.P{p, o, q}), idxNone)
	wantLL := exact.SegsIntersect(a, b, p, o) || exact.SegsIntersect(a, b, o, q)
	lc := geometry.NewLine(t.pts([]exact.P{p, q}), idxNone) // straight through: the meeting point is interior to both
	wantLC := exact.SegsIntersect(a, b, p, q)
	got = []bool{la.IntersectsLine(lb), lb.IntersectsLine(la), la.IntersectsLine(lc), lc.IntersectsLine(la)}
	want = []bool{wantLL, wantLL, wantLC, wantLC}
	if exact.Orient(a, b, q) != 0 {
		tri := []exact.P{a, b, q, a}
		poly := geometry.NewPoly(t.pts(tri), nil, idxNone)
		seg := geometry.NewLine(t.pts([]exact.P{p, o}), idxNone)
		inTri := func(x exact.P) bool {
			s1, s2, s3 := exact.Orient(a, b, x), exact.Orient(b, q, x), exact.Orient(q, a, x)
			return (s1 >= 0 && s2 >= 0 && s3 >= 0) || (s1 <= 0 && s2 <= 0 && s3 <= 0)
		}
		wantTS := inTri(p) || inTri(o) || exact.SegsIntersect(a, b, p, o) || exact.SegsIntersect(b, q, p, o) || exact.SegsIntersect(q, a, p, o)
		got = append(got, poly.IntersectsLine(seg), seg.IntersectsPoly(poly), poly.IntersectsPoint(t.pt(o)), poly.IntersectsPoint(t.pt(p)))
		want = append(want, wantTS, wantTS, inTri(o), inTri(p))
	}
	return
}

// c02NearParallel: the near-parallel direction family of C19 (lengths from
// 2^17) at shape level.
func c02NearParallel(r *rt.Run) {
	type job struct{ d1, d2 exact.P }
	var jobs []job
	nearParDirs(1<<20-4, r.Thorough(), func(bi int, m int64, d1, d2 exact.P) {
		if m >= 1<<17-1 || m <= 5 {
			jobs = append(jobs, job{d1, d2})
		}
	})
	r.Bounds["near_parallel_direction_pairs"] = len(jobs)
	r.ParFor(len(jobs), func(i int, w *rt.Worker) {
		jb := jobs[i]
		a, b := psub(exact.P{}, jb.d1), jb.d1
		for ox := int64(-1); ox <= 1; ox++ {
			for oy := int64(-1); oy <= 1; oy++ {
				o := exact.P{X: ox, Y: oy}
				p, q := psub(o, jb.d2), padd(o, jb.d2)
				if !in20(p) || !in20(q) {
					continue
				}
				got, want := nearParEval(a, b, p, o, q)
				w.States++
				w.Evals += int64(len(got))
				w.Nontriv++
				for k := range got {
					if got[k] != want[k] {
						k := k
						w.Fail("intersects-near-parallel", func() (rt.Case, string, string) {
							return rt.Case{Kind: "nearpar", Op: fmt.Sprint(k), Nums: []float64{float64(a.X), float64(a.Y), float64(b.X), float64(b.Y), float64(p.X), float64(p.Y), float64(o.X), float64(o.Y), float64(q.X), float64(q.Y)}}, fmt.Sprint(want[k]), fmt.Sprint(got[k])
						})
					}
				}
			}
		}
	})
}

// c02RootZigzags: lines whose every segment crosses the horizontal midline of
// their own rectangle (a quadtree keeps them all in its root node), with
// 2^8 +- 2 and 2^16 +- 2 segments, under no index / the default options / a
// forced r-tree and quadtree, against points on and next to them, lines across
// them and rectangles around their vertices; both operand orders.
// Shapes wholly inside a concave hole that bend around its reflex vertices
// (their bounding-box centre is outside the hole), with 3 .. 49 positions:
// a track through the hole's lobes and a thin polygon around that track.
func holeTrack(hi, m int, asPoly bool) (a, b *exact.Shape) {
	S := func(c ...int64) []exact.P {
		var out []exact.P
		for i := 0; i+1 < len(c); i += 2 {
			out = append(out, exact.P{X: 16 * c[i], Y: 16 * c[i+1]})
		}
		return out
	}
	holes := [][]exact.P{
		S(8, 8, 40, 48, 72, 8, 40, 72, 8, 8),
		S(10, 10, 70, 10, 70, 70, 50, 70, 50, 30, 30, 30, 30, 70, 10, 70, 10, 10),
		S(10, 10, 70, 10, 70, 30, 30, 30, 30, 70, 10, 70, 10, 10),
	}
	tracks := [][]exact.P{S(16, 20, 40, 60, 64, 20), S(20, 60, 20, 20, 60, 20, 60, 60), S(20, 60, 20, 20, 60, 20)}
	a = &exact.Shape{Kind: exact.KPoly, Ext: S(0, 0, 80, 0, 80, 80, 0, 80, 0, 0), Holes: [][]exact.P{holes[hi]}}
	var line []exact.P
	t := tracks[hi]
	for i := 0; i+1 < len(t); i++ {
		for k := 0; k < m; k++ {
			line = append(line, exact.P{X: t[i].X + (t[i+1].X-t[i].X)*int64(k)/int64(m), Y: t[i].Y + (t[i+1].Y-t[i].Y)*int64(k)/int64(m)})
		}
	}
	line = append(line, t[len(t)-1])
	if !asPoly {
		return a, &exact.Shape{Kind: exact.KLine, Line: line}
	}
	// there along the track, back along a copy shifted by (16, 16) half units
	ring := append([]exact.P(nil), line...)
	for i := len(line) - 1; i >= 0; i-- {
		ring = append(ring, exact.P{X: line[i].X + 16, Y: line[i].Y + 16})
	}
	return a, &exact.Shape{Kind: exact.KPoly, Ext: append(ring, ring[0])}
}

func holeTrackEval(hi, m int, asPoly bool, cfg int) (bool, string, string) {
	ae, be := holeTrack(hi, m, asPoly)
	o := rootZigzagCfgs[cfg%len(rootZigzagCfgs)].o
	ag, bg := geomOf(ae, ident, o), geomOf(be, ident, o)
	want := exact.Intersects(ae, be)
	ab, ba := libIntersects(ag, bg), libIntersects(bg, ag)
	return ab != want || ba != want, fmt.Sprint(want), fmt.Sprintf("%v / swapped %v", ab, ba)
}

func c02HoleTracks(r *rt.Run) {
	w := r.Worker()
	n := 0
	for hi := 0; hi < 3; hi++ {
		for _, m := range []int{1, 2, 4, 5, 7, 8, 16} {
			for _, asPoly := range []bool{false, true} {
				for cfg := range rootZigzagCfgs {
					n++
					w.States++
					w.Evals += 2
					w.Nontriv++
					if bad, exp, got := holeTrackEval(hi, m, asPoly, cfg); bad {
						hi, m, asPoly, cfg := hi, m, asPoly, cfg
						w.Fail("intersects-track-in-concave-hole", func() (rt.Case, string, string) {
							p := 0.0
							if asPoly {
								p = 1
							}
							return rt.Case{Kind: "holetrack", Op: "intersects", Nums: []float64{float64(hi), float64(m), p, float64(cfg)}}, exp, got
						})
					}
				}
			}
		}
	}
	r.Bounds["tracks_in_concave_holes"] = n
	w.Flush()
}

func rootZigzag(n int) *exact.Shape {
	ps := make([]exact.P, n+1)
	for k := range ps {
		y := int64(2 * (1 + k%3))
		if k%2 == 1 {
			y = -y
		}
		ps[k] = exact.P{X: int64(2 * k), Y: y}
	}
	return &exact.Shape{Kind: exact.KLine, Line: ps}
}

var rootZigzagCfgs = []struct {
	name string
	o    *geometry.IndexOptions
}{{"", idxNone}, {"default", nil}, {"alt", idxCfgs[2].Opts}, {"rtree", idxCfgs[1].Opts}}

func evalRootZigzag(c *rt.Case) (bool, string, string, error) {
	if len(c.Nums) != 1 || c.Nums[0] < 1 || c.Nums[0] > 1<<20 || c.B == nil {
		return false, "", "", fmt.Errorf("malformed case")
	}
	ze := rootZigzag(int(c.Nums[0]))
	pe, ok := exactOf(c.B, ident)
	if !ok {
		return false, "", "", fmt.Errorf("coordinates outside the exact domain")
	}
	for _, cf := range rootZigzagCfgs {
		if cf.name == c.Cfg {
			zg, pg := geomOf(ze, ident, cf.o), geomOf(pe, ident, idxNone)
			want := exact.Intersects(ze, pe)
			ab, ba := libIntersects(zg, pg), libIntersects(pg, zg)
			return ab != want || ba != want, fmt.Sprint(want), fmt.Sprintf("%v / swapped %v", ab, ba), nil
		}
	}
	return false, "", "", fmt.Errorf("unknown configuration")
}

func c02RootZigzags(r *rt.Run) {
	sizes := []int{254, 255, 256, 257, 258, 65536}
	if r.Thorough() {
		sizes = append(sizes, 65534, 65535, 65537, 65538)
	}
	r.Bounds["root_node_zigzag_segments"] = sizes
	r.ParFor(len(sizes), func(i int, w *rt.Worker) {
		n := sizes[i]
		ze := rootZigzag(n)
		ps := ze.Line
		w.Trans += int64(n)
		var partners []*exact.Shape
		for _, k := range []int{0, 1, 100, 127, 128, 200, 254, 255, 256, n / 2, n - 2, n - 1, n} {
			if k < 0 || k > n {
				continue
			}
			v := ps[k]
			partners = append(partners, &exact.Shape{Kind: exact.KPoint, Pt: v}, &exact.Shape{Kind: exact.KPoint, Pt: exact.P{X: v.X + 1, Y: 0}},
				&exact.Shape{Kind: exact.KPoint, Pt: exact.P{X: v.X, Y: 0}},
				&exact.Shape{Kind: exact.KLine, Line: []exact.P{{X: v.X - 1, Y: v.Y}, {X: v.X + 1, Y: v.Y}}},
				&exact.Shape{Kind: exact.KLine, Line: []exact.P{{X: v.X + 1, Y: 9}, {X: v.X + 1, Y: 11}}},
				&exact.Shape{Kind: exact.KRect, Min: exact.P{X: v.X - 1, Y: v.Y - 1}, Max: exact.P{X: v.X + 1, Y: v.Y + 1}},
				&exact.Shape{Kind: exact.KRect, Min: exact.P{X: v.X, Y: 9}, Max: exact.P{X: v.X + 3, Y: 12}})
			if k < n {
				partners = append(partners, &exact.Shape{Kind: exact.KPoint, Pt: exact.P{X: v.X + 1, Y: (v.Y + ps[k+1].Y) / 2}})
			}
		}
		partners = append(partners, &exact.Shape{Kind: exact.KLine, Line: []exact.P{{X: -2, Y: 0}, {X: int64(2*n + 2), Y: 0}}},
			&exact.Shape{Kind: exact.KLine, Line: []exact.P{{X: -2, Y: 9}, {X: int64(2*n + 2), Y: 9}}})
		for _, cf := range rootZigzagCfgs {
			zg := geomOf(ze, ident, cf.o)
			w.States++
			for _, pe := range partners {
				want := exact.Intersects(ze, pe)
				pg := geomOf(pe, ident, idxNone)
				ab, ba := libIntersects(zg, pg), libIntersects(pg, zg)
				w.Evals += 2
				w.Nontriv++
				if ab != want || ba != want {
					cf, pe := cf, pe
					w.Fail("intersects-root-zigzag", func() (rt.Case, string, string) {
						return rt.Case{Kind: "rootzigzag", Op: "intersects", Nums: []float64{float64(n)}, B: descShape(pe, ident), Cfg: cf.name}, fmt.Sprint(want), fmt.Sprintf("%v / swapped %v", ab, ba)
					})
				}
			}
		}
	})
}

func evalC02(c *rt.Case) (bool, string, string, error) {
	ip := func(i int) exact.P { return exact.P{X: int64(c.Nums[i]), Y: int64(c.Nums[i+1])} }
	var got, want []bool
	switch c.Kind {
	case "nearmiss":
		if len(c.Nums) < 5 {
			return false, "", "", fmt.Errorf("malformed case")
		}
		got, want = nearMissEval(int64(c.Nums[0]), [2]exact.P{ip(1), ip(3)})
	case "nearpar":
		if len(c.Nums) < 10 {
			return false, "", "", fmt.Errorf("malformed case")
		}
		got, want = nearParEval(ip(0), ip(2), ip(4), ip(6), ip(8))
	case "holetrack":
		if len(c.Nums) != 4 || c.Nums[0] < 0 || c.Nums[0] > 2 || c.Nums[1] < 1 || c.Nums[1] > 64 {
			return false, "", "", fmt.Errorf("malformed case")
		}
		bad, exp, got := holeTrackEval(int(c.Nums[0]), int(c.Nums[1]), c.Nums[2] == 1, int(c.Nums[3]))
		return bad, exp, got, nil
	case "rootzigzag":
		return evalRootZigzag(c)
	case "shared-ring":
		return evalSharedRing(c)
	case "foreign-ring":
		return evalForeignRing(c)
	default:
		return evalPair(c)
	}
	var k int
	fmt.Sscan(c.Op, &k)
	if k < 0 || k >= len(got) {
		return false, "", "", fmt.Errorf("malformed case")
	}
	return got[k] != want[k], fmt.Sprint(want[k]), fmt.Sprint(got[k]), nil
}
