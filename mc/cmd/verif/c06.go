package main

import (
	"fmt"
	"math"
	"strconv"
	"strings"
	"verif/mc/sphere"

	"github.com/tidwall/geojson"
	"github.com/tidwall/geojson/geometry"
	"verif/mc/docgen"
	"verif/mc/refdoc"
	"verif/mc/rt"
)

// C06 — Parse -> JSON -> Parse is a lossless fixpoint.

func init() { register("C06", runC06, evalDoc) }

// probeObjs is a fixed pool of probe objects around the coordinate range of
// the generated documents.
var probeObjs = func() []geojson.Object {
	P := func(x, y float64) geometry.Point { return geometry.Point{X: x, Y: y} }
	return []geojson.Object{
		geojson.NewPoint(P(1, 2)), geojson.NewPoint(P(0, 0)), geojson.NewPoint(P(2, 2)), geojson.NewSimplePoint(P(4, 4)), geojson.NewPoint(P(50, 50)),
		geojson.NewRect(geometry.Rect{Min: P(-1, -1), Max: P(7, 7)}), geojson.NewRect(geometry.Rect{Min: P(1, 1), Max: P(2, 3)}),
		geojson.NewLineString(geometry.NewLine([]geometry.Point{P(0, 0), P(1, 1)}, nil)), geojson.NewLineString(geometry.NewLine([]geometry.Point{P(-1, 2), P(6, 2)}, nil)),
		geojson.NewPolygon(geometry.NewPoly([]geometry.Point{P(0, 0), P(4, 0), P(4, 4), P(0, 4), P(0, 0)}, nil, nil)),
		geojson.NewPolygon(geometry.NewPoly([]geometry.Point{P(-10, -10), P(10, -10), P(10, 10), P(-10, 10), P(-10, -10)}, [][]geometry.Point{{P(5, 5), P(6, 5), P(6, 6), P(5, 5)}}, nil)),
		geojson.NewMultiPoint([]geometry.Point{P(1, 2), P(0, 0)}),
		geojson.NewFeature(geojson.NewPoint(P(1, 1)), ""),
		geojson.NewCircle(P(1, 2), 100000, 12),
	}
}()

func init() {
	// probes at exactly the candidate midline latitudes / longitudes of the
	// decimal-midline documents (bounding box [12.3,15.1] x [0.2,1])
	for _, y := range midlines(0.2, 1.0, 2) {
		probeObjs = append(probeObjs, geojson.NewPoint(geometry.Point{X: 12.32, Y: y}), geojson.NewPoint(geometry.Point{X: 12.349, Y: y}))
	}
	for _, x := range midlines(12.3, 15.1, 2) {
		probeObjs = append(probeObjs, geojson.NewPoint(geometry.Point{X: x, Y: 0.61}))
	}
	// large circles whose disc is not covered by the rectangle of their polygon
	// approximation (mid latitude, polar cap, across the antimeridian)
	for _, c := range c08Circles {
		circleProbes = append(circleProbes, geojson.NewCircle(geometry.Point{X: c[0], Y: c[1]}, c[2], 64))
	}
	// points just inside the rim of those circles, all around (for documents holding the circles as children)
	for _, c := range c08Circles {
		for b := 0.0; b < 360; b += 15 {
			pl, po := sphere.Dest(c[1], c[0], c[2]*0.999, b)
			if po > 180 {
				po -= 360
			}
			circleProbes = append(circleProbes, geojson.NewPoint(geometry.Point{X: po, Y: pl}))
		}
	}
}

// circleProbes are used with the circle-rim documents only (circle predicates are costly)
var circleProbes []geojson.Object

var c08Circles = [][3]float64{{10, 60, 500000}, {0, 85, 1000000}, {179, 0, 300000}}

// answers renders every observable geometry answer of o.
func answers(o geojson.Object) (s string) { return answersWith(o, nil) }

func answersWith(o geojson.Object, extra []geojson.Object) (s string) {
	defer func() {
		if r := recover(); r != nil {
			s = fmt.Sprintf("panic: %v", r)
		}
	}()
	var sb strings.Builder
	rc := o.Rect()
	fmt.Fprintf(&sb, "rect=%s,%s,%s,%s empty=%v valid=%v n=%d|", fbits(rc.Min.X), fbits(rc.Min.Y), fbits(rc.Max.X), fbits(rc.Max.Y), o.Empty(), o.Valid(), o.NumPoints())
	for _, p := range append(probeObjs[:len(probeObjs):len(probeObjs)], extra...) {
		b := func(v bool) byte {
			if v {
				return '1'
			}
			return '0'
		}
		sb.Write([]byte{b(o.Contains(p)), b(o.Within(p)), b(o.Intersects(p)), b(p.Contains(o)), b(p.Within(o)), b(p.Intersects(o)), ' '})
	}
	return sb.String()
}

// expectedForeign: foreign members the output must carry.
// c06CircleOn: the option set under test reads the Circle convention. Then
// the type / radius / radius_units members of such a Feature's properties are
// the convention's own (they come back in its canonical spelling: a missing
// radius as 0, units as "m") and are not compared as foreign members; any other
// member still is. Set per call of c06One (one goroutine per call chain).
func foreignMember(o *refdoc.Obj, m refdoc.Member, circleOn bool, sb *strings.Builder) {
	sb.WriteString(strconv.Quote(m.Key))
	sb.WriteByte(':')
	if circleOn && o.Circle && m.Key == "properties" && m.Val.Kind == 'o' {
		sb.WriteByte('{')
		for i, k := range m.Val.Keys {
			if k == "type" || k == "radius" || k == "radius_units" {
				continue
			}
			sb.WriteString(strconv.Quote(k) + ":" + m.Val.Vals[i].Canon() + ",")
		}
		sb.WriteByte('}')
	} else {
		sb.WriteString(m.Val.Canon())
	}
	sb.WriteByte(',')
}

func expectedForeign(o *refdoc.Obj, sb *strings.Builder) { expectedForeignC(o, sb, false) }
func actualForeign(o *refdoc.Obj, sb *strings.Builder)   { actualForeignC(o, sb, false) }

func expectedForeignC(o *refdoc.Obj, sb *strings.Builder, circleOn bool) {
	if o == nil {
		return
	}
	sb.WriteByte('{')
	for _, m := range o.Foreign {
		foreignMember(o, m, circleOn, sb)
	}
	if o.Type == "Feature" && !o.HasProps {
		sb.WriteString(`"properties":{},`)
	}
	for _, c := range o.Children {
		expectedForeignC(c, sb, circleOn)
	}
	sb.WriteByte('}')
}

func actualForeignC(o *refdoc.Obj, sb *strings.Builder, circleOn bool) {
	if o == nil {
		return
	}
	sb.WriteByte('{')
	for _, m := range o.Foreign {
		foreignMember(o, m, circleOn, sb)
	}
	for _, c := range o.Children {
		actualForeignC(c, sb, circleOn)
	}
	sb.WriteByte('}')
}

// expectedXYZ renders positions with the further ordinates of the declared
// dimensionality (fixed by the first position of each coordinate member;
// missing ordinates read as 0).
func expectedXYZ(o *refdoc.Obj, sb *strings.Builder) {
	if o == nil {
		sb.WriteString("<nil>")
		return
	}
	sb.WriteString(o.Type)
	sb.WriteByte('(')
	dims := -1
	pos := func(p refdoc.Pos) {
		if dims < 0 {
			dims = len(p.Extra)
		}
		sb.WriteString(fbits(p.X) + "," + fbits(p.Y))
		for i := 0; i < dims; i++ {
			v := 0.0
			if i < len(p.Extra) {
				v = p.Extra[i]
			}
			sb.WriteString("," + fbits(v))
		}
		sb.WriteByte(';')
	}
	for _, p := range o.Pts {
		pos(p)
	}
	for _, r := range o.Rings {
		sb.WriteByte('[')
		for _, p := range r {
			pos(p)
		}
		sb.WriteByte(']')
	}
	for _, c := range o.Children {
		expectedXYZ(c, sb)
	}
	sb.WriteByte(')')
}

// circleExtras: does a Circle-convention feature carry anything besides the
// centre's x,y and properties{type,radius,radius_units}?
func circleExtras(o *refdoc.Obj) bool {
	for _, m := range o.Foreign {
		if m.Key != "properties" {
			return true
		}
		if m.Val.Kind == 'o' {
			for _, k := range m.Val.Keys {
				if k != "type" && k != "radius" && k != "radius_units" {
					return true
				}
			}
		}
	}
	if len(o.Children) == 1 {
		g := o.Children[0]
		if len(g.Foreign) > 0 || (len(g.Pts) == 1 && len(g.Pts[0].Extra) > 0) {
			return true
		}
	}
	return false
}

func c06One(text string, os optSet, emit func(class string, c rt.Case, exp, got string)) {
	obj, err, pan := parseChecked(text, os.O)
	if pan != "" || err != nil || obj == nil {
		return // C06 quantifies over accepted texts (C05/C07 own the rest)
	}
	mk := func() rt.Case { return rt.Case{Kind: "doc", Op: "roundtrip", Doc: text, Cfg: os.Name} }
	if jv, e := refdoc.ParseJSON(text); e != nil || jv.HasNonFinite() {
		return // stated for finite numbers
	}
	// the way a reply writer does it: append into its own buffer, which it
	// re-uses afterwards (the object must not keep any part of it)
	tmp := obj.AppendJSON(make([]byte, 0, 128))
	j0 := string(tmp)
	tmp = tmp[:cap(tmp)]
	for i := range tmp {
		tmp[i] = 0xEE
	}
	j1 := obj.JSON()
	if j1 != j0 {
		emit("output-changed-after-buffer-reuse", mk(), j0, j1)
		return
	}
	if _, e := refdoc.ParseJSON(j1); e != nil {
		emit("output-not-json", mk(), "valid JSON", j1)
		return
	}
	obj2, err2, pan2 := parseChecked(j1, os.O)
	if pan2 != "" || err2 != nil || obj2 == nil {
		emit("output-rejected", mk(), "output accepted again", fmt.Sprintf("%v %v for %s", err2, pan2, j1))
		return
	}
	if fmt.Sprintf("%T", obj) != fmt.Sprintf("%T", obj2) {
		emit("kind-changed", mk(), fmt.Sprintf("%T", obj), fmt.Sprintf("%T", obj2))
		return
	}
	if j2 := obj2.JSON(); j2 != j1 {
		emit("not-a-fixpoint", mk(), j1, j2)
		return
	}
	if a1, a2 := answers(obj), answers(obj2); a1 != a2 {
		emit("answers-differ", mk(), a1, a2)
		return
	}
	_, ref, _ := refdoc.Classify(text)
	if ref == nil {
		return
	}
	_, ref1, _ := refdoc.Classify(j1)
	if ref1 == nil {
		emit("output-unreadable", mk(), "a GeoJSON object", j1)
		return
	}
	if _, isCircle := obj.(*geojson.Circle); isCircle {
		if circleExtras(ref) {
			emit("circle-drops-members", mk(), "id / other members / further ordinates preserved", j1)
			// (listed finding: do not let it hide the centre / radius comparison below)
		}
		// centre and radius preserved
		if ref.XY() != ref1.XY() {
			emit("circle-centre-changed", mk(), ref.XY(), ref1.XY())
		}
		return
	}
	if ref.Type != ref1.Type || ref.XY() != ref1.XY() {
		emit("positions-differ", mk(), ref.XY(), ref1.XY())
		return
	}
	var e, a strings.Builder
	expectedXYZ(ref, &e)
	expectedXYZ(ref1, &a)
	if e.String() != a.String() {
		emit("ordinates-differ", mk(), e.String(), a.String())
		return
	}
	e.Reset()
	a.Reset()
	circleOn := os.O == nil || !os.O.DisableCircleType
	expectedForeignC(ref, &e, circleOn)
	actualForeignC(ref1, &a, circleOn)
	if e.String() != a.String() {
		emit("foreign-members-differ", mk(), e.String(), a.String())
		return
	}
}

// floatSeeds: coordinates that need 17 digits, negative zero, extremes.
func floatSeeds() []string {
	fl := []float64{0.30000000000000004, math.Copysign(0, -1), 1e21, 5e-324, 9007199254740993, -1e-7, 123456789.12345679, 1.7976931348623157e308, 0.1}
	var s []string
	for _, f := range fl {
		t := strconv.FormatFloat(f, 'g', -1, 64)
		s = append(s, docgen.Obj("Point", `"coordinates":[`+t+`,`+t+`,`+t+`]`))
		s = append(s, docgen.Obj("LineString", `"coordinates":[[`+t+`,1],[2,`+t+`]]`))
	}
	s = append(s, `{"type":"Point","coordinates":[1.0,2.50,3e0,-0.0]}`)
	s = append(s, `{"type":"Feature","geometry":{"type":"Point","coordinates":[1,2]},"id":1e2,"properties":{"a":"é\n"},"x":[1.0,{"b":null}]}`)
	s = append(s, `{"type":"Feature","geometry":{"type":"Point","coordinates":[1,2,9]},"id":"c","properties":{"type":"Circle","radius":1.5,"radius_units":"km","name":"x"}}`)
	s = append(s, `{"type":"Point","coordinates":[1,2],"bbox":[1,2,1,2]}`)
	s = append(s, `{"type":"Polygon","coordinates":[[[0,0,1],[4,0,2],[4,4,3],[0,0,4]],[[1,1],[2,1],[2,2],[1,1]]]}`)
	s = append(s, `{"type":"MultiLineString","coordinates":[[[0,0,1],[1,1]],[[5,5],[6,6]]],"geometry":5}`)
	return s
}

func runC06(r *rt.Run) {
	seeds := append(docgen.Seeds(), floatSeeds()...)
	r.Bounds["seeds"] = len(seeds)
	r.Bounds["deviations"] = "1 for every seed; 2 for seeds of <= 26 tokens (thorough: <= 64 tokens)"
	sets := []optSet{optDefault, optAlt, {optName(mkOpts(64, 64, geometry.QuadTree, true, false, false, false)), mkOpts(64, 64, geometry.QuadTree, true, false, false, false)},
		{optName(mkOpts(0, 0, geometry.None, false, false, true, false)), mkOpts(0, 0, geometry.None, false, false, true, false)}}
	var sn []string
	for _, s := range sets {
		sn = append(sn, s.Name)
	}
	r.Bounds["option_sets"] = sn
	r.Rule = "the accepted subset of: grammar + float seeds and every document within k token deviations; x 4 option sets; per accepted text: output is JSON, re-parses to the same Go kind, JSON is a fixpoint, geometry answers identical (rect/empty/valid/count + 6 predicates x 14 probes), and the output read by the reference reader carries the same type, x/y bit-for-bit, z/m of the declared dimensionality, child order and foreign members in order; non-trivial = accepted text"
	r.Assume = []string{"reference reader verif/mc/refdoc; reserved member names are not foreign members; the Circle convention is judged as: centre kept, nothing else carried by the input is dropped"}
	r.ParFor(len(seeds), func(i int, w *rt.Worker) {
		k := 1
		if n := len(docgen.T(seeds[i])); n <= 26 || (r.Thorough() && n <= 64) {
			k = 2
		}
		n := neighbourhood(seeds[i], k, func(text string, dev int) {
			w.Trans++
			for si, os := range sets {
				w.Evals++
				if si == 0 {
					if o, err := geojson.Parse(text, nil); err == nil && o != nil {
						w.Nontriv++
						w.Outcome("accepted:" + typeOf(o))
					} else {
						w.Outcome("rejected")
					}
				}
				c06One(text, os, func(class string, c rt.Case, exp, got string) {
					w.Fail(class, func() (rt.Case, string, string) { return c, exp, got })
				})
			}
		})
		w.States += n
	})
	// every seed with each node of its JSON tree replaced by another kind (the
	// accepted ones: foreign member values, properties, ids ...)
	r.ParFor(len(seeds), func(i int, w *rt.Worker) {
		for _, text := range kindSwaps(seeds[i]) {
			w.States++
			for _, os := range sets {
				w.Evals++
				c06One(text, os, func(class string, c rt.Case, exp, got string) {
					w.Fail(class, func() (rt.Case, string, string) { return c, exp, got })
				})
			}
		}
	})
	// large documents, as they are
	large := docgen.LargeDocs()
	r.Bounds["large_documents"] = len(large)
	large = append(large, docgen.ExtraDocs()...)
	r.Bounds["number_spelling_member_text_and_string_alphabet_documents"] = len(large) - r.Bounds["large_documents"].(int)
	r.ParFor(len(large), func(i int, w *rt.Worker) {
		w.States++
		w.Nontriv++
		for _, os := range sets {
			w.Evals++
			c06One(large[i], os, func(class string, c rt.Case, exp, got string) {
				c.Doc = fmt.Sprintf("large#%d", i) // the text itself is regenerated deterministically
				c.X = map[string]string{"len": fmt.Sprint(len(large[i]))}
				w.Fail(class+"-large", func() (rt.Case, string, string) { return c, trunc(exp), trunc(got) })
			})
		}
	})
	// one extra member of every name the library's sources spell, in every
	// member position, with every kind of value. (That the Circle output drops
	// members is the listed finding, established on the fixed families above;
	// here the question is whether answers, centre and radius survive.)
	snd := sourceNameDocs()
	r.Bounds["source_derived_member_names"] = len(sourceNames())
	r.Bounds["source_derived_member_documents"] = len(snd)
	r.ParFor(len(snd), func(i int, w *rt.Worker) {
		w.States++
		w.Nontriv++
		for _, os := range sets {
			w.Evals++
			c06One(snd[i], os, func(class string, c rt.Case, exp, got string) {
				if class == "circle-drops-members" {
					return
				}
				w.Fail(class, func() (rt.Case, string, string) { return c, exp, got })
			})
		}
	})
	r.Sample(rt.Case{Kind: "doc", Op: "roundtrip", Doc: seeds[len(seeds)-5], Cfg: "default"})
	r.Sample(rt.Case{Kind: "doc", Op: "roundtrip", Doc: seeds[30], Cfg: optAlt.Name})
}

func trunc(s string) string {
	if len(s) > 400 {
		return s[:200] + " ... " + s[len(s)-200:]
	}
	return s
}
