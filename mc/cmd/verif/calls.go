package main

import (
	"fmt"
	"reflect"
	"runtime/debug"
	"strings"
	"time"
	"verif/mc/docgen"

	"github.com/tidwall/geojson"
	"github.com/tidwall/geojson/geometry"
	"verif/mc/rt"
)

// Call alphabet of C05 / C16: every query and serialisation method.

type callSpec struct {
	name   string
	binary bool
	fn     func(a, b geojson.Object) string // returns a rendering of the result
}

var (
	callRect = geometry.Rect{Min: geometry.Point{X: -0.5, Y: -0.5}, Max: geometry.Point{X: 0.5, Y: 1}}
	callPt   = geometry.Point{X: 0, Y: 0}
	callLine = geometry.NewLine([]geometry.Point{{X: -1, Y: -1}, {X: 0, Y: 0}, {X: 1, Y: 0}}, nil)
	callPoly = geometry.NewPoly([]geometry.Point{{X: -1, Y: -1}, {X: 1, Y: -1}, {X: 0, Y: 0}, {X: 1, Y: 1}, {X: -1, Y: 1}, {X: -1, Y: -1}}, nil, nil)
)

var callSpecs = []callSpec{
	{"Empty", false, func(a, _ geojson.Object) string { return fmt.Sprint(a.Empty()) }},
	{"Valid", false, func(a, _ geojson.Object) string { return fmt.Sprint(a.Valid()) }},
	{"Rect", false, func(a, _ geojson.Object) string { return fmt.Sprint(a.Rect()) }},
	{"Center", false, func(a, _ geojson.Object) string { return fmt.Sprint(a.Center()) }},
	{"JSON", false, func(a, _ geojson.Object) string { return a.JSON() }},
	{"String", false, func(a, _ geojson.Object) string { return a.String() }},
	{"AppendJSON", false, func(a, _ geojson.Object) string { return string(a.AppendJSON([]byte("x"))) }},
	{"MarshalJSON", false, func(a, _ geojson.Object) string { b, e := a.MarshalJSON(); return fmt.Sprint(string(b), e) }},
	{"NumPoints", false, func(a, _ geojson.Object) string { return fmt.Sprint(a.NumPoints()) }},
	{"Members", false, func(a, _ geojson.Object) string { return a.Members() }},
	{"ForEach", false, func(a, _ geojson.Object) string {
		n := 0
		r := a.ForEach(func(g geojson.Object) bool { n++; return true })
		r2 := a.ForEach(func(g geojson.Object) bool { return false })
		return fmt.Sprint(n, r, r2)
	}},
	{"Abandoned", false, func(a, _ geojson.Object) string {
		// walks the caller abandons by panicking out of the callback (and
		// recovering, as a server does per request) at the 1st, 2nd, 3rd part
		var out []int
		walk := func(k int, search bool) {
			n := 0
			defer func() {
				recover()
				out = append(out, n)
			}()
			cb := func(geojson.Object) bool {
				n++
				if n == k {
					panic("abandoned")
				}
				return true
			}
			if c, ok := a.(geojson.Collection); ok && search {
				c.Search(geometry.Rect{Min: geometry.Point{X: -1e9, Y: -1e9}, Max: geometry.Point{X: 1e9, Y: 1e9}}, cb)
			} else {
				a.ForEach(cb)
			}
		}
		for k := 1; k <= 3; k++ {
			walk(k, false)
			walk(k, true)
		}
		return fmt.Sprint(out)
	}},
	{"Reentrant", false, func(a, _ geojson.Object) string {
		// callbacks that call back into the library on the same object: a walk
		// inside a walk, a search and predicates inside a search callback
		var out []interface{}
		a.ForEach(func(g geojson.Object) bool {
			n := 0
			a.ForEach(func(geojson.Object) bool { n++; return true })
			out = append(out, n, a.Contains(g), g.Within(a), a.Intersects(g))
			return len(out) < 40
		})
		if c, ok := a.(geojson.Collection); ok {
			all := geometry.Rect{Min: geometry.Point{X: -1e9, Y: -1e9}, Max: geometry.Point{X: 1e9, Y: 1e9}}
			c.Search(all, func(k geojson.Object) bool {
				m := 0
				c.Search(k.Rect(), func(geojson.Object) bool { m++; return true })
				out = append(out, m, a.Intersects(k), k.JSON() == a.JSON())
				return len(out) < 80
			})
		}
		return fmt.Sprint(out...)
	}},
	{"AllMethods", false, func(a, _ geojson.Object) string {
		// every exported method of the object's own type that takes no
		// argument (the type-specific accessors included: Base, Z, Polygon,
		// Children, Meters ...), found by reflection, and the package-level
		// helpers that take an Object
		var out []string
		v := reflect.ValueOf(a)
		for i := 0; i < v.NumMethod(); i++ {
			m := v.Method(i)
			if m.Type().NumIn() != 0 {
				continue
			}
			res := m.Call(nil)
			r := v.Type().Method(i).Name + "="
			for _, x := range res {
				switch x.Kind() {
				case reflect.Bool, reflect.Int, reflect.Float64, reflect.String:
					r += fmt.Sprint(x.Interface()) + ";"
				case reflect.Struct:
					if x.Type().PkgPath() == "github.com/tidwall/geojson/geometry" {
						r += fmt.Sprint(x.Interface()) + ";"
					} else {
						r += x.Type().String() + ";"
					}
				default:
					r += x.Type().String() + ";"
				}
			}
			if len(r) > 300 {
				r = r[:300]
			}
			out = append(out, r)
		}
		z, ok := geojson.IsPoint(a)
		out = append(out, fmt.Sprint("IsPoint=", z, ok))
		return strings.Join(out, " ")
	}},
	{"Spatial.Within*", false, func(a, _ geojson.Object) string {
		s := a.Spatial()
		return fmt.Sprint(s.WithinRect(callRect), s.WithinPoint(callPt), s.WithinLine(callLine), s.WithinPoly(callPoly))
	}},
	{"Spatial.Intersects*", false, func(a, _ geojson.Object) string {
		s := a.Spatial()
		return fmt.Sprint(s.IntersectsRect(callRect), s.IntersectsPoint(callPt), s.IntersectsLine(callLine), s.IntersectsPoly(callPoly))
	}},
	{"Spatial.Distance*", false, func(a, _ geojson.Object) string {
		s := a.Spatial()
		return fmt.Sprint(s.DistanceRect(callRect), s.DistancePoint(callPt), s.DistanceLine(callLine), s.DistancePoly(callPoly))
	}},
	{"Collection", false, func(a, _ geojson.Object) string {
		c, ok := a.(geojson.Collection)
		if !ok {
			return "-"
		}
		n, m := 0, 0
		c.Search(callRect, func(geojson.Object) bool { n++; return true })
		c.Search(geometry.Rect{Min: geometry.Point{X: -1e9, Y: -1e9}, Max: geometry.Point{X: 1e9, Y: 1e9}}, func(geojson.Object) bool { m++; return m < 2 })
		return fmt.Sprint(len(c.Children()), c.Indexed(), n, m)
	}},
	{"Circle", false, func(a, _ geojson.Object) string {
		c, ok := a.(*geojson.Circle)
		if !ok {
			return "-"
		}
		return fmt.Sprint(c.Meters(), c.Haversine(), c.HaversineTo(callPt), c.Polygon().JSON())
	}},
	{"BaseSeries", false, func(a, _ geojson.Object) string {
		var out []interface{}
		series := func(s geometry.Series) {
			if s == nil {
				return
			}
			n := 0
			s.Search(callRect, func(geometry.Segment, int) bool { n++; return true })
			out = append(out, s.NumPoints(), s.NumSegments(), s.Convex(), s.Clockwise(), s.Empty(), s.Valid(), s.Rect(), n)
			for i := 0; i < s.NumSegments(); i++ {
				out = append(out, s.SegmentAt(i))
			}
		}
		switch v := a.(type) {
		case *geojson.LineString:
			series(v.Base())
			out = append(out, v.Base().Move(1, 2).Rect())
		case *geojson.Polygon:
			series(v.Base().Exterior)
			for _, h := range v.Base().Holes {
				series(h)
			}
			out = append(out, v.Base().Move(1, 2).Rect(), v.Base().Clockwise())
		default:
			return "-"
		}
		return fmt.Sprint(out...)
	}},
	{"Contains", true, func(a, b geojson.Object) string { return fmt.Sprint(a.Contains(b)) }},
	{"Within", true, func(a, b geojson.Object) string { return fmt.Sprint(a.Within(b)) }},
	{"Intersects", true, func(a, b geojson.Object) string { return fmt.Sprint(a.Intersects(b)) }},
	{"Distance", true, func(a, b geojson.Object) string { return fmt.Sprint(a.Distance(b)) }},
}

func callByName(n string) *callSpec {
	for i := range callSpecs {
		if callSpecs[i].name == n {
			return &callSpecs[i]
		}
	}
	return nil
}

// c05Extras: constructor-only degenerates and deep nesting.
func c05Extras(p *objPool) {
	pt := geojson.NewPoint(geometry.Point{X: 0, Y: 0})
	ln := geojson.NewLineString(geometry.NewLine([]geometry.Point{{X: 0, Y: 0}, {X: 1, Y: 1}}, nil))
	p.add(geojson.NewPolygon(nil), "Polygon(nil)", nil)
	p.add(geojson.NewLineString(geometry.NewLine([]geometry.Point{{X: 1, Y: 2}}, nil)), "LineString(1pt)", nil)
	p.add(geojson.NewPolygon(geometry.NewPoly([]geometry.Point{{X: 1, Y: 2}, {X: 3, Y: 4}}, nil, nil)), "Polygon(2pts)", nil)
	p.add(geojson.NewPolygon(geometry.NewPoly([]geometry.Point{{X: -1, Y: -1}, {X: 1, Y: -1}, {X: 1, Y: 1}, {X: -1, Y: -1}}, [][]geometry.Point{{{X: 0, Y: 0}, {X: 0.5, Y: 0}}}, nil)), "Polygon(short hole)", nil)
	p.add(geojson.NewLineString(geometry.NewLine([]geometry.Point{{X: 0, Y: 0}, {X: 0, Y: 0}, {X: 0, Y: 0}}, nil)), "LineString(zero length)", nil)
	p.add(geojson.NewLineString(geometry.NewLine([]geometry.Point{{X: 0, Y: 0}, {X: 1, Y: 0}, {X: 2, Y: 0}}, nil)), "LineString", nil)
	p.add(geojson.NewLineString(geometry.NewLine([]geometry.Point{{X: 2, Y: 0}, {X: 1, Y: 0}, {X: 1, Y: 1}}, nil)), "LineString", nil)
	p.add(geojson.NewMultiLineString(nil), "MultiLineString", nil)
	p.add(geojson.NewMultiPolygon(nil), "MultiPolygon", nil)
	p.add(geojson.NewMultiPolygon([]*geometry.Poly{geometry.NewPoly(nil, nil, nil)}), "MultiPolygon(empty poly)", nil)
	deep := geojson.Object(geojson.NewGeometryCollection([]geojson.Object{pt, ln}))
	for i := 0; i < 3; i++ {
		deep = geojson.NewFeature(geojson.NewFeatureCollection([]geojson.Object{deep, geojson.NewGeometryCollection([]geojson.Object{deep})}), `{"id":1}`)
		p.add(deep, "nested", nil)
	}
	p.add(geojson.NewFeature(geojson.NewFeature(geojson.NewFeature(pt, ""), ""), ""), "Feature^3", nil)
	p.add(geojson.NewCircle(geometry.Point{X: 0, Y: 0}, -5, 3), "Circle", nil)
	p.add(geojson.NewCircle(geometry.Point{X: 0, Y: 90}, 1e7, 3), "Circle", nil)
	p.add(geojson.NewCircle(geometry.Point{X: 180, Y: 0}, 3e7, 4096), "Circle", nil)
	// a large indexed ring and line (index paths)
	var ring []geometry.Point
	for i := 0; i < 100; i++ {
		ring = append(ring, geometry.Point{X: float64(i%10) * 0.1, Y: float64(i/10) * 0.1})
	}
	ring = append(ring, ring[0])
	p.add(geojson.NewPolygon(geometry.NewPoly(ring, nil, nil)), "Polygon(indexed)", nil)
	p.add(geojson.NewLineString(geometry.NewLine(ring, &geometry.IndexOptions{Kind: geometry.RTree, MinPoints: 1})), "LineString(indexed)", nil)
	// hand-assembled geometry values (exported fields) handed to the constructors
	for i, mk := range handAssembled() {
		p.add(mk.o(), fmt.Sprintf("hand-assembled#%d", i), nil)
	}
}

// handAssembled: geometry.Poly values put together field by field rather
// than through NewPoly, handed to the public constructors.
func handAssembled() []struct {
	name  string
	typ   string
	depth int
	o     func() geojson.Object
} {
	tri := func() geometry.Ring {
		return geometry.NewPoly([]geometry.Point{{X: 1, Y: 1}, {X: 2, Y: 1}, {X: 2, Y: 2}, {X: 1, Y: 1}}, nil, nil).Exterior
	}
	return []struct {
		name  string
		typ   string
		depth int
		o     func() geojson.Object
	}{
		{"NewPolygon(&Poly{Holes})", "Polygon", 3, func() geojson.Object { return geojson.NewPolygon(&geometry.Poly{Holes: []geometry.Ring{tri()}}) }},
		{"NewPolygon(new(Poly))", "Polygon", 3, func() geojson.Object { return geojson.NewPolygon(new(geometry.Poly)) }},
		{"NewMultiPolygon([nil])", "MultiPolygon", 4, func() geojson.Object { return geojson.NewMultiPolygon([]*geometry.Poly{nil}) }},
		{"NewMultiPolygon([&Poly{Holes}, poly])", "MultiPolygon", 4, func() geojson.Object {
			return geojson.NewMultiPolygon([]*geometry.Poly{{Holes: []geometry.Ring{tri()}}, geometry.NewPoly([]geometry.Point{{X: 0, Y: 0}, {X: 4, Y: 0}, {X: 4, Y: 4}, {X: 0, Y: 0}}, nil, nil)})
		}},
		{"NewPolygon(&Poly{Exterior: Rect, Holes})", "Polygon", 3, func() geojson.Object {
			return geojson.NewPolygon(&geometry.Poly{Exterior: geometry.Rect{Min: geometry.Point{X: 0, Y: 0}, Max: geometry.Point{X: 4, Y: 4}}, Holes: []geometry.Ring{tri()}})
		}},
		{"NewPolygon(&Poly{Exterior: Rect})", "Polygon", 3, func() geojson.Object {
			return geojson.NewPolygon(&geometry.Poly{Exterior: geometry.Rect{Min: geometry.Point{X: 0, Y: 0}, Max: geometry.Point{X: 4, Y: 4}}})
		}},
	}
}

// buildQueries: the calls made on every constructed object of c05Builders.
func buildQueries(obj geojson.Object) string {
	obj.Contains(obj)
	obj.Intersects(obj)
	js := obj.JSON()
	obj.Spatial().IntersectsRect(callRect)
	pt := geojson.NewPoint(geometry.Point{X: 1, Y: 1})
	obj.Contains(pt)
	obj.Intersects(pt)
	pt.Within(obj)
	pt.Intersects(obj)
	obj.Distance(pt)
	obj.Rect()
	obj.Valid()
	obj.NumPoints()
	return js
}

// c05Builders: constructions that may themselves fail (index building over
// degenerate layouts); run under the same fuel / panic guard as calls.
func c05Builders() []struct {
	name string
	fn   func() geojson.Object
} {
	var out []struct {
		name string
		fn   func() geojson.Object
	}
	layouts := map[string]func(n int) []geometry.Point{
		"duplicates": func(n int) []geometry.Point {
			ps := make([]geometry.Point, n)
			for i := range ps {
				ps[i] = geometry.Point{X: 5, Y: 5}
			}
			return ps
		},
		"duplicates+excursion": func(n int) []geometry.Point {
			ps := make([]geometry.Point, n)
			for i := range ps {
				ps[i] = geometry.Point{X: 5, Y: 5}
			}
			if n > 3 {
				ps[n-3] = geometry.Point{X: 7, Y: 8}
			}
			return ps
		},
		"grid3x3": func(n int) []geometry.Point {
			ps := make([]geometry.Point, n)
			for i := range ps {
				ps[i] = geometry.Point{X: float64(i % 3), Y: float64((i / 3) % 3)}
			}
			return ps
		},
		"collinear": func(n int) []geometry.Point {
			ps := make([]geometry.Point, n)
			for i := range ps {
				ps[i] = geometry.Point{X: float64(i % 2), Y: 0}
			}
			return ps
		},
	}
	// series with no or hardly any segment under a forced index (MinPoints 1, 0, negative),
	// as line, as ring and as a hole of a square
	for _, n := range []int{0, 1, 2, 3} {
		for _, k := range []geometry.IndexKind{geometry.RTree, geometry.QuadTree} {
			for _, mp := range []int{1, 0, -1} {
				for shape := 0; shape < 3; shape++ {
					n, k, mp, shape := n, k, mp, shape
					out = append(out, struct {
						name string
						fn   func() geojson.Object
					}{fmt.Sprintf("tiny n=%d kind=%v min=%d shape=%d", n, k, mp, shape), func() geojson.Object {
						opts := &geometry.IndexOptions{Kind: k, MinPoints: mp}
						ps := layouts["grid3x3"](9)[4 : 4+n]
						switch shape {
						case 0:
							return geojson.NewLineString(geometry.NewLine(ps, opts))
						case 1:
							return geojson.NewPolygon(geometry.NewPoly(ps, nil, opts))
						}
						sq := []geometry.Point{{X: -5, Y: -5}, {X: 5, Y: -5}, {X: 5, Y: 5}, {X: -5, Y: 5}, {X: -5, Y: -5}}
						return geojson.NewPolygon(geometry.NewPoly(sq, [][]geometry.Point{ps}, opts))
					}})
				}
			}
		}
	}
	for _, ln := range []string{"duplicates", "duplicates+excursion", "grid3x3", "collinear"} {
		gen := layouts[ln]
		for _, n := range []int{16, 17, 18, 19, 21, 33, 34, 40, 70, 300} {
			for _, k := range []geometry.IndexKind{geometry.RTree, geometry.QuadTree} {
				for _, closed := range []bool{false, true} {
					n, k, closed, ln := n, k, closed, ln
					out = append(out, struct {
						name string
						fn   func() geojson.Object
					}{fmt.Sprintf("%s n=%d kind=%v closed=%v", ln, n, k, closed), func() geojson.Object {
						opts := &geometry.IndexOptions{Kind: k, MinPoints: 1}
						if closed {
							return geojson.NewPolygon(geometry.NewPoly(gen(n), nil, opts))
						}
						return geojson.NewLineString(geometry.NewLine(gen(n), opts))
					}})
				}
			}
		}
	}
	// circles of every step count (the polygon behind a circle is built lazily,
	// by the first call that needs it)
	for steps := -2; steps <= 1100; steps++ {
		for ci, c := range [][3]float64{{10, 20, 50000}, {0, 0, 1e6}} {
			steps, c := steps, c
			out = append(out, struct {
				name string
				fn   func() geojson.Object
			}{fmt.Sprintf("circle#%d steps=%d", ci, steps), func() geojson.Object {
				return geojson.NewCircle(geometry.Point{X: c[0], Y: c[1]}, c[2], steps)
			}})
		}
	}
	return out
}

func safeNumPoints(o geojson.Object) (n int) {
	defer func() {
		if recover() != nil {
			n = 0
		}
	}()
	return o.NumPoints()
}

// evalCall replays a call without instrumentation: panic or no return within
// 120 s (calls take microseconds) fails.
func evalCall(c *rt.Case) (bool, string, string, error) {
	if c.Kind != "call" && c.Kind != "parsecall" {
		return false, "", "", fmt.Errorf("not mine")
	}
	type res struct {
		out string
		pan string
	}
	ch := make(chan res, 1)
	go func() {
		var r res
		defer func() {
			if p := recover(); p != nil {
				r.pan = fmt.Sprint(p)
			}
			ch <- r
		}()
		if c.Kind == "parsecall" {
			doc := c.Doc
			if nm, ok := strings.CutPrefix(doc, "longrun#"); ok {
				for _, lr := range c05LongRuns() {
					if lr.name == nm {
						doc = lr.gen()
					}
				}
			}
			if nm, ok := strings.CutPrefix(doc, "large#"); ok {
				var i int
				fmt.Sscan(nm, &i)
				if ld := docgen.LargeDocs(); i >= 0 && i < len(ld) {
					doc = ld[i]
				}
			}
			if nm, ok := strings.CutPrefix(doc, "broken-members#"); ok {
				var i int
				fmt.Sscan(nm, &i)
				if bm := docgen.BrokenMemberDocs(); i >= 0 && i < len(bm) {
					doc = bm[i]
				}
			}
			debug.SetMaxStack(256 << 20)
			o, err := geojson.Parse(doc, optByName(c.Cfg))
			if (o == nil) == (err == nil) {
				r.pan = "contract: exactly one of (object, error)"
			}
			r.out = fmt.Sprint(o, err)
			return
		}
		if c.Op == "build" {
			for _, b := range c05Builders() {
				if b.name == c.X["recv"] {
					r.out = buildQueries(b.fn())
					return
				}
			}
		}
		for size := 0; size < 2; size++ {
			pool := buildObjPool(size)
			c05Extras(pool)
			ia, ok1 := pool.index[c.X["recv"]]
			ib, ok2 := pool.index[c.X["arg"]]
			spec := callByName(c.Op)
			if !ok1 || spec == nil || (spec.binary && !ok2) {
				continue
			}
			var b geojson.Object
			if spec.binary {
				b = pool.objs[ib].O
			}
			r.out = spec.fn(pool.objs[ia].O, b)
			return
		}
		r.pan = "case not found in the pool"
	}()
	select {
	case r := <-ch:
		if r.pan == "case not found in the pool" {
			return false, "", "", fmt.Errorf("%s", r.pan)
		}
		return r.pan != "", "returns normally", "panic: " + r.pan, nil
	case <-time.After(120 * time.Second):
		return true, "returns", "no return within 120 s", nil
	}
}

type longRun struct {
	name string
	gen  func() string
}

func c05LongRuns() []longRun {
	const N = 24 << 20
	pt := `{"type":"Point","coordinates":[1,2]}`
	rep := func(unit string) string { return strings.Repeat(unit, N/len(unit)) }
	var out []longRun
	for _, u := range []struct{ n, unit string }{{"space", " "}, {"newline", "\n"}, {"tab", "\t"}, {"mixed", " \r\n\t"}} {
		u := u
		out = append(out,
			longRun{"lead-" + u.n, func() string { return rep(u.unit) + pt }},
			longRun{"trail-" + u.n, func() string { return pt + rep(u.unit) }},
			longRun{"after-brace-" + u.n, func() string { return "{" + rep(u.unit) + pt[1:] }},
			longRun{"before-colon-" + u.n, func() string { return `{"type"` + rep(u.unit) + `:"Point","coordinates":[1,2]}` }},
			longRun{"in-position-" + u.n, func() string { return `{"type":"Point","coordinates":[1,` + rep(u.unit) + `2]}` }},
			longRun{"in-member-" + u.n, func() string { return `{"type":"Point","coordinates":[1,2],"m":[` + rep(u.unit) + `]}` }},
			longRun{"only-" + u.n, func() string { return rep(u.unit) }},
		)
	}
	out = append(out,
		longRun{"string-member", func() string { return `{"type":"Point","coordinates":[1,2],"m":"` + rep("a") + `"}` }},
		longRun{"string-escapes", func() string { return `{"type":"Point","coordinates":[1,2],"m":"` + rep(`\n`) + `"}` }},
		longRun{"string-id", func() string {
			return `{"type":"Feature","id":"` + rep("x") + `","geometry":` + pt + `,"properties":{}}`
		}},
		longRun{"key", func() string { return `{"type":"Point","` + rep("k") + `":1,"coordinates":[1,2]}` }},
		longRun{"type-name", func() string { return `{"type":"` + rep("P") + `","coordinates":[1,2]}` }},
		longRun{"digits", func() string { return `{"type":"Point","coordinates":[1` + rep("0") + `,2]}` }},
		longRun{"fraction", func() string { return `{"type":"Point","coordinates":[0.` + rep("0") + `1,2]}` }},
		longRun{"exponent", func() string { return `{"type":"Point","coordinates":[1e` + rep("0") + `1,2]}` }},
		longRun{"ordinates", func() string { return `{"type":"Point","coordinates":[1,2` + rep(",0") + `]}` }},
		longRun{"member-array", func() string { return `{"type":"Point","coordinates":[1,2],"m":[0` + rep(",0") + `]}` }},
		longRun{"empty-positions", func() string { return `{"type":"MultiPoint","coordinates":[[1,2]` + rep(",[]") + `]}` }},
		longRun{"null-geometries", func() string { return `{"type":"GeometryCollection","geometries":[` + pt + rep(",null") + `]}` }},
	)
	return out
}
