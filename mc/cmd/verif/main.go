// Command verif is the driver of every check: verif <Cxx> runs one property
// (tier from VERIF_TIER), verif replay <file> re-executes one recorded case.
package main

import (
	"encoding/json"
	"fmt"
	"os"
	"os/exec"
	"path/filepath"
	"sort"

	"verif/mc/rt"
)

type check struct {
	run  func(r *rt.Run)
	eval func(c *rt.Case) (fails bool, exp, got string, err error)
}

var checks = map[string]check{}

// subcommands are internal entry points (workers of instrumented builds).
var subcommands = map[string]func(args []string){}

func register(id string, run func(r *rt.Run), eval func(c *rt.Case) (bool, string, string, error)) {
	checks[id] = check{run, eval}
}

// evalAny dispatches a case to the evaluator that understands its kind.
func evalAny(c *rt.Case) (bool, string, string, error) {
	ids := make([]string, 0, len(checks))
	for id := range checks {
		ids = append(ids, id)
	}
	sort.Strings(ids)
	for _, id := range ids {
		if checks[id].eval == nil {
			continue
		}
		f, e, g, err := checks[id].eval(c)
		if err == nil {
			return f, e, g, nil
		}
	}
	return false, "", "", fmt.Errorf("no evaluator for case kind %q", c.Kind)
}

func main() {
	if len(os.Args) < 2 {
		fmt.Fprintln(os.Stderr, "usage: verif <C01..C19> | replay <file> | selftest")
		os.Exit(2)
	}
	if fn, ok := subcommands[os.Args[1]]; ok {
		fn(os.Args[2:])
		return
	}
	switch os.Args[1] {
	case "warm":
		// build-cache warm-up for the instrumented and the -race builds
		r := rt.NewRun("warm")
		scratch, _, err := instrBuild(r)
		if err == nil {
			cmd := exec.Command("go", rt.GoBuild("-race", "-o", filepath.Join(scratch, "verif-race"), "./cmd/verif")...)
			cmd.Dir = filepath.Join(rt.Root, "mc")
			if out, e := cmd.CombinedOutput(); e != nil {
				err = fmt.Errorf("%v: %s", e, out)
			}
		}
		if scratch != "" {
			os.RemoveAll(scratch)
		}
		if err != nil {
			fmt.Fprintln(os.Stderr, "warm-up failed:", err)
			os.Exit(1)
		}
		fmt.Println("instrumented and race builds warmed")
		return
	case "mkknown":
		mkknown()
		return
	case "replay":
		if len(os.Args) < 3 {
			fmt.Fprintln(os.Stderr, "usage: verif replay <file>")
			os.Exit(2)
		}
		b, err := os.ReadFile(os.Args[2])
		if err != nil {
			fmt.Fprintln(os.Stderr, err)
			os.Exit(2)
		}
		var f struct {
			Property string  `json:"property"`
			Case     rt.Case `json:"case"`
		}
		if err := json.Unmarshal(b, &f); err != nil {
			fmt.Fprintln(os.Stderr, err)
			os.Exit(2)
		}
		fails, exp, got, err := evalAny(&f.Case)
		if err != nil {
			fmt.Fprintln(os.Stderr, err)
			os.Exit(2)
		}
		fmt.Printf("case %s\nexpected %s\ngot      %s\n", f.Case.Key(), exp, got)
		if fails {
			fmt.Printf("VIOLATION property=%s replay=%s\n", f.Property, os.Args[2])
			os.Exit(1)
		}
		fmt.Println("case passes on this tree")
		os.Exit(0)
	default:
		c, ok := checks[os.Args[1]]
		if !ok {
			fmt.Fprintln(os.Stderr, "unknown check", os.Args[1])
			os.Exit(2)
		}
		r := rt.NewRun(os.Args[1])
		if c.eval != nil {
			r.ReplayWitnesses(evalAny)
		}
		c.run(r)
		r.Finish()
	}
}
