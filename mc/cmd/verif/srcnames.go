package main

import (
	"go/ast"
	"go/parser"
	"go/token"
	"os"
	"path/filepath"
	"regexp"
	"sort"
	"strconv"
	"strings"
	"sync"

	"verif/mc/rt"
)

// Member-name alphabet taken from the tree under test: every string literal
// of the library's own (non-test) sources, split at dots (gjson paths), and
// every struct field and constant name of the root package, as written and in
// lower case. A member name the parser gives a meaning to has to be spelled
// somewhere in those sources, so documents carrying each of these names in
// each member position reach every name-keyed branch the parser has.
var (
	srcNamesOnce sync.Once
	srcNamesList []string
)

var identLike = regexp.MustCompile(`^[A-Za-z_][A-Za-z0-9_]{0,23}$`)

func sourceNames() []string {
	srcNamesOnce.Do(func() {
		set := map[string]bool{}
		add := func(s string) {
			for _, part := range strings.Split(s, ".") {
				if identLike.MatchString(part) {
					set[part] = true
					set[strings.ToLower(part)] = true
				}
			}
		}
		for _, dir := range []string{".", "geometry", "geo"} {
			ents, err := os.ReadDir(filepath.Join(rt.RepoDir, dir))
			if err != nil {
				panic("harness: " + err.Error())
			}
			for _, e := range ents {
				n := e.Name()
				if e.IsDir() || !strings.HasSuffix(n, ".go") || strings.HasSuffix(n, "_test.go") {
					continue
				}
				f, err := parser.ParseFile(token.NewFileSet(), filepath.Join(rt.RepoDir, dir, n), nil, parser.SkipObjectResolution)
				if err != nil {
					panic("harness: " + err.Error())
				}
				ast.Inspect(f, func(nd ast.Node) bool {
					switch v := nd.(type) {
					case *ast.ImportSpec:
						return false
					case *ast.BasicLit:
						if v.Kind == token.STRING {
							if s, err := strconv.Unquote(v.Value); err == nil {
								add(s)
							}
						}
					case *ast.StructType:
						if dir == "." {
							for _, fl := range v.Fields.List {
								for _, nm := range fl.Names {
									add(nm.Name)
								}
							}
						}
					case *ast.ValueSpec:
						if dir == "." {
							for _, nm := range v.Names {
								add(nm.Name)
							}
						}
					}
					return true
				})
			}
		}
		for k := range set {
			srcNamesList = append(srcNamesList, k)
		}
		sort.Strings(srcNamesList)
	})
	return srcNamesList
}

// sourceNameDocs: a Circle feature, a plain Feature and a Polygon, each with
// one extra member of every source-derived name (unless the name is already
// a member there) and every kind of value, in every member position.
func sourceNameDocs() []string {
	values := []string{`6`, `7.5`, `"6"`, `true`, `null`, `[6]`, `{"a":6}`, `100`}
	var out []string
	has := func(list string, n string) bool { return strings.Contains(list, " "+n+" ") }
	for _, n := range sourceNames() {
		q := strconv.Quote(n)
		for _, v := range values {
			m := q + ":" + v
			if !has(" type radius radius_units ", n) {
				out = append(out, `{"type":"Feature","geometry":{"type":"Point","coordinates":[10,20]},"properties":{"type":"Circle","radius":100000,"radius_units":"m",`+m+`}}`)
				out = append(out, `{"type":"Feature","geometry":{"type":"Point","coordinates":[1,2]},"properties":{`+m+`,"type":"Circle","radius":150000}}`)
			}
			if !has(" type geometry properties ", n) {
				out = append(out, `{"type":"Feature",`+m+`,"geometry":{"type":"Point","coordinates":[10,20]},"properties":{"type":"Circle","radius":100000,"radius_units":"m"}}`)
				out = append(out, `{"type":"Feature","geometry":{"type":"LineString","coordinates":[[0,0],[3,3]]},`+m+`,"properties":{"a":1}}`)
			}
			if !has(" type coordinates ", n) {
				out = append(out, `{"type":"Feature","geometry":{"type":"Point","coordinates":[10,20],`+m+`},"properties":{"type":"Circle","radius":100000,"radius_units":"m"}}`)
				out = append(out, `{"type":"Polygon",`+m+`,"coordinates":[[[0,0],[4,0],[4,4],[0,4],[0,0]]]}`)
			}
			if !has(" type ", n) {
				out = append(out, `{"type":"Feature","geometry":{"type":"Polygon","coordinates":[[[0,0],[4,0],[4,4],[0,4],[0,0]]]},"properties":{`+m+`}}`)
			}
		}
	}
	return out
}
