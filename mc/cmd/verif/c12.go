package main

import (
	"fmt"

	"github.com/tidwall/geojson/geometry"
	"verif/mc/exact"
	"verif/mc/lat"
	"verif/mc/rt"
)

// C12 — predicates are invariant under re-encoding and rigid lattice
// symmetries. Oracle-free trigger (answers must not change); the exact model,
// which is invariant by construction, only attributes a change to the side
// that is wrong, and that concrete input is what known findings are matched on.

func init() { register("C12", runC12, evalC12) }

// a variant is one transformed realisation of a base shape
type variant struct {
	name string
	E    *exact.Shape      // exact shape after exact-domain transforms (symmetry / re-encoding)
	t    Xf                // float mapping
	move *[2]float64       // realised via Move(dx,dy) from the base object
	G    geometry.Geometry // realised library object
}

func moveGeom(g geometry.Geometry, dx, dy float64) geometry.Geometry {
	switch v := g.(type) {
	case geometry.Point:
		return v.Move(dx, dy)
	case geometry.Rect:
		return v.Move(dx, dy)
	case *geometry.Line:
		return v.Move(dx, dy)
	case *geometry.Poly:
		return v.Move(dx, dy)
	}
	panic("unknown geometry")
}

// moveSrcIdx: the index options of the object a moved variant is derived
// from (a function of the offset, so that replay needs nothing extra): the
// first offset moves an r-tree-indexed source, the second a quadtree-indexed
// one (MinPoints 1: even a triangle carries an index), the third an
// index-free one.
func moveSrcIdx(dx float64) *geometry.IndexOptions {
	switch dx {
	case 3:
		return idxCfgs[1].Opts
	case 1048576 - 8:
		return idxCfgs[2].Opts
	}
	return idxNone
}

// both-operand transforms
type bothXf struct {
	name string
	sym  int
	t    Xf
	move *[2]float64
}

var c12Both = func() []bothXf {
	var out []bothXf
	for s := 1; s < 8; s++ {
		out = append(out, bothXf{name: fmt.Sprintf("sym%d", s), sym: s, t: ident})
	}
	for _, d := range [][2]float64{{3, -5}, {1048576 - 8, -524288}, {-1.5, 0.25}} {
		d := d
		out = append(out, bothXf{name: fmt.Sprintf("translate(%g,%g)", d[0], d[1]), t: Xf{Scale: 0.5, Tx: d[0], Ty: d[1]}})
		out = append(out, bothXf{name: fmt.Sprintf("move(%g,%g)", d[0], d[1]), t: ident, move: &d})
	}
	out = append(out, bothXf{name: "far-fine(2^-12 at 2^19)", t: farFineXf})
	out = append(out, bothXf{name: "scale(2^-300)", t: Xf{Scale: 0x1p-301}})
	for _, s := range []float64{0.125, 2, 1024, 1.0 / (1 << 29), 1.0 / (1 << 40)} {
		out = append(out, bothXf{name: fmt.Sprintf("scale(%g)", s), t: Xf{Scale: 0.5 * s}})
	}
	return out
}()

func reverse(ps []exact.P) []exact.P {
	out := make([]exact.P, len(ps))
	for i, p := range ps {
		out[len(ps)-1-i] = p
	}
	return out
}

// reencodings of one operand that keep its point set
func reencodings(e *exact.Shape) []*variant {
	var out []*variant
	switch e.Kind {
	case exact.KLine:
		out = append(out, &variant{name: "reversed", E: &exact.Shape{Kind: exact.KLine, Line: reverse(e.Line)}, t: ident})
	case exact.KPoly:
		cyc := exact.Cyclic(e.Ext)
		n := len(cyc)
		for r := 1; r < n; r++ {
			rot := append(append([]exact.P{}, cyc[r:]...), cyc[:r]...)
			out = append(out, &variant{name: fmt.Sprintf("start+%d", r), E: &exact.Shape{Kind: exact.KPoly, Ext: lat.Close(rot), Holes: e.Holes}, t: ident})
		}
		out = append(out, &variant{name: "reversed", E: &exact.Shape{Kind: exact.KPoly, Ext: reverse(e.Ext), Holes: e.Holes}, t: ident})
		out = append(out, &variant{name: "unclosed", E: &exact.Shape{Kind: exact.KPoly, Ext: append([]exact.P{}, cyc...), Holes: e.Holes}, t: ident})
		if len(e.Holes) > 0 {
			var hs [][]exact.P
			for _, h := range e.Holes {
				hs = append(hs, reverse(h))
			}
			out = append(out, &variant{name: "holes-reversed", E: &exact.Shape{Kind: exact.KPoly, Ext: e.Ext, Holes: hs}, t: ident})
			hs = nil
			for _, h := range e.Holes {
				c := exact.Cyclic(h)
				hs = append(hs, lat.Close(append(append([]exact.P{}, c[1:]...), c[0])))
			}
			out = append(out, &variant{name: "holes-start+1", E: &exact.Shape{Kind: exact.KPoly, Ext: e.Ext, Holes: hs}, t: ident})
		}
	}
	for _, v := range out {
		v.G = geomOf(v.E, ident, idxNone)
	}
	return out
}

type c12shape struct {
	base *shp
	both []*variant // aligned with c12Both
	enc  []*variant
}

func mkC12(s *shp) *c12shape {
	c := &c12shape{base: s}
	for _, b := range c12Both {
		v := &variant{name: b.name, t: b.t, move: b.move}
		v.E = s.E
		if b.sym != 0 {
			v.E = symShape(b.sym, s.E)
		}
		if b.move != nil {
			v.G = moveGeom(geomOf(s.E, ident, moveSrcIdx(b.move[0])), b.move[0], b.move[1])
		} else {
			v.G = geomOf(v.E, v.t, idxNone)
		}
		c.both = append(c.both, v)
	}
	c.enc = reencodings(s.E)
	return c
}

func variantCase(op string, a, b *variant) rt.Case {
	c := rt.Case{Kind: "pair", Op: op, A: descShape(a.E, a.t), B: descShape(b.E, b.t), X: a.t.x()}
	if a.move != nil {
		c.X = map[string]string{"move": fmt.Sprintf("%s,%s", fs(a.move[0]), fs(a.move[1]))}
	}
	return c
}

func baseVariant(s *shp) *variant { return &variant{name: "base", E: s.E, t: ident, G: s.G} }

func runC12(r *rt.Run) {
	r.Describe = describePair
	polys := poolPolys(3, -1, 5, nil)
	lines := poolLines(3, -1, 3, nil)
	rects := poolRects(3, -1)
	points := poolPoints(3, -1)
	// polygons with holes (own lattice; transformed copies get their own keys)
	holed := poolHoled(false, nil)
	hPartners := append(append(poolLines(3, 1, 2, nil), poolPolys(3, 1, 3, nil)...), poolRects(3, 1)...)
	// thorough: the 4x4 lattice (not symmetric about its centre: images are new inputs)
	var polys4, partners4 []*shp
	if r.Thorough() {
		polys4 = poolPolys(4, -1, 4, nil)
		partners4 = append(append(poolLines(4, -1, 2, nil), poolRects(4, -1)...), poolPoints(4, -1)...)
	}
	r.Bounds["pools"] = map[string]int{"polys": len(polys), "lines": len(lines), "rects": len(rects), "points": len(points), "holed": len(holed), "holed_partners": len(hPartners), "polys4x4": len(polys4), "partners4x4": len(partners4)}
	var names []string
	for _, b := range c12Both {
		names = append(names, b.name)
	}
	r.Bounds["transforms_both"] = names
	r.Bounds["move_sources"] = "Move(3,-5) from an r-tree-indexed source, Move(2^20-8,-2^19) from a quadtree-indexed source (MinPoints 1), Move(-1.5,0.25) from an index-free source"
	r.Bounds["reencodings_one"] = "ring: every other start vertex, reversed, unclosed, holes reversed / restarted; line: reversed"
	r.Rule = "every pair over exhaustively built pools (3x3 symmetric lattice; slanted-triangle contact pairs; 14..17-position discs with and without closing vertex x outers with notches, slots, holes and frames) x every listed transform of both operands and every re-encoding of either operand; 4 answers per pair (contains both ways, intersects both ways) compared with the untransformed answers; non-trivial = bounding boxes meet"
	r.Assume = []string{"valid operands on dyadic coordinates, magnitude <= 2^20", "trigger is oracle-free; verif/mc/exact (invariant by construction) only attributes a change to the wrong side"}

	conv := func(ps []*shp) []*c12shape {
		out := make([]*c12shape, len(ps))
		r.ParFor(len(ps), func(i int, w *rt.Worker) {
			out[i] = mkC12(ps[i])
			w.States += int64(1 + len(out[i].both) + len(out[i].enc))
			w.Trans += int64((1 + len(out[i].both) + len(out[i].enc)) * len(ps[i].E.Skeleton()))
		})
		return out
	}
	cp, cl, cr, cpt, ch, chp := conv(polys), conv(lines), conv(rects), conv(points), conv(holed), conv(hPartners)
	cp4, cq4 := conv(polys4), conv(partners4)

	answers := func(a, b geometry.Geometry) [4]bool {
		return [4]bool{libContains(a, b), libContains(b, a), libIntersects(a, b), libIntersects(b, a)}
	}
	opn := [4]string{"contains", "contains", "intersects", "intersects"}
	report := func(w *rt.Worker, kind string, A, B *c12shape, va, vb *variant, base, got [4]bool) {
		for k := 0; k < 4; k++ {
			if base[k] == got[k] {
				continue
			}
			// operand order of answer k
			ea, eb, xa, xb := A.base.E, B.base.E, va, vb
			if k == 1 || k == 3 {
				ea, eb, xa, xb = eb, ea, vb, va
			}
			var want bool
			if k < 2 {
				want = exact.Contains(ea, eb)
			} else {
				want = exact.Intersects(ea, eb)
			}
			k := k
			class := "intersects-" + ea.Kind.String() + "-" + eb.Kind.String()
			if k < 2 {
				class = containClass(ea, eb, want)
			}
			if got[k] != want {
				w.Fail(class+"+"+kind, func() (rt.Case, string, string) {
					return variantCase(opn[k], xa, xb), fmt.Sprint(want), fmt.Sprint(got[k])
				})
			} else {
				w.Fail(class, func() (rt.Case, string, string) {
					return pairCase(opn[k], ea, eb, ident, ""), fmt.Sprint(want), fmt.Sprint(base[k])
				})
			}
		}
	}
	pair := func(A, B *c12shape, w *rt.Worker) {
		w.Cur = &curPair{"contains", A.base.E, B.base.E}
		base := answers(A.base.G, B.base.G)
		if boxesMeet(A.base.E, B.base.E) {
			w.Nontriv++
		}
		w.Outcome(fmt.Sprintf("%s-%s c=%v w=%v i=%v", A.base.E.Kind, B.base.E.Kind, base[0], base[1], base[2]))
		for i := range c12Both {
			got := answers(A.both[i].G, B.both[i].G)
			w.Evals += 4
			if got != base {
				report(w, "both", A, B, A.both[i], B.both[i], base, got)
			}
		}
		bb, ba := baseVariant(B.base), baseVariant(A.base)
		for _, v := range A.enc {
			got := answers(v.G, B.base.G)
			w.Evals += 4
			if got != base {
				report(w, "reencoded", A, B, v, bb, base, got)
			}
		}
		for _, v := range B.enc {
			got := answers(A.base.G, v.G)
			w.Evals += 4
			if got != base {
				report(w, "reencoded", A, B, ba, v, base, got)
			}
		}
	}
	run := func(as, bs []*c12shape, same bool) {
		r.ParFor(len(as), func(i int, w *rt.Worker) {
			for j, b := range bs {
				if same && j < i {
					continue
				}
				pair(as[i], b, w)
			}
		})
	}
	run(cp, cp, true)
	run(cp, cl, false)
	run(cp, cr, false)
	run(cp, cpt, false)
	run(cl, cl, true)
	run(cl, cr, false)
	run(cl, cpt, false)
	run(cr, cr, true)
	run(cr, cpt, false)
	run(ch, chp, false)
	run(cp4, cq4, false)
	// lines that end where they started x every line of <= 3 positions (among
	// them the ones that run through the closing position, in both directions)
	maxLoop := 3
	if r.Thorough() {
		maxLoop = 4
	}
	loops := poolClosedLines(3, -1, maxLoop)
	r.Bounds["closed_lines"] = len(loops)
	run(conv(loops), cl, false)
	// triangles with long slanted edges x shapes touching the hypotenuse (translation / Move / reflection / direction)
	_, sp := slantPairs()
	r.Bounds["slanted_triangle_pairs"] = len(sp)
	r.ParFor(len(sp), func(i int, w *rt.Worker) {
		pair(mkC12(sp[i][0]), mkC12(sp[i][1]), w)
	})
	// identity of objects is not part of the encoding: polygons sharing a Ring value answer as separately built ones
	sharedRings(r, &pools{holed: holed}, "shared-ring-object")
	// nor is the concrete type of a ring: a slice-backed Series, with and without closing vertex, from every start vertex
	foreignRings(r, 4)
	// inner shapes on either side of the 16-position shortcut (with / without
	// closing vertex) x outers with notches, slots, holes and frames
	bo, bi := poolBigInner(nil)
	r.Bounds["outers_x_16_position_inners"] = []int{len(bo), len(bi)}
	cbo, cbi := conv(bo), conv(bi)
	run(cbo, cbi, false)
	c12IndexedZigzags(r)
	// sides that carry extra collinear vertices: curated exteriors with every
	// side cut into pieces of two units x lines (and rectangles on axis-aligned
	// sides) lying on a side with their ends strictly inside pieces
	{
		var jobs [][2]*shp
		for _, name := range []string{"square", "L", "U", "notch-seam"} {
			rings, partners := splitSides(curatedExteriors[name])
			for _, pt := range partners {
				jobs = append(jobs, [2]*shp{rings, pt})
			}
		}
		r.Bounds["split_side_pairs"] = len(jobs)
		r.ParFor(len(jobs), func(i int, w *rt.Worker) {
			pair(mkC12(jobs[i][0]), mkC12(jobs[i][1]), w)
		})
	}
	r.Sample(map[string]any{"base": pairCase("contains", polys[5].E, lines[40].E, ident, ""), "transform": c12Both[9].name})
	r.Sample(map[string]any{"base": pairCase("contains", polys[5].E, lines[40].E, ident, ""), "reencoding_of_A": cp[5].enc[1].name})
}

// splitSides: the closed ring scaled by 2 with a vertex at every second
// lattice step of every side, and the shapes lying on its sides whose ends
// are at odd steps (strictly inside the pieces).
func splitSides(ring []exact.P) (*shp, []*shp) {
	gcd := func(a, b int64) int64 {
		if a < 0 {
			a = -a
		}
		if b < 0 {
			b = -b
		}
		for b != 0 {
			a, b = b, a%b
		}
		return a
	}
	cyc := exact.Cyclic(ring)
	var dense []exact.P
	var partners []*shp
	for i := range cyc {
		a, b := exact.P{X: 2 * cyc[i].X, Y: 2 * cyc[i].Y}, exact.P{X: 2 * cyc[(i+1)%len(cyc)].X, Y: 2 * cyc[(i+1)%len(cyc)].Y}
		g := gcd(b.X-a.X, b.Y-a.Y)
		ux, uy := (b.X-a.X)/g, (b.Y-a.Y)/g
		at := func(k int64) exact.P { return exact.P{X: a.X + k*ux, Y: a.Y + k*uy} }
		for k := int64(0); k < g; k += 2 {
			dense = append(dense, at(k))
		}
		for k1 := int64(1); k1 < g; k1 += 2 {
			for k2 := k1 + 2; k2 < g; k2 += 2 {
				p, q := at(k1), at(k2)
				partners = append(partners, mkShp(&exact.Shape{Kind: exact.KLine, Line: []exact.P{p, q}}, nil))
				if k2 > k1+2 {
					partners = append(partners, mkShp(&exact.Shape{Kind: exact.KLine, Line: []exact.P{p, at(k1 + 2), q}}, nil))
				}
				if ux == 0 || uy == 0 {
					// rectangles one unit deep on either side of the side
					for _, d := range []int64{-1, 1} {
						r0, r1 := p, exact.P{X: q.X + d*uy, Y: q.Y + d*ux}
						mn := exact.P{X: min(r0.X, r1.X), Y: min(r0.Y, r1.Y)}
						mx := exact.P{X: max(r0.X, r1.X), Y: max(r0.Y, r1.Y)}
						partners = append(partners, mkShp(&exact.Shape{Kind: exact.KRect, Min: mn, Max: mx}, nil))
					}
				}
			}
		}
	}
	return mkShp(&exact.Shape{Kind: exact.KPoly, Ext: lat.Close(dense)}, nil), partners
}

// c12IndexedZigzags: lines of 2^8 +- 2 (thorough: 2^16 +- 2) segments that all
// cross the midline of their rectangle, followed by a short tail in a corner,
// under the default options, a forced quadtree and a forced r-tree: the same
// line written in the opposite direction numbers its segments differently and
// must answer the same.
func c12ZigzagEval(n int, cfgName string, pi int) (bool, string, string) {
	ze := rootZigzag(n)
	last := ze.Line[len(ze.Line)-1]
	side := int64(1) // the tail stays on the side of the midline where the zigzag ends
	if last.Y < 0 {
		side = -1
	}
	for k := int64(1); k <= 44; k++ {
		ze.Line = append(ze.Line, exact.P{X: last.X + 2*k, Y: side * (6 + k%2)})
	}
	rev := &exact.Shape{Kind: exact.KLine, Line: reverse(ze.Line)}
	var partners []*exact.Shape
	for _, k := range []int{0, 1, 100, 255, 256, n / 2, n - 1, n, n + 20} {
		v := ze.Line[k]
		partners = append(partners, &exact.Shape{Kind: exact.KPoint, Pt: v}, &exact.Shape{Kind: exact.KPoint, Pt: exact.P{X: v.X + 1, Y: (v.Y + ze.Line[k+1].Y) / 2}},
			&exact.Shape{Kind: exact.KLine, Line: []exact.P{v, ze.Line[k+1]}},
			&exact.Shape{Kind: exact.KLine, Line: []exact.P{{X: v.X - 1, Y: v.Y}, {X: v.X + 1, Y: v.Y}}})
	}
	partners = append(partners, &exact.Shape{Kind: exact.KLine, Line: []exact.P{{X: -2, Y: 0}, {X: int64(2*n + 2), Y: 0}}})
	if pi < 0 || pi >= len(partners) {
		return false, "", ""
	}
	var o *geometry.IndexOptions
	for _, cf := range rootZigzagCfgs {
		if cf.name == cfgName {
			o = cf.o
		}
	}
	a, b, p := geomOf(ze, ident, o), geomOf(rev, ident, o), geomOf(partners[pi], ident, idxNone)
	fw := [4]bool{libContains(a, p), libContains(p, a), libIntersects(a, p), libIntersects(p, a)}
	bw := [4]bool{libContains(b, p), libContains(p, b), libIntersects(b, p), libIntersects(p, b)}
	return fw != bw, fmt.Sprint(fw), fmt.Sprint(bw)
}

func c12IndexedZigzags(r *rt.Run) {
	sizes := []int{254, 255, 256, 257, 258}
	if r.Thorough() {
		sizes = append(sizes, 65534, 65535, 65536, 65537, 65538)
	}
	r.Bounds["indexed_zigzag_segments"] = sizes
	r.ParFor(len(sizes)*len(rootZigzagCfgs), func(i int, w *rt.Worker) {
		n, cf := sizes[i/len(rootZigzagCfgs)], rootZigzagCfgs[i%len(rootZigzagCfgs)]
		w.States += 2
		w.Trans += int64(2 * n)
		for pi := 0; pi < 37; pi++ {
			w.Evals += 8
			w.Nontriv++
			if bad, exp, got := c12ZigzagEval(n, cf.name, pi); bad {
				pi := pi
				w.Fail("direction-dependence-indexed", func() (rt.Case, string, string) {
					return rt.Case{Kind: "zigzag12", Op: "reversed", Nums: []float64{float64(n), float64(pi)}, Cfg: cf.name}, exp, got
				})
			}
		}
	})
}

func evalC12(c *rt.Case) (bool, string, string, error) {
	if c.Kind == "zigzag12" {
		if len(c.Nums) != 2 || c.Nums[0] < 2 || c.Nums[0] > 1<<20 {
			return false, "", "", fmt.Errorf("malformed case")
		}
		bad, exp, got := c12ZigzagEval(int(c.Nums[0]), c.Cfg, int(c.Nums[1]))
		return bad, exp, got, nil
	}
	if c.Kind == "shared-ring" {
		return evalSharedRing(c)
	}
	if c.Kind == "foreign-ring" {
		return evalForeignRing(c)
	}
	if c.Kind != "pair" || c.X["move"] == "" {
		return false, "", "", fmt.Errorf("not mine")
	}
	var dx, dy float64
	if _, err := fmt.Sscanf(c.X["move"], "%g,%g", &dx, &dy); err != nil {
		return false, "", "", err
	}
	ea, ok1 := exactOf(c.A, ident)
	eb, ok2 := exactOf(c.B, ident)
	if !ok1 || !ok2 {
		return false, "", "", fmt.Errorf("coordinates outside the exact domain")
	}
	ga, gb := moveGeom(geomOf(ea, ident, moveSrcIdx(dx)), dx, dy), moveGeom(geomOf(eb, ident, moveSrcIdx(dx)), dx, dy)
	switch c.Op {
	case "intersects":
		want, got := exact.Intersects(ea, eb), libIntersects(ga, gb)
		return got != want, fmt.Sprint(want), fmt.Sprint(got), nil
	case "contains":
		want, got := exact.Contains(ea, eb), libContains(ga, gb)
		return got != want, fmt.Sprint(want), fmt.Sprint(got), nil
	}
	return false, "", "", fmt.Errorf("unknown op")
}
