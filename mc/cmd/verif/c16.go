package main

import (
	"fmt"
	"os"
	"os/exec"
	"path/filepath"
	"strings"
	"time"

	"github.com/tidwall/geojson"
	"github.com/tidwall/geojson/geometry"
	"verif/mc/rt"
)

// C16 — objects are immutable: concurrent queries are race-free and deterministic.
//
// (1) Systematic part: the instrumented build (scheduling point at every
// function entry, loop iteration and shimmed sync operation of the library)
// runs 2-3 harness threads under a cooperative scheduler; a stateless DFS
// enumerates every schedule up to a preemption bound; every call must return
// what it returns when run alone.
// (2) Free-running part: the same scenario bodies, uninstrumented, under the
// race detector with real goroutines (the cooperative scheduler's hand-offs
// are happens-before edges and would hide races).

func init() { register("C16", runC16, evalC16) }

// ---------------------------------------------------------------------------
// scenario alphabet (shared by the explorer, the race pass and replay)

// c16Pool builds every shared object afresh.
func c16Pool() []geojson.Object { return c16PoolOnly(nil) }

// c16Fresh rebuilds only the objects a scenario touches (fresh objects for
// every execution: a lazily built cache must not survive from the previous
// schedule, or later schedules would never see it being built).
func c16Fresh(sc c16Scenario) []geojson.Object {
	need := map[int]bool{}
	for _, c := range sc.Calls {
		need[c.Recv] = true
		if c.Arg >= 0 {
			need[c.Arg] = true
		}
	}
	return c16PoolOnly(need)
}

func c16PoolOnly(need map[int]bool) []geojson.Object {
	P := func(x, y float64) geometry.Point { return geometry.Point{X: x, Y: y} }
	must := func(s string, o *geojson.ParseOptions) geojson.Object {
		obj, err := geojson.Parse(s, o)
		if err != nil {
			panic(err)
		}
		return obj
	}
	var longLine []geometry.Point
	for i := 0; i < 24; i++ {
		longLine = append(longLine, P(float64(i%6)*0.4-1, float64(i/6)*0.5-1))
	}
	concave := []geometry.Point{P(-1, -1), P(1, -1), P(0, 0), P(1, 1), P(-1, 1), P(-1, -1)}
	idx1 := &geojson.ParseOptions{IndexChildren: 1, IndexGeometry: 1, IndexGeometryKind: geometry.QuadTree}
	noidx := &geojson.ParseOptions{IndexChildren: 0, IndexGeometry: 0, IndexGeometryKind: geometry.None}
	holed := `{"type":"Polygon","coordinates":[[[-2,-2],[2,-2],[2,2],[-2,2],[-2,-2]],[[0,0],[1,0],[1,1],[0,0]]]}`
	ctors := []func() geojson.Object{
		func() geojson.Object { return geojson.NewPoint(P(0.5, 0.25)) },
		func() geojson.Object { return geojson.NewSimplePoint(P(0, 0)) },
		func() geojson.Object {
			return geojson.NewLineString(geometry.NewLine([]geometry.Point{P(-1, -1), P(0, 0), P(1, 0)}, nil))
		},
		func() geojson.Object {
			return geojson.NewLineString(geometry.NewLine(longLine, &geometry.IndexOptions{Kind: geometry.RTree, MinPoints: 1}))
		},
		func() geojson.Object {
			return geojson.NewPolygon(geometry.NewPoly(concave, nil, &geometry.IndexOptions{Kind: geometry.None}))
		},
		func() geojson.Object { return must(holed, idx1) },
		func() geojson.Object { return geojson.NewRect(geometry.Rect{Min: P(-0.5, -0.5), Max: P(0.75, 0.5)}) },
		func() geojson.Object { return geojson.NewCircle(P(0, 0), 80000, 12) },
		func() geojson.Object {
			return must(`{"type":"MultiPoint","coordinates":[[0,0],[1,1],[0.5,0.25]]}`, idx1)
		},
		func() geojson.Object {
			return must(`{"type":"MultiPolygon","coordinates":[[[[-1,-1],[0,-1],[0,0],[-1,-1]]],[[[0,0],[1,0],[1,1],[0,0]]]]}`, noidx)
		},
		func() geojson.Object {
			return must(`{"type":"GeometryCollection","geometries":[{"type":"Point","coordinates":[0,0]},{"type":"LineString","coordinates":[[-1,1],[1,1]]}]}`, noidx)
		},
		func() geojson.Object {
			return must(`{"type":"FeatureCollection","features":[{"type":"Feature","geometry":{"type":"Point","coordinates":[1,1]},"properties":{}},{"type":"Feature","geometry":`+holed+`,"id":2}]}`, idx1)
		},
		func() geojson.Object {
			return geojson.NewFeature(geojson.NewPolygon(geometry.NewPoly(concave, nil, nil)), `{"id":"f"}`)
		},
		func() geojson.Object {
			return geojson.NewPolygon(must(holed, idx1).(*geojson.Polygon).Base().Move(0.5, 0.5))
		},
		func() geojson.Object { return geojson.NewCircle(P(20, -30), 50000, 9) },
		// objects past the default thresholds (64): a polygon with 70 holes, a
		// collection of 70 features, a line of 100 positions
		func() geojson.Object { return must(c16ManyHoles, nil) },
		func() geojson.Object { return must(c16ManyFeatures, nil) },
		func() geojson.Object { return must(c16LongLine, nil) },
		func() geojson.Object { return geojson.NewPoint(P(8.5, 6.5)) }, // inside a hole of #15, on a feature of #16
	}
	out := make([]geojson.Object, len(ctors))
	for i, c := range ctors {
		if need == nil || need[i] {
			out[i] = c()
		}
	}
	return out
}

var c16ManyHoles, c16ManyFeatures, c16LongLine = func() (string, string, string) {
	var holes, feats, pts []string
	for i := 0; i < 70; i++ {
		x, y := float64(2+(i%10)*9), float64(2+(i/10)*9)
		holes = append(holes, fmt.Sprintf("[[%g,%g],[%g,%g],[%g,%g],[%g,%g],[%g,%g]]", x, y, x+5, y, x+5, y+5, x, y+5, x, y))
		feats = append(feats, fmt.Sprintf(`{"type":"Feature","geometry":{"type":"Point","coordinates":[%g,%g]},"properties":{"i":%d}}`, x+2.5, y+2.5, i))
	}
	for i := 0; i < 100; i++ {
		pts = append(pts, fmt.Sprintf("[%g,%g]", float64(i%10)*9.5, float64(i/10)*7+float64(i%2)))
	}
	return `{"type":"Polygon","coordinates":[[[0,0],[100,0],[100,70],[0,70],[0,0]],` + strings.Join(holes, ",") + `]}`,
		`{"type":"FeatureCollection","features":[` + strings.Join(feats, ",") + `]}`,
		`{"type":"LineString","coordinates":[` + strings.Join(pts, ",") + `]}`
}()

type c16Call struct {
	Method   string
	Recv     int
	Arg      int // -1 for unary
	touchesG bool
}

func (c c16Call) String() string {
	if c.Arg < 0 {
		return fmt.Sprintf("%s(#%d)", c.Method, c.Recv)
	}
	return fmt.Sprintf("#%d.%s(#%d)", c.Recv, c.Method, c.Arg)
}

func (c c16Call) run(pool []geojson.Object) string {
	spec := callByName(c.Method)
	var arg geojson.Object
	if c.Arg >= 0 {
		arg = pool[c.Arg]
	}
	return spec.fn(pool[c.Recv], arg)
}

var c16Unary = []string{"JSON", "Rect", "ForEach", "Abandoned", "Reentrant", "AllMethods", "Spatial.Within*", "Collection", "BaseSeries", "Circle", "Center", "NumPoints", "Spatial.Intersects*", "Valid"}
var c16Binary = []string{"Contains", "Within", "Intersects", "Distance"}
var c16Args = []int{4, 7, 11, 0, 5, 10}

// receivers 15..17 are the big objects: they take part with cheap calls only
// (point arguments), since every library step is a scheduling point
var c16BigArgs = []int{18}

func c16Calls(npool int, thorough bool) []c16Call {
	un, ar := c16Unary[:10], c16Args[:3]
	if thorough {
		un, ar = c16Unary, c16Args
	}
	var out []c16Call
	for r := 0; r < npool; r++ {
		for _, m := range un {
			if m == "AllMethods" && !(r == 0 || r == 5 || r == 7 || r == 11 || r == 12) {
				continue // one object of each family of types: point, indexed polygon, circle, collection, feature
			}
			if r >= 15 && !(m == "Collection" && r == 16) && !(m == "Rect" && r <= 17) {
				continue // big objects: only cheap unary calls
			}
			if ((m == "Abandoned" || m == "Reentrant") && (r < 8 || r > 11)) || (m == "Collection" && ((r < 8 || r > 11) && r != 16)) || (m == "Circle" && r != 7 && r != 14) || (m == "BaseSeries" && !(r >= 2 && r <= 5 || r == 13)) {
				continue // method does nothing on this kind
			}
			out = append(out, c16Call{Method: m, Recv: r, Arg: -1})
		}
		if r >= 15 {
			if r <= 17 {
				for _, m := range []string{"Contains", "Intersects"} {
					for _, a := range c16BigArgs {
						out = append(out, c16Call{Method: m, Recv: r, Arg: a})
					}
				}
				out = append(out, c16Call{Method: "Within", Recv: 18, Arg: r})
			}
			continue
		}
		for _, m := range c16Binary {
			for _, a := range ar {
				out = append(out, c16Call{Method: m, Recv: r, Arg: a})
			}
		}
	}
	return out
}

func collide(a, b c16Call) bool {
	return a.Recv == b.Recv || a.Recv == b.Arg || a.Arg == b.Recv || (a.Arg >= 0 && a.Arg == b.Arg)
}

type c16Scenario struct {
	Calls []c16Call
}

func (s c16Scenario) ops() []string {
	var o []string
	for _, c := range s.Calls {
		o = append(o, c.String())
	}
	return o
}

// c16Scenarios: every unordered pair of colliding calls; thorough adds
// triples around each shared receiver.
func c16Scenarios(thorough bool) []c16Scenario {
	calls := c16Calls(len(c16Pool()), thorough)
	var out []c16Scenario
	for i := range calls {
		for j := i; j < len(calls); j++ {
			if collide(calls[i], calls[j]) {
				out = append(out, c16Scenario{[]c16Call{calls[i], calls[j]}})
			}
		}
	}
	// the same method on two different receivers (and one binary method with a
	// fixed argument): collides only through package-level state, e.g. a
	// scratch buffer or cache hoisted to package scope
	seen := map[string]bool{}
	for _, sc := range out {
		seen[strings.Join(sc.ops(), "|")] = true
	}
	for i := range calls {
		for j := i + 1; j < len(calls); j++ {
			a, b := calls[i], calls[j]
			if a.Method == b.Method && a.Recv != b.Recv && (a.Arg < 0 || (a.Arg == b.Arg && a.Arg == c16Args[0])) {
				sc := c16Scenario{[]c16Call{a, b}}
				if k := strings.Join(sc.ops(), "|"); !seen[k] {
					seen[k] = true
					out = append(out, sc)
				}
			}
		}
	}
	if thorough {
		// three threads: for every receiver, every triple out of a fixed short list of its calls
		for r := 0; r < len(c16Pool()); r++ {
			l := []c16Call{{Method: "JSON", Recv: r, Arg: -1}, {Method: "Contains", Recv: r, Arg: 5}, {Method: "Intersects", Recv: 11, Arg: r}, {Method: "Spatial.Within*", Recv: r, Arg: -1}, {Method: "Within", Recv: r, Arg: 4}}
			for a := 0; a < len(l); a++ {
				for b := a; b < len(l); b++ {
					for c := b; c < len(l); c++ {
						out = append(out, c16Scenario{[]c16Call{l[a], l[b], l[c]}})
					}
				}
			}
		}
	}
	return out
}

func runC16(r *rt.Run) {
	r.Rule = "scenarios = every pair of colliding calls (same receiver, receiver of one is the argument of the other, shared argument) out of the call alphabet (unary: JSON, Rect, ForEach, Spatial.Within*, Collection search, series accessors, Circle polygon ...; binary: Contains/Within/Intersects/Distance x argument objects) x 14 shared objects of all kinds (with and without geometry / child index, a Circle, a moved polygon), thorough adds the larger alphabet and 3-thread scenarios; for each scenario every schedule with <= k preemptions, k = 0, 1 always and 2 (thorough 3) when the product of the two calls' scheduling-point counts is within the budget (scheduling points at every instrumented function entry / loop iteration / sync operation); each call's result compared with its solo result; then every scenario free-running under the race detector, followed by a storm of 16 goroutines over 1,280 distinct fresh objects (1,024 circles, 256 indexed lines) whose answers must be the run-alone ones; non-trivial = schedule with at least one preemption"
	r.Assume = []string{"interleaving granularity: instrumented program points (word-level reorderings are left to the race detector pass)", "third-party dependencies are not instrumented"}
	scratch, bin, err := instrBuild(r)
	if scratch != "" {
		defer os.RemoveAll(scratch)
	}
	if err != nil {
		r.HarnessError("instrumented build failed: " + err.Error())
		return
	}
	sc := c16Scenarios(r.Thorough())
	r.Bounds["scenarios"] = len(sc)
	r.Bounds["pool_objects"] = len(c16Pool())
	runWorkers(r, bin, "c16worker", 600*time.Second)
	// free-running race pass
	raceBin := filepath.Join(scratch, "verif-race")
	cmd := exec.Command("go", rt.GoBuild("-race", "-o", raceBin, "./cmd/verif")...)
	cmd.Dir = filepath.Join(rt.Root, "mc")
	if out, err := cmd.CombinedOutput(); err != nil {
		r.HarnessError("race build failed: " + err.Error() + "\n" + string(out))
		return
	}
	rc := exec.Command(raceBin, "c16race")
	rc.Env = append(os.Environ(), "VERIF_TIER="+r.Tier, "GORACE=halt_on_error=1 exitcode=66")
	out, err := rc.CombinedOutput()
	so := string(out)
	var rounds, scen int64
	for _, l := range strings.Split(so, "\n") {
		if strings.HasPrefix(l, "RACEPASS ") {
			fmt.Sscanf(l, "RACEPASS %d %d", &scen, &rounds)
		}
	}
	r.Extra["race_pass"] = map[string]any{"scenarios": scen, "rounds_per_scenario": rounds, "detector": "go build -race, real goroutines released from a barrier"}
	r.Evals.Add(scen * rounds)
	if err != nil {
		last := ""
		for _, l := range strings.Split(so, "\n") {
			if strings.HasPrefix(l, "SCENARIO ") {
				last = strings.TrimPrefix(l, "SCENARIO ")
			}
		}
		what := "race detector / crash: " + err.Error()
		class := "data-race"
		if i := strings.Index(so, "WARNING: DATA RACE"); i >= 0 {
			end := i + 1500
			if end > len(so) {
				end = len(so)
			}
			what = so[i:end]
		} else if i := strings.Index(so, "MISMATCH"); i >= 0 {
			what = so[i:min(len(so), i+400)]
			class = "free-running-result-differs"
		}
		r.Fail(class, func() (rt.Case, string, string) {
			return rt.Case{Kind: "schedule", Op: "race", Ops: strings.Split(last, " || ")}, "no data race and solo results under free-running goroutines", what
		})
	}
	r.Sample(rt.Case{Kind: "schedule", Op: "interleave", Ops: []string{"#5.Contains(#4)", "JSON(#5)"}, X: map[string]string{"choices": "0,0,0,1,0,0,1"}})
}

func evalC16(c *rt.Case) (bool, string, string, error) {
	if c.Kind != "schedule" {
		return false, "", "", fmt.Errorf("not mine")
	}
	return false, "", "", fmt.Errorf("a schedule is replayed by the instrumented build: ./run.sh C16 quick re-explores it deterministically (choices %s)", c.X["choices"])
}
