package main

import (
	"fmt"

	"github.com/tidwall/geojson"
	"github.com/tidwall/geojson/geometry"
	"verif/mc/exact"
	"verif/mc/lat"
	"verif/mc/rt"
)

// Types implemented outside the library: geometry.Series and geojson.Object
// are interfaces, and callers do hand their own implementations in (a ring
// backed by their own storage, an object wrapped together with an id).

// sliceRing is the plainest possible geometry.Series: a slice of positions,
// closed (an implicit closing segment when the last position differs from
// the first), no index, attributes computed on demand from the definition.
type sliceRing struct{ pts []geometry.Point }

func (r sliceRing) closedExtra() bool {
	n := len(r.pts)
	return n >= 2 && r.pts[n-1] != r.pts[0]
}
func (r sliceRing) NumPoints() int { return len(r.pts) }
func (r sliceRing) NumSegments() int {
	n := len(r.pts)
	if n < 3 {
		return 0
	}
	if r.closedExtra() {
		return n
	}
	return n - 1
}
func (r sliceRing) PointAt(i int) geometry.Point { return r.pts[i] }
func (r sliceRing) SegmentAt(i int) geometry.Segment {
	return geometry.Segment{A: r.pts[i], B: r.pts[(i+1)%len(r.pts)]}
}
func (r sliceRing) Rect() geometry.Rect {
	if len(r.pts) == 0 {
		return geometry.Rect{}
	}
	rc := geometry.Rect{Min: r.pts[0], Max: r.pts[0]}
	for _, p := range r.pts[1:] {
		if p.X < rc.Min.X {
			rc.Min.X = p.X
		}
		if p.Y < rc.Min.Y {
			rc.Min.Y = p.Y
		}
		if p.X > rc.Max.X {
			rc.Max.X = p.X
		}
		if p.Y > rc.Max.Y {
			rc.Max.Y = p.Y
		}
	}
	return rc
}
func (r sliceRing) Empty() bool { return len(r.pts) < 3 }
func (r sliceRing) ref() geometry.Series {
	return geometry.NewPoly(append([]geometry.Point(nil), r.pts...), nil, idxNone).Exterior
}
func (r sliceRing) Convex() bool       { return r.ref().Convex() }
func (r sliceRing) Clockwise() bool    { return r.ref().Clockwise() }
func (r sliceRing) Index() interface{} { return nil }
func (r sliceRing) Valid() bool        { return r.ref().Valid() }
func (r sliceRing) Search(q geometry.Rect, iter func(seg geometry.Segment, index int) bool) {
	for i := 0; i < r.NumSegments(); i++ {
		s := r.SegmentAt(i)
		if s.Rect().IntersectsRect(q) {
			if !iter(s, i) {
				return
			}
		}
	}
}

// wrapped embeds a geojson.Object next to a tag, the way callers attach ids.
type wrapped struct {
	geojson.Object
	tag string
}

// foreignRings: every vertex sequence of length 3..depth over the 3x3
// lattice (closed by repetition or not, every start vertex comes with the
// enumeration) as the exterior of a Poly three ways — NewPoly, a sliceRing,
// a closed *geometry.Line used as ring — and, for the simple ones, as a hole
// of a square: all predicates against half-step probes and the ring's flags
// must agree with the NewPoly realisation.
func foreignRings(r *rt.Run, depth int) {
	L := lat.Lattice(3, -1)
	H := lat.Half(3, -1)
	_, pre := lat.Shards2(L)
	fh := ident.pts(H)
	outer := ident.pts([]exact.P{{X: -6, Y: -6}, {X: 6, Y: -6}, {X: 6, Y: 6}, {X: -6, Y: 6}, {X: -6, Y: -6}})
	answers := func(p *geometry.Poly) string { return foreignAnswers(p, fh) }
	r.ParFor(len(pre), func(i int, w *rt.Worker) {
		lat.SeqsFrom(L, pre[i], 3, depth, func(seq []exact.P) {
			fp := ident.pts(seq)
			ref := geometry.NewPoly(append([]geometry.Point(nil), fp...), nil, idxNone)
			want := answers(ref)
			cands := []struct {
				name string
				p    *geometry.Poly
			}{
				{"slice-ring", &geometry.Poly{Exterior: sliceRing{fp}}},
			}
			if fp[0] == fp[len(fp)-1] {
				cands = append(cands, struct {
					name string
					p    *geometry.Poly
				}{"line-as-ring", &geometry.Poly{Exterior: geometry.NewLine(fp, idxNone)}})
			}
			w.States++
			for _, c := range cands {
				w.Evals++
				w.Nontriv++
				if got := answers(c.p); got != want {
					name := c.name
					w.Fail("foreign-ring-"+name, func() (rt.Case, string, string) {
						return rt.Case{Kind: "foreign-ring", Op: name, A: &rt.G{K: "ring", P: f2(fp)}}, trunc(want), trunc(got)
					})
				}
			}
			// as a hole of a square (simple rings only: hole semantics for degenerate rings are C01's business)
			if exact.Simple(seq) {
				refH := geometry.NewPoly(outer, [][]geometry.Point{fp}, idxNone)
				hp := geometry.NewPoly(outer, nil, idxNone)
				hp.Holes = []geometry.Ring{sliceRing{fp}}
				w.Evals++
				if got, want := answers(hp), answers(refH); got != want {
					w.Fail("foreign-ring-hole", func() (rt.Case, string, string) {
						return rt.Case{Kind: "foreign-ring", Op: "hole", A: &rt.G{K: "ring", P: f2(fp)}}, trunc(want), trunc(got)
					})
				}
			}
		})
	})
}

func evalForeignRing(c *rt.Case) (bool, string, string, error) {
	fp := g2(c.A.P)
	fh := ident.pts(lat.Half(3, -1))
	outer := ident.pts([]exact.P{{X: -6, Y: -6}, {X: 6, Y: -6}, {X: 6, Y: 6}, {X: -6, Y: 6}, {X: -6, Y: -6}})
	ref := geometry.NewPoly(append([]geometry.Point(nil), fp...), nil, idxNone)
	var got, want string
	switch c.Op {
	case "slice-ring":
		got, want = foreignAnswers(&geometry.Poly{Exterior: sliceRing{fp}}, fh), foreignAnswers(ref, fh)
	case "line-as-ring":
		got, want = foreignAnswers(&geometry.Poly{Exterior: geometry.NewLine(fp, idxNone)}, fh), foreignAnswers(ref, fh)
	case "hole":
		hp := geometry.NewPoly(outer, nil, idxNone)
		hp.Holes = []geometry.Ring{sliceRing{fp}}
		got, want = foreignAnswers(hp, fh), foreignAnswers(geometry.NewPoly(outer, [][]geometry.Point{fp}, idxNone), fh)
	default:
		return false, "", "", fmt.Errorf("unknown op")
	}
	return got != want, trunc(want), trunc(got), nil
}

func foreignAnswers(p *geometry.Poly, fh []geometry.Point) string {
	out := make([]byte, 0, 6*len(fh)+2)
	b := func(v bool) byte {
		if v {
			return '1'
		}
		return '0'
	}
	for i, pt := range fh {
		q := fh[(i*7+3)%len(fh)]
		l := geometry.NewLine([]geometry.Point{pt, q}, idxNone)
		rc := geometry.Rect{Min: geometry.Point{X: min(pt.X, q.X), Y: min(pt.Y, q.Y)}, Max: geometry.Point{X: max(pt.X, q.X), Y: max(pt.Y, q.Y)}}
		out = append(out, b(p.ContainsPoint(pt)), b(p.IntersectsPoint(pt)), b(p.ContainsLine(l)), b(p.IntersectsLine(l)), b(p.ContainsRect(rc)), b(p.IntersectsRect(rc)))
	}
	return string(out) + fmt.Sprint(p.Clockwise(), p.Exterior.Convex(), p.Rect(), p.Empty())
}
