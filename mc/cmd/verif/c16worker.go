//go:build verifinstr

package main

import (
	"fmt"
	"os"
	"strconv"
	"strings"
	"time"

	"github.com/tidwall/geojson"
	verifrt "github.com/tidwall/geojson/verifrt"
	"verif/mc/rt"
)

func init() { subcommands["c16worker"] = c16Worker }

type spoint struct {
	n       int8
	chosen  int8
	running bool // the running thread was still enabled (a switch is a preemption)
	site    int32
}

type sthread struct {
	resume chan struct{}
	done   bool
	out    string
	pan    string
}

type sched struct {
	threads []*sthread
	cur     int
	prefix  []int8
	parent  []spoint // points of the execution the prefix came from (divergence check)
	points  []spoint
	allDone chan struct{}
	diverge string
	steps   int
}

type abortExec struct{}

func (s *sched) enabled(cur int, curEnabled bool) []int {
	var en []int
	if curEnabled {
		en = append(en, cur)
	}
	for i, t := range s.threads {
		if i != cur && !t.done {
			en = append(en, i)
		}
	}
	return en
}

func (s *sched) choose(n int, running bool, site int) int {
	c := 0
	i := len(s.points)
	if i < len(s.prefix) {
		c = int(s.prefix[i])
		if c >= n {
			s.diverge = fmt.Sprintf("choice %d out of range %d at point %d", c, n, i)
			c = 0
		}
		if i < len(s.parent) && (int(s.parent[i].n) != n || int(s.parent[i].site) != site) {
			s.diverge = fmt.Sprintf("point %d differs on replay: n=%d site=%d vs n=%d site=%d", i, n, site, s.parent[i].n, s.parent[i].site)
		}
	}
	s.points = append(s.points, spoint{int8(n), int8(c), running, int32(site)})
	return c
}

func (s *sched) hook(site int) {
	s.steps++
	if s.steps > 2_000_000 {
		panic(abortExec{})
	}
	en := s.enabled(s.cur, true)
	if len(en) <= 1 {
		return
	}
	c := s.choose(len(en), true, site)
	if c != 0 {
		prev := s.cur
		s.cur = en[c]
		s.threads[en[c]].resume <- struct{}{}
		<-s.threads[prev].resume
	}
}

// next is called when the running thread has finished (or at the start).
func (s *sched) next(from int) {
	en := s.enabled(from, false)
	if len(en) == 0 {
		s.allDone <- struct{}{}
		return
	}
	c := 0
	if len(en) > 1 {
		c = s.choose(len(en), false, -9)
	}
	s.cur = en[c]
	s.threads[en[c]].resume <- struct{}{}
}

type execResult struct {
	outs    []string
	pans    []string
	points  []spoint
	diverge string
	hung    bool
}

func runSchedule(_ []geojson.Object, sc c16Scenario, prefix []int8, parent []spoint) execResult {
	pool := c16Fresh(sc) // fresh objects for every execution
	verifrt.Reset()      // and empty shim pools
	s := &sched{prefix: prefix, parent: parent, allDone: make(chan struct{}, 1)}
	for range sc.Calls {
		s.threads = append(s.threads, &sthread{resume: make(chan struct{})})
	}
	hung := false
	for i := range sc.Calls {
		i := i
		go func() {
			t := s.threads[i]
			<-t.resume
			defer func() {
				if r := recover(); r != nil {
					if _, ok := r.(abortExec); ok {
						hung = true
					} else {
						t.pan = fmt.Sprint(r)
					}
				}
				t.done = true
				s.next(i)
			}()
			t.out = sc.Calls[i].run(pool)
		}()
	}
	verifrt.Hook = s.hook
	verifrt.SchedOn = true
	s.next(-1)
	<-s.allDone
	verifrt.SchedOn = false
	res := execResult{points: s.points, diverge: s.diverge, hung: hung}
	for _, t := range s.threads {
		res.outs = append(res.outs, t.out)
		res.pans = append(res.pans, t.pan)
	}
	return res
}

func preemptionsBefore(pts []spoint, i int) int {
	n := 0
	for _, p := range pts[:i] {
		if p.running && p.chosen != 0 {
			n++
		}
	}
	return n
}

func choicesOf(pts []spoint, upto int) []int8 {
	out := make([]int8, upto)
	for i := 0; i < upto; i++ {
		out[i] = pts[i].chosen
	}
	return out
}

func c16Worker(args []string) {
	shard, _ := strconv.Atoi(args[0])
	n, _ := strconv.Atoi(args[1])
	o := &wout{w: bufioStdout(), slow: os.Getenv("VERIF_SLOW") != ""}
	thorough := os.Getenv("VERIF_TIER") == "thorough"
	scs := c16Scenarios(thorough)
	// the bound is raised while the predicted number of schedules stays within
	// the budget: ~2(P1+P2) schedules with one preemption, ~2 P1 P2 with two
	budget := 400_000 // hard cap of executions per scenario and bound
	prod2, prod3 := 1_500, 0
	if thorough {
		prod2, prod3 = 30_000, 300
	}
	var maxPoints, maxPreempt, capped int
	lastBeat := time.Now()
	for si, sc := range scs {
		if si%n != shard {
			continue
		}
		o.beat()
		mk := func(choices []int8) rt.Case {
			cs := make([]string, len(choices))
			for i, c := range choices {
				cs[i] = strconv.Itoa(int(c))
			}
			return rt.Case{Kind: "schedule", Op: "interleave", Ops: sc.ops(), X: map[string]string{"choices": strings.Join(cs, ",")}}
		}
		o.begin(func() rt.Case { return mk(nil) })
		var pool []geojson.Object
		// solo results on a fresh pool
		solo := make([]string, len(sc.Calls))
		for i, c := range sc.Calls {
			verifrt.Reset()
			solo[i] = c.run(c16Fresh(sc))
		}
		o.states++
		// scheduling points of each call when run alone
		prod := 1
		for _, c := range sc.Calls {
			np := 0
			pl := c16Fresh(sc)
			verifrt.Reset()
			verifrt.Hook = func(int) { np++ }
			verifrt.SchedOn = true
			c.run(pl)
			verifrt.SchedOn = false
			prod *= np + 1
		}
		maxBound := 1
		if prod <= prod2 || (len(sc.Calls) == 3 && prod <= prod2*20) {
			maxBound = 2
		}
		if prod <= prod3 {
			maxBound = 3
		}
		execs := 0
		completed := -1
		failed := false
		check := func(x execResult, choices []int8) {
			execs++
			if execs%1000 == 0 || time.Since(lastBeat) > 5*time.Second {
				// progress marker: the no-progress watchdog measures whether executions
				// complete (each is bounded by 2,000,000 scheduling points), not how
				// many fit into its window on a loaded machine
				o.beat()
				lastBeat = time.Now()
			}
			o.evals++
			o.trans += int64(len(x.points))
			if len(x.points) > maxPoints {
				maxPoints = len(x.points)
			}
			if x.diverge != "" {
				o.fail("harness-divergence", mk(choices), "deterministic replay of the prefix", x.diverge)
				failed = true
				return
			}
			if x.hung {
				o.fail("call-does-not-return", mk(choices), "every call returns", "execution aborted after 2,000,000 scheduling points")
				failed = true
				return
			}
			for i := range sc.Calls {
				if x.pans[i] != "" {
					o.fail("panic-under-interleaving", mk(choices), "no panic", fmt.Sprintf("call %s: %s", sc.Calls[i], x.pans[i]))
					failed = true
					return
				}
				if x.outs[i] != solo[i] {
					o.fail("result-differs-from-solo", mk(choices), fmt.Sprintf("%s = %.200s", sc.Calls[i], solo[i]), fmt.Sprintf("%.200s", x.outs[i]))
					failed = true
					return
				}
			}
		}
		for bound := 0; bound <= maxBound && !failed; bound++ {
			startExecs := execs
			over := false
			var explore func(prefix []int8, parent []spoint)
			explore = func(prefix []int8, parent []spoint) {
				if failed || over {
					return
				}
				x := runSchedule(pool, sc, prefix, parent)
				check(x, choicesOf(x.points, len(x.points)))
				if execs-startExecs > budget {
					over = true
					return
				}
				for i := len(prefix); i < len(x.points) && !failed && !over; i++ {
					p := x.points[i]
					cost := preemptionsBefore(x.points, i)
					if p.running {
						cost++
					}
					if cost > bound {
						continue
					}
					// only schedules with exactly `bound` preemptions are new at this level
					for alt := 1; alt < int(p.n); alt++ {
						np := append(choicesOf(x.points, i), int8(alt))
						explore(np, x.points)
					}
				}
			}
			explore(nil, nil)
			if over {
				capped++
				break
			}
			completed = bound
			if completed > maxPreempt {
				maxPreempt = completed
			}
			if bound >= 1 {
				o.nt += int64(execs - startExecs)
			}
		}
		// determinism of replay: run the default schedule twice more
		a, b := runSchedule(pool, sc, []int8{}, nil), runSchedule(pool, sc, []int8{}, nil)
		if fmt.Sprint(a.outs, len(a.points)) != fmt.Sprint(b.outs, len(b.points)) {
			o.fail("harness-nondeterminism", mk(nil), "same observations when one schedule is replayed twice", fmt.Sprint(len(a.points), len(b.points)))
		}
		fmt.Fprintf(o.w, "O bound-completed=%d\n", completed)
	}
	fmt.Fprintf(o.w, "O max-points-per-execution<=%d\n", (maxPoints/100+1)*100)
	fmt.Fprintf(o.w, "E %d %d %d %d %d\n", o.evals, o.states, o.trans, o.nt, int64(maxPoints))
	o.w.Flush()
	_ = capped
}
