package main

import (
	"fmt"
	"math"
	"strconv"
	"strings"

	"github.com/tidwall/geojson"
	"github.com/tidwall/geojson/geometry"
	"verif/mc/docgen"
	"verif/mc/refdoc"
	"verif/mc/rt"
)

// Shared machinery of the document properties C06, C07, C08, C17.

type optSet struct {
	Name string
	O    *geojson.ParseOptions
}

func mkOpts(ic, ig int, kind geometry.IndexKind, rv, sp, dc, ar bool) *geojson.ParseOptions {
	return &geojson.ParseOptions{IndexChildren: ic, IndexGeometry: ig, IndexGeometryKind: kind, RequireValid: rv, AllowSimplePoints: sp, DisableCircleType: dc, AllowRects: ar}
}

var (
	optDefault = optSet{"default", nil}
	optAlt     = optSet{"alt(idx1,rtree,simple,rects)", mkOpts(1, 1, geometry.RTree, false, true, false, true)}
	// the Circle convention switched off (with and without SimplePoint geometries)
	optNoCircle       = optSet{optName(mkOpts(64, 64, geometry.QuadTree, false, false, true, false)), mkOpts(64, 64, geometry.QuadTree, false, false, true, false)}
	optNoCircleSimple = optSet{optName(mkOpts(64, 64, geometry.QuadTree, false, true, true, false)), mkOpts(64, 64, geometry.QuadTree, false, true, true, false)}
)

func optByName(n string) *geojson.ParseOptions {
	if n == optAlt.Name {
		return optAlt.O
	}
	if strings.HasPrefix(n, "opts:") {
		var ic, ig, k int
		var rv, sp, dc, ar bool
		fmt.Sscanf(n, "opts:%d,%d,%d,%t,%t,%t,%t", &ic, &ig, &k, &rv, &sp, &dc, &ar)
		return mkOpts(ic, ig, geometry.IndexKind(k), rv, sp, dc, ar)
	}
	return nil
}

func optName(o *geojson.ParseOptions) string {
	if o == nil {
		return "default"
	}
	return fmt.Sprintf("opts:%d,%d,%d,%t,%t,%t,%t", o.IndexChildren, o.IndexGeometry, int(o.IndexGeometryKind), o.RequireValid, o.AllowSimplePoints, o.DisableCircleType, o.AllowRects)
}

func fbits(f float64) string {
	if math.IsNaN(f) {
		return "NaN"
	}
	if f == 0 && math.Signbit(f) {
		return "-0"
	}
	return strconv.FormatFloat(f, 'g', -1, 64)
}

// typeOf names the GeoJSON type an object stands for.
func typeOf(o geojson.Object) string {
	switch o.(type) {
	case *geojson.Point, *geojson.SimplePoint:
		return "Point"
	case *geojson.LineString:
		return "LineString"
	case *geojson.Polygon, *geojson.Rect:
		return "Polygon"
	case *geojson.MultiPoint:
		return "MultiPoint"
	case *geojson.MultiLineString:
		return "MultiLineString"
	case *geojson.MultiPolygon:
		return "MultiPolygon"
	case *geojson.GeometryCollection:
		return "GeometryCollection"
	case *geojson.Feature, *geojson.Circle:
		return "Feature"
	case *geojson.FeatureCollection:
		return "FeatureCollection"
	}
	return fmt.Sprintf("%T", o)
}

// xyOfObject renders type, nesting, child order and every x,y of a library
// object in the format of refdoc.Obj.XY.
func xyOfObject(o geojson.Object) string {
	var sb strings.Builder
	xyObj(&sb, o)
	return sb.String()
}

func xyPt(sb *strings.Builder, p geometry.Point) {
	sb.WriteString(fbits(p.X))
	sb.WriteByte(',')
	sb.WriteString(fbits(p.Y))
	sb.WriteByte(';')
}

func xySeries(sb *strings.Builder, s geometry.Series) {
	sb.WriteByte('[')
	for i := 0; i < s.NumPoints(); i++ {
		xyPt(sb, s.PointAt(i))
	}
	sb.WriteByte(']')
}

func xyObj(sb *strings.Builder, o geojson.Object) {
	if o == nil {
		sb.WriteString("<nil>")
		return
	}
	sb.WriteString(typeOf(o))
	sb.WriteByte('(')
	switch v := o.(type) {
	case *geojson.Point:
		xyPt(sb, v.Base())
	case *geojson.SimplePoint:
		xyPt(sb, v.Base())
	case *geojson.LineString:
		l := v.Base()
		for i := 0; i < l.NumPoints(); i++ {
			xyPt(sb, l.PointAt(i))
		}
	case *geojson.Polygon:
		p := v.Base()
		if p.Exterior != nil {
			xySeries(sb, p.Exterior)
			for _, h := range p.Holes {
				xySeries(sb, h)
			}
		}
	case *geojson.Rect:
		xySeries(sb, v.Base())
	case *geojson.Feature:
		xyObj(sb, v.Base())
	case *geojson.Circle:
		sb.WriteString("Point(")
		xyPt(sb, v.Center())
		sb.WriteByte(')')
	case geojson.Collection:
		for _, c := range v.Children() {
			xyObj(sb, c)
		}
	}
	sb.WriteByte(')')
}

// parseChecked calls Parse, converting a panic into an error string.
func parseChecked(text string, opts *geojson.ParseOptions) (o geojson.Object, err error, panicked string) {
	defer func() {
		if r := recover(); r != nil {
			panicked = fmt.Sprint(r)
		}
	}()
	o, err = geojson.Parse(text, opts)
	return
}

// c07One checks one text under one option set; emits at most one failure.
func c07One(text string, os optSet, emit func(class string, c rt.Case, exp, got string)) (refdoc.Verdict, *refdoc.Obj) {
	v, ref, why := refdoc.ClassifyOpts(text, os.O != nil && os.O.DisableCircleType)
	obj, err, pan := parseChecked(text, os.O)
	mk := func() rt.Case { return rt.Case{Kind: "doc", Op: "parse", Doc: text, Cfg: os.Name} }
	if pan != "" {
		emit("parse-panic", mk(), "no panic", pan)
		return v, ref
	}
	if (obj == nil) == (err == nil) {
		emit("parse-contract", mk(), "exactly one of (object, error)", fmt.Sprintf("obj=%v err=%v", obj, err))
		return v, ref
	}
	switch v {
	case refdoc.MustAccept:
		if err != nil {
			class := "must-accept-rejected-other"
			if growsDims(ref) {
				class = "must-accept-rejected-mixed-dims"
			}
			emit(class, mk(), "accepted", "error: "+err.Error())
		} else if got, want := xyOfObject(obj), ref.XY(); got != want {
			emit("decoded-differs", mk(), want, got)
		}
	case refdoc.MustReject:
		if err == nil {
			emit("must-reject-accepted", mk(), "rejected ("+why+")", "accepted as "+xyOfObject(obj))
		}
	}
	return v, ref
}

func evalDoc(c *rt.Case) (bool, string, string, error) {
	if c.Kind != "doc" {
		return false, "", "", fmt.Errorf("not mine")
	}
	os := optSet{c.Cfg, optByName(c.Cfg)}
	if strings.HasPrefix(c.Doc, "overflow#") {
		var i int
		fmt.Sscanf(c.Doc, "overflow#%d", &i)
		if docs := overflowDocs(); i >= 0 && i < len(docs) {
			cc := *c
			cc.Doc = docs[i]
			c = &cc
		}
	}
	if strings.HasPrefix(c.Doc, "large#") {
		var i, v int
		fmt.Sscanf(c.Doc, "large#%d/variant%d", &i, &v)
		large := append(docgen.LargeDocs(), docgen.ExtraDocs()...)
		if i >= len(large) {
			return false, "", "", fmt.Errorf("no such large document")
		}
		cc := *c
		cc.Doc = [](func(string) string){func(s string) string { return s }, func(s string) string { return s[:len(s)-1] }, func(s string) string { return s + "x" }, func(s string) string { return " \n" + s + "\t " }}[v](large[i])
		c = &cc
	}
	var fails bool
	var e, g string
	emit := func(class string, _ rt.Case, exp, got string) { fails, e, g = true, exp, got }
	switch c.Op {
	case "parse":
		c07One(c.Doc, os, emit)
	case "roundtrip":
		c06One(c.Doc, os, emit)
	case "options":
		var extra any
		if c.X["probes"] == "circles" {
			extra = circleProbes
		}
		if t, ok := strings.CutPrefix(c.X["probes"], "track:"); ok {
			tr, ok := parseTrack(t)
			if !ok {
				return false, "", "", fmt.Errorf("bad track")
			}
			extra = tr.probes()
		}
		if c.X["probes"] == "bbox" {
			extra = bboxProbes
		}
		c08One(c.Doc, optSet{c.X["base"], optByName(c.X["base"])}, os, extra, emit)
	default:
		return false, "", "", fmt.Errorf("unknown doc op")
	}
	return fails, e, g, nil
}

// neighbourhood enumerates seed and every document within k deviations.
func neighbourhood(seed string, k int, fn func(text string, dev int)) (n int64) {
	base := docgen.T(seed)
	seen := map[uint64]bool{}
	visit := func(d docgen.Doc, dev int) bool {
		t := d.Text()
		h := docgen.Hash(t)
		if seen[h] {
			return false
		}
		seen[h] = true
		n++
		fn(t, dev)
		return true
	}
	visit(base, 0)
	if k < 1 {
		return
	}
	var level1 []docgen.Doc
	docgen.Deviations1(base, func(d docgen.Doc) {
		if visit(d, 1) && k >= 2 {
			level1 = append(level1, append(docgen.Doc(nil), d...))
		}
	})
	for _, d1 := range level1 {
		docgen.Deviations1(d1, func(d docgen.Doc) { visit(d, 2) })
	}
	return
}

// growsDims: inside one coordinates member a later position has more
// ordinates (3 or 4) than the first one had (2) -- the configuration the
// library rejects on purpose.
func growsDims(o *refdoc.Obj) bool {
	if o == nil {
		return false
	}
	check := func(ps []refdoc.Pos, first *int) bool {
		for _, p := range ps {
			n := min(p.N, 4)
			if *first == 0 {
				*first = n
			} else if *first == 2 && n > 2 {
				return true
			}
		}
		return false
	}
	f := 0
	if o.Type != "Point" && check(o.Pts, &f) {
		return true
	}
	for _, r := range o.Rings {
		if check(r, &f) {
			return true
		}
	}
	for _, c := range o.Children {
		if growsDims(c) {
			return true
		}
	}
	return false
}
