package main

import (
	"fmt"
	"math"
	"math/big"

	"github.com/tidwall/geojson/geometry"
	"verif/mc/exact"
	"verif/mc/lat"
	"verif/mc/rt"
)

// Near-parallel long directions. A pair of directions d1 = M*(P,Q)+e1,
// d2 = M*(P,Q)+e2 with e1, e2 over a 5x5 lattice has cross product
// M*cross((P,Q), e2-e1) + cross(e1, e2): when e2-e1 is parallel to (P,Q) the
// two directions differ by a cross product of a few units although both are
// M long -- the configurations in which a tolerance, an error-bound filter or
// a reformulated determinant decides differently from the exact sign.
// The family is the full product of the small alphabets below.
var nearParBases = [][2]int64{{1, 0}, {0, 1}, {1, 1}, {1, -1}, {2, 1}, {-1, 2}, {3, 2}, {-2, 3}, {5, 3}, {-3, -5}, {7, 4}, {-4, 7}}

func nearParScales(limit int64, thorough bool) []int64 {
	var ms []int64
	ks := []uint{2, 6, 10, 14, 17, 19, 21, 23, 24, 25, 26}
	for _, k := range ks {
		for _, m := range []int64{1<<k - 1, 1 << k, 1<<k + 1<<(k-1) + 1} {
			if m <= limit {
				ms = append(ms, m)
			}
		}
	}
	_ = thorough
	return ms
}

type dirPair struct{ d1, d2 exact.P }

// nearParDirs calls fn for every direction pair of the family whose
// components stay below limit.
func nearParDirs(limit int64, thorough bool, fn func(base int, m int64, d1, d2 exact.P)) {
	for bi, b := range nearParBases {
		for _, m := range nearParScales(limit, thorough) {
			if abs64i(b[0])*m+2 > limit || abs64i(b[1])*m+2 > limit {
				continue
			}
			for e1x := int64(-2); e1x <= 2; e1x++ {
				for e1y := int64(-2); e1y <= 2; e1y++ {
					for e2x := int64(-2); e2x <= 2; e2x++ {
						for e2y := int64(-2); e2y <= 2; e2y++ {
							d1 := exact.P{X: b[0]*m + e1x, Y: b[1]*m + e1y}
							d2 := exact.P{X: b[0]*m + e2x, Y: b[1]*m + e2y}
							fn(bi, m, d1, d2)
						}
					}
				}
			}
		}
	}
}

// diffsWithin: every coordinate difference among the points is at most lim.
func diffsWithin(lim int64, ps ...exact.P) bool {
	for i := range ps {
		for j := i + 1; j < len(ps); j++ {
			if abs64i(ps[i].X-ps[j].X) > lim || abs64i(ps[i].Y-ps[j].Y) > lim {
				return false
			}
		}
	}
	return true
}

func in20(p exact.P) bool       { return abs64i(p.X) <= 1<<20 && abs64i(p.Y) <= 1<<20 }
func padd(a, b exact.P) exact.P { return exact.P{X: a.X + b.X, Y: a.Y + b.Y} }
func psub(a, b exact.P) exact.P { return exact.P{X: a.X - b.X, Y: a.Y - b.Y} }

// c19NearParallel: for every direction pair, the two segments through a
// common centre (crossing), one ending at / next to the middle of the other,
// and one starting at / next to the end of the other; every offset of the
// second segment in [-1,1]^2; integer coordinates of magnitude <= 2^20, both
// operand orders, plus ContainsSegment and the point kernels at the meeting
// point.
func c19NearParallel(r *rt.Run) {
	type job struct {
		bi     int
		m      int64
		d1, d2 exact.P
	}
	var jobs []job
	nearParDirs(1<<20-4, r.Thorough(), func(bi int, m int64, d1, d2 exact.P) { jobs = append(jobs, job{bi, m, d1, d2}) })
	nInt := len(jobs)
	// the same family on a grid of 1/64 (lengths above 2^20 lattice units only:
	// the shorter ones are power-of-two copies of the integer ones)
	nearParDirs(1<<26-4, r.Thorough(), func(bi int, m int64, d1, d2 exact.P) {
		if m > 1<<20 {
			jobs = append(jobs, job{bi, m, d1, d2})
		}
	})
	r.Bounds["near_parallel_direction_pairs"] = len(jobs)
	centres := []exact.P{{X: 0, Y: 0}, {X: 3, Y: -2}}
	r.ParFor(len(jobs), func(i int, w *rt.Worker) {
		jb := jobs[i]
		t := Xf{Scale: 1}
		lim := int64(1) << 20
		if i >= nInt {
			t = Xf{Scale: 1.0 / 64}
			lim = 1 << 26
		}
		in20 := func(p exact.P) bool { return abs64i(p.X) <= lim && abs64i(p.Y) <= lim }
		for _, c := range centres {
			a, b := psub(c, jb.d1), padd(c, jb.d1)
			fs := geometry.Segment{A: t.pt(a), B: t.pt(b)}
			for ox := int64(-1); ox <= 1; ox++ {
				for oy := int64(-1); oy <= 1; oy++ {
					o := padd(c, exact.P{X: ox, Y: oy})
					for cfg := 0; cfg < 4; cfg++ {
						var p, q exact.P
						a, b, fs := a, b, fs
						switch cfg {
						case 3:
							// one-sided first segment; the second starts next to its far end and runs back
							a, b = c, padd(c, jb.d1)
							fs = geometry.Segment{A: t.pt(a), B: t.pt(b)}
							p = padd(b, exact.P{X: ox, Y: oy})
							q = psub(p, jb.d2)
						case 0:
							p, q = psub(o, jb.d2), padd(o, jb.d2)
						case 1:
							p, q = o, padd(o, jb.d2)
						case 2:
							e := padd(b, exact.P{X: ox, Y: oy})
							p, q = e, psub(e, jb.d2)
						}
						if !in20(a) || !in20(b) || !in20(p) || !in20(q) {
							continue
						}
						if i >= nInt && !diffsWithin(1<<26, a, b, p, q) {
							continue // products of differences must stay exact in float64 (< 2^53)
						}
						fo := geometry.Segment{A: t.pt(p), B: t.pt(q)}
						want := exact.SegsIntersect(a, b, p, q)
						w.States++
						w.Evals += 2
						if exact.Orient(exact.P{}, jb.d1, jb.d2) != 0 && want {
							w.Nontriv++
						}
						g1, g2 := fs.IntersectsSegment(fo), fo.IntersectsSegment(fs)
						if g1 != want || g2 != want {
							w.Fail("intersects-near-parallel", func() (rt.Case, string, string) {
								return rt.Case{Kind: "seg-seg", Op: "intersects", A: segG(fs.A, fs.B), B: segG(fo.A, fo.B), X: t.x()}, fmt.Sprint(want), fmt.Sprintf("%v / swapped %v", g1, g2)
							})
						}
						if cfg == 0 && ox == 0 && oy == 0 {
							wc := exact.SegContainsSeg(a, b, p, q)
							w.Evals++
							if got := fs.ContainsSegment(fo); got != wc {
								w.Fail("contains-near-parallel", func() (rt.Case, string, string) {
									return rt.Case{Kind: "seg-seg", Op: "contains", A: segG(fs.A, fs.B), B: segG(fo.A, fo.B), X: t.x()}, fmt.Sprint(wc), fmt.Sprint(got)
								})
							}
						}
						// the point kernels at the second segment's first endpoint
						on := exact.OnSeg(p, a, b)
						in := !on && exact.RayCross(p.R(), a, b)
						fp := t.pt(p)
						w.Evals++
						if got := fs.CollinearPoint(fp); got != exact.Collinear(p, a, b) {
							w.Fail("collinear-near-parallel", func() (rt.Case, string, string) {
								return rt.Case{Kind: "seg-point", Op: "collinear", A: segG(fs.A, fs.B), B: ptG(fp), X: t.x()}, fmt.Sprint(!got), fmt.Sprint(got)
							})
						}
						if got := fs.ContainsPoint(fp); got != on {
							w.Fail("containspoint-near-parallel", func() (rt.Case, string, string) {
								return rt.Case{Kind: "seg-point", Op: "containspoint", A: segG(fs.A, fs.B), B: ptG(fp), X: t.x()}, fmt.Sprint(on), fmt.Sprint(got)
							})
						}
						if res := fs.Raycast(fp); res.On != on || res.In != in {
							w.Fail("raycast-near-parallel", func() (rt.Case, string, string) {
								return rt.Case{Kind: "seg-point", Op: "raycast", A: segG(fs.A, fs.B), B: ptG(fp), X: t.x()},
									fmt.Sprintf("on=%v in=%v", on, in), fmt.Sprintf("on=%v in=%v", res.On, res.In)
							})
						}
					}
				}
			}
		}
	})
}

// floatExactTurns reports whether the library's float evaluation of every
// turn determinant (and of the shoelace sum) of the cyclic sequence is exact:
// all products and partial sums stay below 2^53 in lattice units.
func floatExactTurns(seq []exact.P) (turns, shoelace bool) {
	const lim = int64(1) << 53
	n := len(seq)
	turns, shoelace = true, true
	var sum int64
	for i := 0; i < n; i++ {
		a, b, c := seq[i], seq[(i+1)%n], seq[(i+2)%n]
		p1, ok1 := mulLim(b.X-a.X, c.Y-b.Y, lim)
		p2, ok2 := mulLim(b.Y-a.Y, c.X-b.X, lim)
		if !ok1 || !ok2 || abs64i(p1-p2) >= lim {
			turns = false
		}
		p3, ok3 := mulLim(b.X-a.X, b.Y+a.Y, lim)
		if !ok3 {
			shoelace = false
		} else if shoelace {
			sum += p3
			if abs64i(sum) >= lim {
				shoelace = false
			}
		}
	}
	return
}

func mulLim(a, b, lim int64) (int64, bool) {
	if a == 0 || b == 0 {
		return 0, true
	}
	if abs64i(a) >= lim/abs64i(b)+1 {
		return 0, false
	}
	p := a * b
	return p, abs64i(p) < lim
}

// c18NearParallel: rings with two long, nearly parallel consecutive edges
// (a = -d1, b = 0, c = d2) closed through each of a few fourth vertices (or
// as a triangle), on dyadic coordinates with 0 and 7 fractional bits and
// magnitude <= 2^20; every rotation, both directions, with and without the
// repeated closing vertex. Flags are compared only where the library's own
// float arithmetic is exact on the input (floatExactTurns), as the property
// states.
func c18NearParallel(r *rt.Run) {
	type job struct {
		m      int64
		d1, d2 exact.P
	}
	var jobs []job
	nearParDirs(1<<26, r.Thorough(), func(bi int, m int64, d1, d2 exact.P) { jobs = append(jobs, job{m, d1, d2}) })
	r.Bounds["near_parallel_edge_pairs"] = len(jobs)
	r.ParFor(len(jobs), func(i int, w *rt.Worker) {
		jb := jobs[i]
		// unit: coordinates up to 2^19 use integers, beyond that 1/128 steps
		t := Xf{Scale: 1}
		if jb.m > 1<<18 {
			t = Xf{Scale: 1.0 / 128}
		}
		h := jb.m
		fourth := []*exact.P{nil, {X: h, Y: 0}, {X: 0, Y: h}, {X: -h, Y: 0}, {X: 0, Y: -h}, {X: h, Y: -h}, {X: -h, Y: h}}
		for _, f := range fourth {
			seq := []exact.P{psub(exact.P{}, jb.d1), {}, jb.d2}
			if f != nil {
				seq = append(seq, *f)
			}
			n := len(seq)
			for rev := 0; rev < 2; rev++ {
				for rot := 0; rot < n; rot++ {
					s := make([]exact.P, n)
					for k := 0; k < n; k++ {
						idx := (rot + k) % n
						if rev == 1 {
							idx = (rot + n - k) % n
						}
						s[k] = seq[idx]
					}
					tOK, sOK := floatExactTurns(s)
					if !tOK && !sOK {
						continue
					}
					wantConvex := exact.Convex(s)
					wantCW := exact.Area2(exact.Cyclic(s)) < 0
					for closing := 0; closing < 2; closing++ {
						fp := t.pts(s)
						if closing == 1 {
							fp = append(fp, fp[0])
						}
						ring := geometry.NewPoly(fp, nil, idxNone).Exterior
						w.States++
						w.Evals++
						if tOK && !wantConvex {
							w.Nontriv++
						}
						if tOK && ring.Convex() != wantConvex {
							w.Fail("ring-convex-near-parallel", func() (rt.Case, string, string) {
								return rt.Case{Kind: "series", Op: "convex", A: &rt.G{K: "ring", P: f2(fp)}, X: t.x()}, fmt.Sprint(wantConvex), fmt.Sprint(ring.Convex())
							})
						}
						if sOK && ring.Clockwise() != wantCW {
							w.Fail("ring-clockwise-near-parallel", func() (rt.Case, string, string) {
								return rt.Case{Kind: "series", Op: "clockwise", A: &rt.G{K: "ring", P: f2(fp)}, X: t.x()}, fmt.Sprint(wantCW), fmt.Sprint(ring.Clockwise())
							})
						}
					}
				}
			}
		}
	})
}

// c18Moved: series obtained through Move. Every vertex sequence of length
// 3..depth over the 3x3 lattice, realised with x in lattice units and y in
// units of 2^-40 (the turn signs are those of the lattice sequence), as ring
// and as open line, then moved by an exact offset, by an offset inexact in
// binary and by (0, 2^19), which absorbs the y differences altogether: the
// moved series' flags, rectangle, segment count and segments must be those of
// a series built directly from its own positions (and, for the exact offset,
// those of the definition).
func c18Moved(r *rt.Run) {
	depth := 4
	if r.Thorough() {
		depth = 5
	}
	L := lat.Lattice(3, -1)
	short, pre := lat.Shards2(L)
	_ = short
	tiny := 1.0 / (1 << 40)
	deltas := c18MoveDeltas
	r.Bounds["moved_series_depth"] = depth
	r.ParFor(len(pre), func(i int, w *rt.Worker) {
		lat.SeqsFrom(L, pre[i], 3, depth, func(seq []exact.P) {
			fp := make([]geometry.Point, len(seq))
			for k, p := range seq {
				fp[k] = geometry.Point{X: float64(p.X), Y: float64(p.Y) * tiny}
			}
			poly := geometry.NewPoly(fp, nil, idxNone)
			ring := poly.Exterior
			line := geometry.NewLine(fp, idxNone)
			wantConvex, wantCW := exact.Convex(seq), exact.Area2(exact.Cyclic(seq)) < 0
			w.States++
			if ring.Convex() != wantConvex || ring.Clockwise() != wantCW {
				w.Fail("ring-flags-anisotropic", func() (rt.Case, string, string) {
					return rt.Case{Kind: "moved-series", Op: "source", A: &rt.G{K: "ring", P: f2(fp)}}, fmt.Sprintf("convex=%v cw=%v", wantConvex, wantCW), fmt.Sprintf("convex=%v cw=%v", ring.Convex(), ring.Clockwise())
				})
			}
			for di, d := range deltas {
				for si := 0; si < 2; si++ {
					var mv geometry.Series
					if si == 0 {
						mv = poly.Move(d[0], d[1]).Exterior
					} else {
						mv = line.Move(d[0], d[1])
					}
					n := mv.NumPoints()
					own := make([]geometry.Point, n)
					for k := 0; k < n; k++ {
						own[k] = mv.PointAt(k)
					}
					var fresh geometry.Series
					if si == 0 {
						fresh = geometry.NewPoly(own, nil, idxNone).Exterior
					} else {
						fresh = geometry.NewLine(own, idxNone)
					}
					w.States++
					w.Evals++
					w.Nontriv++
					a, b := observeSeries(mv), observeSeries(fresh)
					bad := n != len(fp) || a.convex != b.convex || a.cw != b.cw || a.rect != b.rect || a.nseg != b.nseg || mv.Empty() != fresh.Empty()
					if !bad {
						for k := range a.segs {
							if a.segs[k] != b.segs[k] {
								bad = true
							}
						}
						for k := range own {
							if own[k] != (geometry.Point{X: fp[k].X + d[0], Y: fp[k].Y + d[1]}) {
								bad = true
							}
						}
					}
					if bad {
						di, si := di, si
						w.Fail("moved-series-attributes", func() (rt.Case, string, string) {
							return rt.Case{Kind: "moved-series", Op: fmt.Sprintf("%d/%d", di, si), A: &rt.G{K: "ring", P: f2(fp)}},
								fmt.Sprintf("as built from its own positions: convex=%v cw=%v rect=%v nseg=%d", b.convex, b.cw, b.rect, b.nseg),
								fmt.Sprintf("convex=%v cw=%v rect=%v nseg=%d npoints=%d", a.convex, a.cw, a.rect, a.nseg, n)
						})
					}
				}
			}
		})
	})
}

var c18MoveDeltas = [][2]float64{{3, -5}, {0.1, 0.3}, {0, 1 << 19}, {0, 0}}

func evalC18Moved(c *rt.Case) (bool, string, string, error) {
	fp := g2(c.A.P)
	poly := geometry.NewPoly(fp, nil, idxNone)
	line := geometry.NewLine(fp, idxNone)
	if c.Op == "source" {
		return false, "", "", fmt.Errorf("source flags are re-checked by the run only")
	}
	var di, si int
	fmt.Sscanf(c.Op, "%d/%d", &di, &si)
	if di < 0 || di >= len(c18MoveDeltas) || si < 0 || si > 1 {
		return false, "", "", fmt.Errorf("malformed case")
	}
	d := c18MoveDeltas[di]
	var mv geometry.Series
	if si == 0 {
		mv = poly.Move(d[0], d[1]).Exterior
	} else {
		mv = line.Move(d[0], d[1])
	}
	n := mv.NumPoints()
	own := make([]geometry.Point, n)
	for k := 0; k < n; k++ {
		own[k] = mv.PointAt(k)
	}
	var fresh geometry.Series
	if si == 0 {
		fresh = geometry.NewPoly(own, nil, idxNone).Exterior
	} else {
		fresh = geometry.NewLine(own, idxNone)
	}
	a, b := observeSeries(mv), observeSeries(fresh)
	bad := n != len(fp) || a.convex != b.convex || a.cw != b.cw || a.rect != b.rect || a.nseg != b.nseg
	return bad, fmt.Sprintf("convex=%v cw=%v rect=%v nseg=%d", b.convex, b.cw, b.rect, b.nseg), fmt.Sprintf("convex=%v cw=%v rect=%v nseg=%d", a.convex, a.cw, a.rect, a.nseg), nil
}

// c18RectSeries: a Rect is itself a Series (and may be the exterior of a
// Poly). Every rectangle over the 4x4 lattice (zero extents included):
// positions, segments, flags, rectangle and Search must be those of the
// five-position ring through its corners, also after Move; and a Poly whose
// exterior is the Rect answers every probe as the Poly built from that ring.
var c18RectMoves = [][2]float64{{0, 0}, {3, -5}, {0.1, 0.3}}

// rectSeriesOne checks one rectangle under one offset; evals counts comparisons.
func rectSeriesOne(rc geometry.Rect, mi int) (class, exp, got string, evals int64) {
	H := lat.Half(4, -1)
	d := c18RectMoves[mi]
	rcm := rc.Move(d[0], d[1])
	corners := []geometry.Point{{X: rcm.Min.X, Y: rcm.Min.Y}, {X: rcm.Max.X, Y: rcm.Min.Y}, {X: rcm.Max.X, Y: rcm.Max.Y}, {X: rcm.Min.X, Y: rcm.Max.Y}, {X: rcm.Min.X, Y: rcm.Min.Y}}
	ring := geometry.NewPoly(corners, nil, idxNone).Exterior
	var ser geometry.Series = rcm
	ao, bo := observeSeries(ser), observeSeries(ring)
	evals++
	bad := ser.NumPoints() != 5 || ao.nseg != bo.nseg || ao.convex != bo.convex || ao.cw != bo.cw || ao.rect != bo.rect
	if !bad {
		for k := 0; k < 5; k++ {
			if ser.PointAt(k) != ring.PointAt(k) {
				bad = true
			}
		}
		for k := range ao.segs {
			if ao.segs[k] != bo.segs[k] {
				bad = true
			}
		}
	}
	if bad {
		return "rect-as-series", fmt.Sprintf("as the ring through its corners: %+v", bo), fmt.Sprintf("%+v", ao), evals
	}
	// Search: query rectangles over the half-step lattice
	for _, q0 := range H {
		for _, q1 := range []exact.P{q0, {X: q0.X + 3, Y: q0.Y + 2}} {
			q := geometry.Rect{Min: geometry.Point{X: ident.pt(q0).X + d[0], Y: ident.pt(q0).Y + d[1]}, Max: geometry.Point{X: ident.pt(q1).X + d[0], Y: ident.pt(q1).Y + d[1]}}
			var g1, g2 []int
			ser.Search(q, func(_ geometry.Segment, i int) bool { g1 = append(g1, i); return true })
			for i := 0; i < 4; i++ {
				if ring.SegmentAt(i).Rect().IntersectsRect(q) {
					g2 = append(g2, i)
				}
			}
			evals++
			if fmt.Sprint(g1) != fmt.Sprint(g2) {
				return "rect-as-series", fmt.Sprintf("Search(%v) = %v", q, g2), fmt.Sprint(g1), evals
			}
		}
	}
	// Poly with the Rect as exterior == Poly built from the corner ring
	p1 := &geometry.Poly{Exterior: rcm}
	p2 := geometry.NewPoly(corners, nil, idxNone)
	for _, h := range H {
		pt := geometry.Point{X: ident.pt(h).X + d[0], Y: ident.pt(h).Y + d[1]}
		l := geometry.NewLine([]geometry.Point{pt, {X: pt.X + 1, Y: pt.Y + 0.5}}, idxNone)
		q := geometry.Rect{Min: pt, Max: geometry.Point{X: pt.X + 0.5, Y: pt.Y + 1}}
		g1 := []bool{p1.ContainsPoint(pt), p1.IntersectsPoint(pt), p1.ContainsLine(l), p1.IntersectsLine(l), p1.ContainsRect(q), p1.IntersectsRect(q), p1.ContainsPoly(p2), p2.ContainsPoly(p1), p1.IntersectsPoly(p2), l.ContainsPoly(p1), l.IntersectsPoly(p1)}
		g2 := []bool{p2.ContainsPoint(pt), p2.IntersectsPoint(pt), p2.ContainsLine(l), p2.IntersectsLine(l), p2.ContainsRect(q), p2.IntersectsRect(q), p2.ContainsPoly(p2), p2.ContainsPoly(p2), p2.IntersectsPoly(p2), l.ContainsPoly(p2), l.IntersectsPoly(p2)}
		evals += int64(len(g1))
		if fmt.Sprint(g1) != fmt.Sprint(g2) {
			return "rect-exterior-poly", fmt.Sprintf("probe %v: %v", pt, g2), fmt.Sprint(g1), evals
		}
	}
	// Poly with the Rect as a hole == Poly with the corner ring as a hole
	outer := []geometry.Point{{X: -4 + d[0], Y: -4 + d[1]}, {X: 8 + d[0], Y: -4 + d[1]}, {X: 8 + d[0], Y: 8 + d[1]}, {X: -4 + d[0], Y: 8 + d[1]}, {X: -4 + d[0], Y: -4 + d[1]}}
	h1 := geometry.NewPoly(outer, nil, idxNone)
	h1.Holes = []geometry.Ring{rcm}
	h2 := geometry.NewPoly(outer, [][]geometry.Point{corners}, idxNone)
	for _, h := range H {
		pt := geometry.Point{X: ident.pt(h).X + d[0], Y: ident.pt(h).Y + d[1]}
		l := geometry.NewLine([]geometry.Point{pt, {X: pt.X + 1, Y: pt.Y + 0.5}}, idxNone)
		q := geometry.Rect{Min: pt, Max: geometry.Point{X: pt.X + 0.5, Y: pt.Y + 1}}
		g1 := []bool{h1.ContainsPoint(pt), h1.IntersectsPoint(pt), h1.ContainsLine(l), h1.IntersectsLine(l), h1.ContainsRect(q), h1.IntersectsRect(q), h1.ContainsPoly(p2), h1.IntersectsPoly(p2), p2.IntersectsPoly(h1)}
		g2 := []bool{h2.ContainsPoint(pt), h2.IntersectsPoint(pt), h2.ContainsLine(l), h2.IntersectsLine(l), h2.ContainsRect(q), h2.IntersectsRect(q), h2.ContainsPoly(p2), h2.IntersectsPoly(p2), p2.IntersectsPoly(h2)}
		evals += int64(len(g1))
		if fmt.Sprint(g1) != fmt.Sprint(g2) {
			return "rect-hole-poly", fmt.Sprintf("probe %v: %v", pt, g2), fmt.Sprint(g1), evals
		}
	}
	return "", "", "", evals
}

func c18RectSeries(r *rt.Run) {
	L := lat.Lattice(4, -1)
	w := r.Worker()
	cnt := 0
	for _, a := range L {
		for _, b := range L {
			if a.X > b.X || a.Y > b.Y {
				continue
			}
			cnt++
			rc := geometry.Rect{Min: ident.pt(a), Max: ident.pt(b)}
			for mi := range c18RectMoves {
				class, exp, got, ev := rectSeriesOne(rc, mi)
				w.States++
				w.Nontriv++
				w.Evals += ev
				if class != "" {
					mi := mi
					w.Fail(class, func() (rt.Case, string, string) {
						return rt.Case{Kind: "rect-series", Op: fmt.Sprint(mi), A: &rt.G{K: "rect", P: [][2]float64{{rc.Min.X, rc.Min.Y}, {rc.Max.X, rc.Max.Y}}}}, exp, got
					})
				}
			}
		}
	}
	r.Bounds["rect_series"] = cnt
	w.Flush()
}

func evalC18Rect(c *rt.Case) (bool, string, string, error) {
	var mi int
	fmt.Sscan(c.Op, &mi)
	if mi < 0 || mi >= len(c18RectMoves) || c.A == nil || len(c.A.P) != 2 {
		return false, "", "", fmt.Errorf("malformed case")
	}
	rc := geometry.Rect{Min: geometry.Point{X: c.A.P[0][0], Y: c.A.P[0][1]}, Max: geometry.Point{X: c.A.P[1][0], Y: c.A.P[1][1]}}
	class, exp, got, _ := rectSeriesOne(rc, mi)
	return class != "", exp, got, nil
}

// c19UlpGrid: narrow steep segments far from the y axis. x ordinates are
// +-(2^20-1) + k*2^-33 (one ulp apart at that magnitude), y ordinates small
// integers: every (segment, point) triple over a 7x7 alphabet and every
// segment pair over a 4x4 alphabet. The oracle works on the integer pairs
// (k, y): orientation, on-segment and ray-crossing decisions are invariant
// under the (positive, per-axis) change of units.
// the grids of c19UlpGrid, by code: +-1048575 / +-2097151 = one axis in steps
// of 2^-33 at +-(2^20-1), the other in units (2097151: transposed); +-41 / +-70
// = one axis in steps of 2^-41 / 2^-70 at the origin, the other in steps of
// 2^17 (aspect ratios of 2^58 .. 2^87 within magnitude 2^20; negative:
// transposed)
var ulpGridBases = []float64{1048575, -1048575, 2097151, -2097151, 41, -41, 70, -70}

func ulpGridMk(base0 float64) func(p exact.P) geometry.Point {
	fine, coarse, origin, transposed := 1.0/(1<<33), 1.0, base0, false
	switch {
	case math.Abs(base0) < 100:
		fine, coarse, origin, transposed = math.Ldexp(1, -int(math.Abs(base0))), 1<<17, 0, base0 < 0
	case math.Abs(base0) > 2000000:
		origin, transposed = math.Copysign(1048575, base0), true
	}
	return func(p exact.P) geometry.Point {
		if transposed {
			return geometry.Point{X: float64(p.X) * coarse, Y: origin + float64(p.Y)*fine}
		}
		return geometry.Point{X: origin + float64(p.X)*fine, Y: float64(p.Y) * coarse}
	}
}

func c19UlpGrid(r *rt.Run) {
	for _, base0 := range ulpGridBases {
		mk := ulpGridMk(base0)
		base := base0 // recorded in the case
		var pts []exact.P
		for k := int64(0); k < 7; k++ {
			for y := int64(0); y < 7; y++ {
				pts = append(pts, exact.P{X: k, Y: y})
			}
		}
		r.ParFor(len(pts), func(i int, w *rt.Worker) {
			a := pts[i]
			for _, b := range pts {
				fs := geometry.Segment{A: mk(a), B: mk(b)}
				for _, p := range pts {
					on := exact.OnSeg(p, a, b)
					in := !on && exact.RayCross(p.R(), a, b)
					fp := mk(p)
					w.Evals += 3
					w.States++
					if on || in {
						w.Nontriv++
					}
					if res := fs.Raycast(fp); res.On != on || res.In != in {
						w.Fail("raycast-ulp-grid", func() (rt.Case, string, string) {
							return rt.Case{Kind: "ulp-grid", Op: "raycast", Nums: []float64{base, float64(a.X), float64(a.Y), float64(b.X), float64(b.Y), float64(p.X), float64(p.Y)}},
								fmt.Sprintf("on=%v in=%v", on, in), fmt.Sprintf("on=%v in=%v", res.On, res.In)
						})
					}
					if got := fs.ContainsPoint(fp); got != on {
						w.Fail("containspoint-ulp-grid", func() (rt.Case, string, string) {
							return rt.Case{Kind: "ulp-grid", Op: "containspoint", Nums: []float64{base, float64(a.X), float64(a.Y), float64(b.X), float64(b.Y), float64(p.X), float64(p.Y)}}, fmt.Sprint(on), fmt.Sprint(got)
						})
					}
					if got := fs.CollinearPoint(fp); got != exact.Collinear(p, a, b) {
						w.Fail("collinear-ulp-grid", func() (rt.Case, string, string) {
							return rt.Case{Kind: "ulp-grid", Op: "collinear", Nums: []float64{base, float64(a.X), float64(a.Y), float64(b.X), float64(b.Y), float64(p.X), float64(p.Y)}}, fmt.Sprint(!got), fmt.Sprint(got)
						})
					}
					// segment pairs over the 4x4 sub-alphabet
					if a.X < 4 && a.Y < 4 && b.X < 4 && b.Y < 4 && p.X < 4 && p.Y < 4 {
						for _, q := range pts {
							if q.X >= 4 || q.Y >= 4 {
								continue
							}
							fo := geometry.Segment{A: fp, B: mk(q)}
							want := exact.SegsIntersect(a, b, p, q)
							w.Evals += 2
							if g1, g2 := fs.IntersectsSegment(fo), fo.IntersectsSegment(fs); g1 != want || g2 != want {
								w.Fail("intersects-ulp-grid", func() (rt.Case, string, string) {
									return rt.Case{Kind: "ulp-grid", Op: "intersects", Nums: []float64{base, float64(a.X), float64(a.Y), float64(b.X), float64(b.Y), float64(p.X), float64(p.Y), float64(q.X), float64(q.Y)}}, fmt.Sprint(want), fmt.Sprintf("%v / swapped %v", g1, g2)
								})
							}
						}
					}
				}
			}
		})
	}
}

func evalC19UlpGrid(c *rt.Case) (bool, string, string, error) {
	if len(c.Nums) < 7 {
		return false, "", "", fmt.Errorf("malformed case")
	}
	base := c.Nums[0]
	ip := func(i int) exact.P { return exact.P{X: int64(c.Nums[i]), Y: int64(c.Nums[i+1])} }
	mk := ulpGridMk(base)
	a, b, p := ip(1), ip(3), ip(5)
	fs := geometry.Segment{A: mk(a), B: mk(b)}
	on := exact.OnSeg(p, a, b)
	switch c.Op {
	case "raycast":
		in := !on && exact.RayCross(p.R(), a, b)
		res := fs.Raycast(mk(p))
		return res.On != on || res.In != in, fmt.Sprintf("on=%v in=%v", on, in), fmt.Sprintf("on=%v in=%v", res.On, res.In), nil
	case "containspoint":
		got := fs.ContainsPoint(mk(p))
		return got != on, fmt.Sprint(on), fmt.Sprint(got), nil
	case "collinear":
		got := fs.CollinearPoint(mk(p))
		return got != exact.Collinear(p, a, b), fmt.Sprint(!got), fmt.Sprint(got), nil
	case "intersects":
		if len(c.Nums) < 9 {
			return false, "", "", fmt.Errorf("malformed case")
		}
		q := ip(7)
		fo := geometry.Segment{A: mk(p), B: mk(q)}
		want := exact.SegsIntersect(a, b, p, q)
		g1, g2 := fs.IntersectsSegment(fo), fo.IntersectsSegment(fs)
		return g1 != want || g2 != want, fmt.Sprint(want), fmt.Sprintf("%v / swapped %v", g1, g2), nil
	}
	return false, "", "", fmt.Errorf("unknown op")
}

// c19NegZero: the lattice kernels with zero ordinates written as -0 (probe
// only, segment only, both): -0 is the same number as 0.
func c19NegZero(r *rt.Run) {
	L := lat.Lattice(5, -2)
	nz := func(p exact.P, on bool) geometry.Point {
		q := geometry.Point{X: float64(p.X), Y: float64(p.Y)}
		if on {
			if p.X == 0 {
				q.X = math.Copysign(0, -1)
			}
			if p.Y == 0 {
				q.Y = math.Copysign(0, -1)
			}
		}
		return q
	}
	r.ParFor(len(L), func(i int, w *rt.Worker) {
		a := L[i]
		for _, b := range L {
			for _, p := range L {
				if a.X != 0 && a.Y != 0 && b.X != 0 && b.Y != 0 && p.X != 0 && p.Y != 0 {
					continue
				}
				on := exact.OnSeg(p, a, b)
				in := !on && exact.RayCross(p.R(), a, b)
				for mode := 1; mode < 4; mode++ {
					fs := geometry.Segment{A: nz(a, mode&2 != 0), B: nz(b, mode&2 != 0)}
					fp := nz(p, mode&1 != 0)
					w.Evals += 3
					w.States++
					w.Nontriv++
					res := fs.Raycast(fp)
					if res.On != on || res.In != in || fs.ContainsPoint(fp) != on || fs.CollinearPoint(fp) != exact.Collinear(p, a, b) {
						mode := mode
						w.Fail("negative-zero", func() (rt.Case, string, string) {
							return rt.Case{Kind: "negzero", Op: fmt.Sprint(mode), Nums: []float64{float64(a.X), float64(a.Y), float64(b.X), float64(b.Y), float64(p.X), float64(p.Y)}},
								fmt.Sprintf("on=%v in=%v", on, in), fmt.Sprintf("raycast on=%v in=%v contains=%v collinear=%v", res.On, res.In, fs.ContainsPoint(fp), fs.CollinearPoint(fp))
						})
					}
				}
			}
		}
	})
}

func evalC19NegZero(c *rt.Case) (bool, string, string, error) {
	if len(c.Nums) < 6 {
		return false, "", "", fmt.Errorf("malformed case")
	}
	var mode int
	fmt.Sscan(c.Op, &mode)
	ip := func(i int) exact.P { return exact.P{X: int64(c.Nums[i]), Y: int64(c.Nums[i+1])} }
	nz := func(p exact.P, on bool) geometry.Point {
		q := geometry.Point{X: float64(p.X), Y: float64(p.Y)}
		if on {
			if p.X == 0 {
				q.X = math.Copysign(0, -1)
			}
			if p.Y == 0 {
				q.Y = math.Copysign(0, -1)
			}
		}
		return q
	}
	a, b, p := ip(0), ip(2), ip(4)
	on := exact.OnSeg(p, a, b)
	in := !on && exact.RayCross(p.R(), a, b)
	fs := geometry.Segment{A: nz(a, mode&2 != 0), B: nz(b, mode&2 != 0)}
	fp := nz(p, mode&1 != 0)
	res := fs.Raycast(fp)
	bad := res.On != on || res.In != in || fs.ContainsPoint(fp) != on || fs.CollinearPoint(fp) != exact.Collinear(p, a, b)
	return bad, fmt.Sprintf("on=%v in=%v", on, in), fmt.Sprintf("raycast on=%v in=%v", res.On, res.In), nil
}

// c19MixedScale: long segments (ends on multiples of 2^17 up to +-2^20) and
// points a few ulps off them: a point of the segment on the 2^17 grid moved by
// +-1, 2, 4 units of 2^-34 in x or in y (all exactly representable). Decided
// in exact integer arithmetic on the 2^-34 grid (math/big: the products do
// not fit 64 bits).
func c19MixedScale(r *rt.Run) {
	const unit = 1.0 / (1 << 34)
	grid := []int64{-8, -4, -2, 0, 1, 3, 4, 8} // multiples of 2^17
	type seg struct{ ax, ay, bx, by int64 }
	var segs []seg
	for _, ax := range grid {
		for _, ay := range grid {
			for _, bx := range grid {
				for _, by := range grid {
					if (ax != bx || ay != by) && (ax == -8 || ay == -8 || ax == 0) {
						segs = append(segs, seg{ax, ay, bx, by})
					}
				}
			}
		}
	}
	r.Bounds["mixed_scale_segments"] = len(segs)
	big51 := func(v int64) *big.Int { return new(big.Int).Lsh(big.NewInt(v), 51) } // 2^17 / 2^-34
	r.ParFor(len(segs), func(i int, w *rt.Worker) {
		s := segs[i]
		fa, fb := geometry.Point{X: float64(s.ax) * 131072, Y: float64(s.ay) * 131072}, geometry.Point{X: float64(s.bx) * 131072, Y: float64(s.by) * 131072}
		fs := geometry.Segment{A: fa, B: fb}
		A := [2]*big.Int{big51(s.ax), big51(s.ay)}
		B := [2]*big.Int{big51(s.bx), big51(s.by)}
		// lattice points of the 2^17 grid on the segment (parameter t = k/8)
		for k := int64(0); k <= 8; k++ {
			nx, ny := s.ax*8+(s.bx-s.ax)*k, s.ay*8+(s.by-s.ay)*k // in units of 2^14
			if nx%8 != 0 || ny%8 != 0 {
				continue
			}
			px, py := nx/8, ny/8
			for _, d := range []int64{0, 1, -1, 2, -2, 4, -4} {
				for axis := 0; axis < 2; axis++ {
					if d == 0 && axis == 1 {
						continue
					}
					fp := geometry.Point{X: float64(px) * 131072, Y: float64(py) * 131072}
					P := [2]*big.Int{big51(px), big51(py)}
					if axis == 0 {
						fp.X += float64(d) * unit
						P[0].Add(P[0], big.NewInt(d))
					} else {
						fp.Y += float64(d) * unit
						P[1].Add(P[1], big.NewInt(d))
					}
					// the displaced ordinate must be the number the model holds (2^-34 is
					// below the ulp of ordinates of magnitude 2^19 and more)
					if base := (geometry.Point{X: float64(px) * 131072, Y: float64(py) * 131072}); fp.X-base.X != float64(d)*unit*float64(1-axis) || fp.Y-base.Y != float64(d)*unit*float64(axis) {
						continue
					}
					// ... and the differences the kernels form (p-a, p-b) must be exact in
					// float64 as well, as the property's domain demands
					if !fits53(P[0], A[0]) || !fits53(P[1], A[1]) || !fits53(P[0], B[0]) || !fits53(P[1], B[1]) {
						continue
					}
					on, in := bigRay(P, A, B)
					w.Evals += 3
					w.States++
					w.Nontriv++
					res := fs.Raycast(fp)
					cp, col := fs.ContainsPoint(fp), fs.CollinearPoint(fp)
					wantCol := bigCross(P, A, B).Sign() == 0
					if res.On != on || res.In != in || cp != on || col != wantCol {
						d, axis, k := d, axis, k
						w.Fail("mixed-scale", func() (rt.Case, string, string) {
							return rt.Case{Kind: "mixed-scale", Op: "point", Nums: []float64{float64(s.ax), float64(s.ay), float64(s.bx), float64(s.by), float64(k), float64(d), float64(axis)}},
								fmt.Sprintf("on=%v in=%v collinear=%v", on, in, wantCol), fmt.Sprintf("raycast on=%v in=%v contains=%v collinear=%v", res.On, res.In, cp, col)
						})
					}
				}
			}
		}
	})
}

// c19LevelWithEnd: probes level with an end point of the segment, a tiny
// offset (2^-1 .. 2^-1000) to its left or right: not on the segment (unless
// it is horizontal), and whether the ray crosses is the half-open rule at that
// end. The offset is far below the ulp of the other end's ordinates: the
// difference with the far end is not representable. Probes next to A, where
// the library anchors its differences, are inside the exact domain (both as
// upper and as lower end of the segment).
func c19LevelEval(ax, ay, bx, by int64, end, k int, sgn int64) (bool, string, string) {
	fs := geometry.Segment{A: geometry.Point{X: float64(ax), Y: float64(ay)}, B: geometry.Point{X: float64(bx), Y: float64(by)}}
	ex, ey := ax, ay
	if end == 1 {
		ex, ey = bx, by
	}
	off := math.Ldexp(float64(sgn), -k)
	fp := geometry.Point{X: float64(ex) + off, Y: float64(ey)}
	if fp.X-float64(ex) != off {
		return false, "", "" // the probe is not the number the model holds
	}
	sc := func(v int64) *big.Int { return new(big.Int).Lsh(big.NewInt(v), uint(k)) }
	A, B := [2]*big.Int{sc(ax), sc(ay)}, [2]*big.Int{sc(bx), sc(by)}
	P := [2]*big.Int{new(big.Int).Add(sc(ex), big.NewInt(sgn)), sc(ey)}
	on, in := bigRay(P, A, B)
	res := fs.Raycast(fp)
	cp := fs.ContainsPoint(fp)
	return res.On != on || res.In != in || cp != on, fmt.Sprintf("on=%v in=%v", on, in), fmt.Sprintf("raycast on=%v in=%v contains=%v", res.On, res.In, cp)
}

func c19LevelWithEnd(r *rt.Run) {
	vals := []int64{-4, -1, 0, 1, 3}
	ks := []int{1, 20, 34, 52, 53, 60, 200, 1000}
	r.Bounds["level_with_end_offsets"] = "2^-k, k in 1, 20, 34, 52, 53, 60, 200, 1000, both sides of both ends, segments over {-4,-1,0,1,3}^2"
	r.ParFor(len(vals)*len(vals), func(i int, w *rt.Worker) {
		ax, ay := vals[i/len(vals)], vals[i%len(vals)]
		for _, bx := range vals {
			for _, by := range vals {
				if ay == by {
					continue // horizontal segments: the probe may lie on the segment; the lattice families own them
				}
				// near A only: the kernels anchor their differences at A (p-A is exact
				// for these probes; p-B is not representable, so probes next to B
				// are outside the domain of exact float arithmetic)
				for end := 0; end < 1; end++ {
					for _, k := range ks {
						for _, sgn := range []int64{-1, 1} {
							w.States++
							w.Evals += 2
							w.Nontriv++
							if bad, exp, got := c19LevelEval(ax, ay, bx, by, end, k, sgn); bad {
								end, k, sgn := end, k, sgn
								w.Fail("level-with-end", func() (rt.Case, string, string) {
									return rt.Case{Kind: "level-with-end", Op: "point", Nums: []float64{float64(ax), float64(ay), float64(bx), float64(by), float64(end), float64(k), float64(sgn)}}, exp, got
								})
							}
						}
					}
				}
			}
		}
	})
}

// fits53: the difference of two ordinates (in grid units) is a float64.
func fits53(a, b *big.Int) bool {
	d := new(big.Int).Sub(a, b)
	d.Abs(d)
	if d.Sign() == 0 {
		return true
	}
	return d.BitLen()-int(d.TrailingZeroBits()) <= 53
}

// bigCross: (B-A) x (P-A)
func bigCross(P, A, B [2]*big.Int) *big.Int {
	bx, by := new(big.Int).Sub(B[0], A[0]), new(big.Int).Sub(B[1], A[1])
	px, py := new(big.Int).Sub(P[0], A[0]), new(big.Int).Sub(P[1], A[1])
	return new(big.Int).Sub(new(big.Int).Mul(bx, py), new(big.Int).Mul(by, px))
}

// bigRay: on-segment and half-open ray crossing in exact arithmetic.
func bigRay(P, A, B [2]*big.Int) (on, in bool) {
	cr := bigCross(P, A, B)
	within := func(p, a, b *big.Int) bool {
		lo, hi := a, b
		if lo.Cmp(hi) > 0 {
			lo, hi = hi, lo
		}
		return p.Cmp(lo) >= 0 && p.Cmp(hi) <= 0
	}
	if cr.Sign() == 0 && within(P[0], A[0], B[0]) && within(P[1], A[1], B[1]) {
		return true, false
	}
	lo, hi := A, B
	if lo[1].Cmp(hi[1]) > 0 {
		lo, hi = hi, lo
	}
	// crossing iff lo.y <= p.y < hi.y and P is to the left of the segment lo->hi
	if !(P[1].Cmp(lo[1]) >= 0 && P[1].Cmp(hi[1]) < 0) {
		return false, false
	}
	return false, bigCross(P, lo, hi).Sign() > 0
}

func evalC19MixedScale(c *rt.Case) (bool, string, string, error) {
	if len(c.Nums) < 7 {
		return false, "", "", fmt.Errorf("malformed case")
	}
	const unit = 1.0 / (1 << 34)
	n := func(i int) int64 { return int64(c.Nums[i]) }
	big51 := func(v int64) *big.Int { return new(big.Int).Lsh(big.NewInt(v), 51) }
	ax, ay, bx, by, k, d, axis := n(0), n(1), n(2), n(3), n(4), n(5), int(n(6))
	fs := geometry.Segment{A: geometry.Point{X: float64(ax) * 131072, Y: float64(ay) * 131072}, B: geometry.Point{X: float64(bx) * 131072, Y: float64(by) * 131072}}
	nx, ny := ax*8+(bx-ax)*k, ay*8+(by-ay)*k
	if nx%8 != 0 || ny%8 != 0 {
		return false, "", "", fmt.Errorf("malformed case")
	}
	px, py := nx/8, ny/8
	fp := geometry.Point{X: float64(px) * 131072, Y: float64(py) * 131072}
	P := [2]*big.Int{big51(px), big51(py)}
	if axis == 0 {
		fp.X += float64(d) * unit
		P[0].Add(P[0], big.NewInt(d))
	} else {
		fp.Y += float64(d) * unit
		P[1].Add(P[1], big.NewInt(d))
	}
	A, B := [2]*big.Int{big51(ax), big51(ay)}, [2]*big.Int{big51(bx), big51(by)}
	if !fits53(P[0], A[0]) || !fits53(P[1], A[1]) || !fits53(P[0], B[0]) || !fits53(P[1], B[1]) {
		return false, "", "", fmt.Errorf("outside the exact domain")
	}
	on, in := bigRay(P, A, B)
	res := fs.Raycast(fp)
	bad := res.On != on || res.In != in || fs.ContainsPoint(fp) != on || fs.CollinearPoint(fp) != (bigCross(P, A, B).Sign() == 0)
	return bad, fmt.Sprintf("on=%v in=%v", on, in), fmt.Sprintf("raycast on=%v in=%v", res.On, res.In), nil
}
