package main

import (
	"fmt"
	"math"
	"strconv"
	"strings"
	"verif/mc/sphere"

	"github.com/tidwall/geojson"
	"github.com/tidwall/geojson/geometry"
	"verif/mc/docgen"
	"verif/mc/rt"
)

// C08 — parse options never change what an object means.

func init() { register("C08", runC08, evalDoc) }

// kindTree renders the Go kinds of an object tree with the representation
// variants identified (SimplePoint = Point, Rect = Polygon).
func kindTree(o geojson.Object, exact bool) string {
	var sb strings.Builder
	var rec func(o geojson.Object)
	rec = func(o geojson.Object) {
		n := fmt.Sprintf("%T", o)
		if !exact {
			switch o.(type) {
			case *geojson.SimplePoint:
				n = "*geojson.Point"
			case *geojson.Rect:
				n = "*geojson.Polygon"
			}
		}
		sb.WriteString(n)
		sb.WriteByte('(')
		switch v := o.(type) {
		case *geojson.Feature:
			rec(v.Base())
		case geojson.Collection:
			for _, c := range v.Children() {
				rec(c)
			}
		}
		sb.WriteByte(')')
	}
	rec(o)
	return sb.String()
}

// anyInvalid: the object or a nested object of a standard type reports
// itself invalid.
func anyInvalid(o geojson.Object) bool {
	switch v := o.(type) {
	case *geojson.Circle:
		return !geojson.NewPoint(v.Center()).Valid()
	case *geojson.Feature:
		return anyInvalid(v.Base())
	case geojson.Collection:
		// a collection has no positions of its own: it is invalid iff a child is
		// (its own Valid() looks at the rectangle, which for a Circle child is
		// the polygon approximation's and may leave the range although every
		// position is in it)
		for _, c := range v.Children() {
			if anyInvalid(c) {
				return true
			}
		}
		return false
	}
	return !o.Valid()
}

func indexedState(o geojson.Object) string { return "" }

// c08One compares Parse(text, os) with Parse(text, base), where base differs
// from os only in options that must not matter.
func c08One(text string, base, os optSet, extra any, emit func(class string, c rt.Case, exp, got string)) {
	b, berr, bp := parseChecked(text, base.O)
	if bp != "" || berr != nil || b == nil {
		// not accepted under the base options: the options under test may not accept it either
		o, err, _ := parseChecked(text, os.O)
		if berr != nil && err == nil && o != nil {
			emit("option-turns-rejection-into-acceptance", rt.Case{Kind: "doc", Op: "options", Doc: text, Cfg: os.Name, X: map[string]string{"base": base.Name}}, "rejected as under the base options ("+berr.Error()+")", "accepted")
		}
		return
	}
	mk := func() rt.Case {
		return rt.Case{Kind: "doc", Op: "options", Doc: text, Cfg: os.Name, X: map[string]string{"base": base.Name}}
	}
	o, err, pan := parseChecked(text, os.O)
	if pan != "" {
		emit("parse-panic", mk(), "no panic", pan)
		return
	}
	rv := os.O != nil && os.O.RequireValid
	if rv {
		inv := anyInvalid(b)
		if inv {
			if err == nil {
				emit("require-valid-accepts-invalid", mk(), "rejected: an object of a standard type in it is invalid", "accepted: "+o.JSON())
			}
			return
		}
		if err != nil {
			emit("require-valid-rejects-valid", mk(), "accepted: every object in it is valid", "error: "+err.Error())
			return
		}
		if anyInvalid(o) {
			emit("require-valid-returns-invalid", mk(), "a valid object", o.JSON())
			return
		}
	}
	if err != nil || o == nil {
		emit("option-turns-acceptance-into-rejection", mk(), "accepted as under the base options", fmt.Sprint(err))
		return
	}
	if j1, j2 := b.JSON(), o.JSON(); j1 != j2 {
		emit("json-differs", mk(), j1, j2)
		return
	}
	repr := os.O != nil && (os.O.AllowSimplePoints || os.O.AllowRects) || base.O != nil && (base.O.AllowSimplePoints || base.O.AllowRects)
	var xp []geojson.Object
	if e, ok := extra.([]geojson.Object); ok {
		xp = e
	}
	a1, a2 := answersWith(b, xp), answersWith(o, xp)
	if repr {
		// representation options: the statement fixes JSON and the predicate
		// answers (a Rect deliberately counts 2 points), so the count is dropped
		a1, a2 = dropCount(a1), dropCount(a2)
	}
	if a1 != a2 {
		emit("answers-differ", mk(), a1, a2)
		return
	}
	if k1, k2 := kindTree(b, !repr), kindTree(o, !repr); k1 != k2 {
		emit("kind-differs", mk(), k1, k2)
		return
	}
}

// invalidSeeds: out-of-range coordinates at every nesting position.
func invalidSeeds() []string {
	pt := func(x, y float64) string { return docgen.Obj("Point", `"coordinates":`+docgen.Pos(x, y)) }
	var s []string
	s = append(s, pt(200, 0), pt(0, 91), pt(-180.0000001, 0), pt(180, 90), pt(-180, -90))
	s = append(s, docgen.Obj("LineString", `"coordinates":[[0,0],[181,1]]`))
	s = append(s, docgen.Obj("Polygon", `"coordinates":[[[0,0],[4,0],[4,95],[0,0]]]`))
	s = append(s, docgen.Obj("Polygon", `"coordinates":[[[0,0],[40,0],[40,40],[0,0]],[[1,1],[2,1],[2,-100],[1,1]]]`))
	s = append(s, docgen.Obj("MultiPoint", `"coordinates":[[200,0]]`))
	s = append(s, docgen.Obj("MultiPoint", `"coordinates":[[1,1],[1,91]]`))
	s = append(s, docgen.Obj("MultiLineString", `"coordinates":[[[0,0],[1,1]],[[0,0],[1,-91]]]`))
	s = append(s, docgen.Obj("MultiPolygon", `"coordinates":[[[[0,0],[4,0],[4,4],[0,0]]],[[[0,0],[4,0],[400,4],[0,0]]]]`))
	s = append(s, docgen.Obj("GeometryCollection", `"geometries":`+"["+pt(1, 1)+","+pt(1, 100)+"]"))
	s = append(s, docgen.Obj("Feature", `"geometry":`+pt(300, 1)))
	s = append(s, docgen.Obj("Feature", `"geometry":`+pt(300, 1), `"properties":{"type":"Circle","radius":10}`))
	s = append(s, docgen.Obj("Feature", `"geometry":`+pt(179.9999, 10), `"properties":{"type":"Circle","radius":100000}`))
	s = append(s, docgen.Obj("FeatureCollection", `"features":[`+docgen.Obj("Feature", `"geometry":`+docgen.Obj("GeometryCollection", `"geometries":[`+pt(0, -90.5)+`]`))+`]`))
	// representation near-misses
	s = append(s, `{"type":"Polygon","coordinates":[[[0,0],[0,4],[4,4],[4,0],[0,0]]]}`)           // clockwise box
	s = append(s, `{"type":"Polygon","coordinates":[[[4,0],[4,4],[0,4],[0,0],[4,0]]]}`)           // box from another corner
	s = append(s, `{"type":"Polygon","coordinates":[[[0,0],[4,0],[4,4],[0,4],[0,0]]],"id":1}`)    // box with a member
	s = append(s, `{"type":"Polygon","coordinates":[[[0,0,1],[4,0,1],[4,4,1],[0,4,1],[0,0,1]]]}`) // box with z
	s = append(s, `{"type":"Polygon","coordinates":[[[0,0],[4,0],[4,4],[0,4],[0,0]],[[1,1],[2,1],[2,2],[1,1]]]}`)
	s = append(s, `{"type":"Polygon","coordinates":[[[0,0],[0,0],[0,0],[0,0],[0,0]]]}`)
	s = append(s, `{"type":"Point","coordinates":[1,2,3]}`, `{"type":"Point","coordinates":[1,2],"id":1}`)
	// geometries large enough for the segment index to have structure (node
	// splits at 17 / 33 segments), placed around the probe objects, with one
	// edge much longer than the others
	big := func(n int, cx, cy, rx, ry float64) string {
		var ps []string
		ps = append(ps, docgen.Pos(cx, cy-ry))
		for i := 0; i < n; i++ {
			a := math.Pi * (float64(i) + 0.5) / float64(n)
			x, y := cx-rx*math.Sin(a), cy-ry*math.Cos(a)
			ps = append(ps, docgen.Pos(math.Round(x*64)/64, math.Round(y*64)/64))
		}
		ps = append(ps, docgen.Pos(cx, cy+ry), docgen.Pos(cx, cy-ry))
		return "[" + strings.Join(ps, ",") + "]"
	}
	s = append(s, docgen.Obj("Polygon", `"coordinates":[`+big(17, 3, 2, 4, 3)+`]`))
	s = append(s, docgen.Obj("Polygon", `"coordinates":[`+big(40, 3, 2, 4, 3)+`,[[0.5,1],[1.5,1],[1.5,3],[0.5,1]]]`))
	s = append(s, docgen.Obj("LineString", `"coordinates":`+big(70, 4, 4, 5, 5)))
	s = append(s, docgen.Obj("MultiPolygon", `"coordinates":[[`+big(20, 3, 2, 4, 3)+`],[`+big(33, 10, 2, 2, 3)+`]]`))
	s = append(s, docgen.Obj("Feature", `"geometry":`+docgen.Obj("Polygon", `"coordinates":[`+big(24, 1, 2, 3, 4)+`]`), `"id":"big"`))
	// decimal coordinates with vertices bit-exactly on the candidate quadtree
	// midlines of the bounding box (see the C04 family of the same name); the
	// probe pool has points just west of the teeth at exactly those latitudes
	{
		pts := families[familyIndex("decimal-midline")].gen(84)
		var ps []string
		for _, p := range pts {
			ps = append(ps, docgen.Pos(p.X, p.Y))
		}
		ps = append(ps, ps[0])
		s = append(s, docgen.Obj("Polygon", `"coordinates":[[`+strings.Join(ps, ",")+`]]`))
		s = append(s, docgen.Obj("LineString", `"coordinates":[`+strings.Join(ps, ",")+`]`))
	}
	s = append(s, `{"type":"GeometryCollection","geometries":[{"type":"Point","coordinates":[1,2]},{"type":"Polygon","coordinates":[[[0,0],[4,0],[4,4],[0,4],[0,0]]]},{"type":"Feature","geometry":{"type":"Point","coordinates":[1,2]},"properties":{"type":"Circle","radius":5000}}]}`)
	return s
}

func allOptionSets(dct bool) []optSet {
	var out []optSet
	for _, ic := range []int{0, 1, 2, 3, 64} {
		for _, ig := range []int{0, 1, 2, 4, 5, 6, 64} {
			for _, k := range []geometry.IndexKind{geometry.None, geometry.RTree, geometry.QuadTree} {
				for m := 0; m < 8; m++ {
					o := mkOpts(ic, ig, k, m&1 != 0, m&2 != 0, dct, m&4 != 0)
					out = append(out, optSet{optName(o), o})
				}
			}
		}
	}
	return out
}

// nearOptionSets: every option set within 2 single-option deviations of the default.
func nearOptionSets(dct bool) []optSet {
	type dev func(o *geojson.ParseOptions)
	var devs []dev
	for _, ic := range []int{0, 1, 2, 3} {
		ic := ic
		devs = append(devs, func(o *geojson.ParseOptions) { o.IndexChildren = ic })
	}
	for _, ig := range []int{0, 1, 2, 4, 5, 6} {
		ig := ig
		devs = append(devs, func(o *geojson.ParseOptions) { o.IndexGeometry = ig })
	}
	devs = append(devs, func(o *geojson.ParseOptions) { o.IndexGeometryKind = geometry.None }, func(o *geojson.ParseOptions) { o.IndexGeometryKind = geometry.RTree },
		func(o *geojson.ParseOptions) { o.RequireValid = true }, func(o *geojson.ParseOptions) { o.AllowSimplePoints = true }, func(o *geojson.ParseOptions) { o.AllowRects = true })
	seen := map[string]bool{}
	var out []optSet
	add := func(o *geojson.ParseOptions) {
		n := optName(o)
		if !seen[n] {
			seen[n] = true
			out = append(out, optSet{n, o})
		}
	}
	for i := range devs {
		o := mkOpts(64, 64, geometry.QuadTree, false, false, dct, false)
		devs[i](o)
		add(o)
		for j := i + 1; j < len(devs); j++ {
			o2 := *o
			devs[j](&o2)
			add(&o2)
		}
	}
	return out
}

func runC08(r *rt.Run) {
	seeds := append(append(docgen.Seeds(), floatSeeds()...), invalidSeeds()...)
	r.Bounds["seeds"] = len(seeds)
	full := [2][]optSet{allOptionSets(false), allOptionSets(true)}
	near := [2][]optSet{nearOptionSets(false), nearOptionSets(true)}
	bases := [2]optSet{}
	for d := 0; d < 2; d++ {
		o := mkOpts(64, 64, geometry.QuadTree, false, false, d == 1, false)
		bases[d] = optSet{optName(o), o}
	}
	r.Bounds["option_sets_full_product"] = len(full[0]) * 2
	r.Bounds["option_sets_within_2_deviations"] = len(near[0]) * 2
	r.Bounds["deviations"] = "seeds x full product; every document within 1 token deviation (thorough: 2 for seeds <= 40 tokens) x option sets within 2 deviations of the default"
	r.Rule = "accepted documents x option sets, each compared with the default-option parse (same DisableCircleType): identical JSON, rect/empty/valid/count, 6 predicates x the probe objects (incl. three large circles at mid latitude, over a pole and across the antimeridian, with collections of points all around their rim); index options keep the Go kinds, representation options keep them up to SimplePoint=Point / Rect=Polygon (Circle stays Circle); RequireValid rejects iff an object of a standard type in the default parse is invalid, and returns only valid objects; non-trivial = text accepted under the default options"
	r.Assume = []string{"the default-option parse is the reference (its own meaning is C07's and C06's business)"}
	r.ParFor(len(seeds), func(i int, w *rt.Worker) {
		// seed x full product
		for d := 0; d < 2; d++ {
			for _, os := range full[d] {
				w.Evals++
				c08One(seeds[i], bases[d], os, nil, func(class string, c rt.Case, exp, got string) {
					w.Fail(class, func() (rt.Case, string, string) { return c, exp, got })
				})
			}
		}
		k := 1
		if n := len(docgen.T(seeds[i])); r.Thorough() && n <= 40 {
			k = 2
		} else if n > 160 && !r.Thorough() {
			k = 0 // long seeds: full option product only (quick)
		}
		n := neighbourhood(seeds[i], k, func(text string, dev int) {
			w.Trans++
			if dev == 0 {
				return
			}
			if o, err := geojson.Parse(text, nil); err != nil || o == nil {
				w.Outcome("rejected")
				return
			}
			w.Nontriv++
			w.Outcome("accepted")
			for d := 0; d < 2; d++ {
				for _, os := range near[d] {
					w.Evals++
					c08One(text, bases[d], os, nil, func(class string, c rt.Case, exp, got string) {
						w.Fail(class, func() (rt.Case, string, string) { return c, exp, got })
					})
				}
			}
		})
		w.States += n
	})
	// large documents x option sets within 2 deviations (index thresholds 63/64/65 are crossed by their sizes)
	large := docgen.LargeDocs()
	r.Bounds["large_documents"] = len(large)
	r.ParFor(len(large), func(i int, w *rt.Worker) {
		w.States++
		w.Nontriv++
		for d := 0; d < 2; d++ {
			for _, os := range near[d] {
				w.Evals++
				c08One(large[i], bases[d], os, nil, func(class string, c rt.Case, exp, got string) {
					c.Doc = fmt.Sprintf("large#%d", i)
					w.Fail(class+"-large", func() (rt.Case, string, string) { return c, trunc(exp), trunc(got) })
				})
			}
		}
	})
	// collections of points on and just inside the rim of the large probe
	// circles, all around (the strip between the disc and the rectangle of
	// its polygon approximation is where a child-index search by rectangle
	// and a child-by-child loop can differ)
	// ordinates that overflow to +-Inf (accepted unless RequireValid): the
	// options still must not change any answer
	over := overflowDocs()
	r.Bounds["overflow_documents"] = len(over)
	r.ParFor(len(over), func(i int, w *rt.Worker) {
		w.States++
		w.Nontriv++
		for d := 0; d < 2; d++ {
			for _, os := range near[d] {
				w.Evals++
				c08One(over[i], bases[d], os, nil, func(class string, c rt.Case, exp, got string) {
					c.Doc = fmt.Sprintf("overflow#%d", i)
					w.Fail(class+"-overflow", func() (rt.Case, string, string) { return c, trunc(exp), trunc(got) })
				})
			}
		}
	})
	// "bbox" members of every shape and positions of mixed dimensionality
	bb := append(docgen.BBoxDocs(), docgen.DimDocs()...)
	r.Bounds["bbox_and_dimension_documents"] = len(bb)
	r.ParFor(len(bb), func(i int, w *rt.Worker) {
		w.States++
		for d := 0; d < 2; d++ {
			for _, os := range near[d] {
				w.Evals++
				c08One(bb[i], bases[d], os, bboxProbes, func(class string, c rt.Case, exp, got string) {
					c.X["probes"] = "bbox"
					w.Fail(class+"-bbox", func() (rt.Case, string, string) { return c, trunc(exp), trunc(got) })
				})
			}
		}
	})
	// tracks that cover a stretch of road twice x LineString probes along
	// either pass x the index options
	tracks := allTracks()
	tsets := trackOptionSets()
	r.Bounds["twice_travelled_tracks"] = len(tracks)
	r.Bounds["track_option_sets"] = len(tsets)
	r.ParFor(len(tracks), func(i int, w *rt.Worker) {
		w.States++
		w.Nontriv++
		doc, probes := tracks[i].doc(), tracks[i].probes()
		w.Trans += int64(len(probes))
		for _, os := range tsets {
			w.Evals++
			c08One(doc, bases[0], os, probes, func(class string, c rt.Case, exp, got string) {
				c.X["probes"] = "track:" + tracks[i].String()
				w.Fail(class+"-track", func() (rt.Case, string, string) { return c, trunc(exp), trunc(got) })
			})
		}
	})
	strip := circleStripDocs()
	r.Bounds["circle_rim_documents"] = len(strip)
	r.ParFor(len(strip), func(i int, w *rt.Worker) {
		w.States++
		w.Nontriv++
		for d := 0; d < 2; d++ {
			for _, os := range near[d] {
				w.Evals++
				c08One(strip[i], bases[d], os, circleProbes, func(class string, c rt.Case, exp, got string) {
					c.X["probes"] = "circles"
					w.Fail(class+"-rim", func() (rt.Case, string, string) { return c, trunc(exp), trunc(got) })
				})
			}
		}
	})
	r.Sample(rt.Case{Kind: "doc", Op: "options", Doc: seeds[len(seeds)-1], Cfg: full[0][777].Name, X: map[string]string{"base": bases[0].Name}})
	r.Sample(rt.Case{Kind: "doc", Op: "options", Doc: `{"type":"MultiPoint","coordinates":[[200,0]]}`, Cfg: near[0][20].Name, X: map[string]string{"base": bases[0].Name}})
}

// overflowDocs: long lines and rings (past the node-split sizes of both index
// kinds) with ordinates that overflow to +Inf and to -Inf (1e999, -1e999),
// on one axis, on both, at the ends and in the middle.
func overflowDocs() []string {
	var out []string
	for _, n := range []int{20, 40, 70} {
		for _, where := range [][2]int{{n / 3, 2 * n / 3}, {0, n - 1}, {1, 2}} {
			for axis := 0; axis < 3; axis++ {
				for _, signs := range [][2]string{{"1e999", "-1e999"}, {"1e999", "1e999"}, {"-1e999", "-1e999"}} {
					var ps []string
					for i := 0; i < n; i++ {
						x, y := strconv.Itoa(i%10), strconv.Itoa(i/10)
						if i%2 == 1 {
							y += ".5"
						}
						for k, w := range where {
							if i == w {
								if axis == 0 || axis == 2 {
									x = signs[k]
								}
								if axis == 1 || axis == 2 {
									y = signs[k]
								}
							}
						}
						ps = append(ps, "["+x+","+y+"]")
					}
					out = append(out, `{"type":"LineString","coordinates":[`+strings.Join(ps, ",")+`]}`)
					if where[0] != 0 {
						out = append(out, `{"type":"Polygon","coordinates":[[`+strings.Join(ps, ",")+`,`+ps[0]+`]]}`)
					}
				}
			}
		}
	}
	return out
}

// bboxProbes: points and small shapes inside the geometries of BBoxDocs /
// DimDocs but outside what a misread "bbox" would give.
var bboxProbes = []geojson.Object{
	geojson.NewPoint(geometry.Point{X: 7, Y: 7}), geojson.NewPoint(geometry.Point{X: 9, Y: 9}), geojson.NewPoint(geometry.Point{X: 20.5, Y: 0.5}),
	geojson.NewPoint(geometry.Point{X: 30, Y: 30}), geojson.NewPoint(geometry.Point{X: 25, Y: 35}),
	geojson.NewRect(geometry.Rect{Min: geometry.Point{X: 6, Y: 2}, Max: geometry.Point{X: 9, Y: 4}}),
	geojson.NewLineString(geometry.NewLine([]geometry.Point{{X: 1, Y: 1}, {X: 9, Y: 9}}, nil)),
}

func circleStripDocs() []string {
	f := func(v float64) string { return strconv.FormatFloat(v, 'g', -1, 64) }
	var out []string
	for _, c := range c08Circles {
		centre := "[" + f(c[0]) + "," + f(c[1]) + "]"
		var rim []string
		for b := 0.0; b < 360; b += 15 {
			pl, po := sphere.Dest(c[1], c[0], c[2]*0.999, b)
			if po > 180 {
				po -= 360
			}
			p := "[" + f(po) + "," + f(pl) + "]"
			rim = append(rim, p)
			out = append(out, `{"type":"MultiPoint","coordinates":[`+centre+`,`+p+`]}`)
			out = append(out, `{"type":"GeometryCollection","geometries":[{"type":"Point","coordinates":`+p+`},{"type":"Point","coordinates":`+centre+`}]}`)
		}
		out = append(out, `{"type":"MultiPoint","coordinates":[`+strings.Join(rim, ",")+`]}`)
		// the circle itself as a child of collections (1, 2 and 64 children), probed by the rim points
		cf := `{"type":"Feature","geometry":{"type":"Point","coordinates":` + centre + `},"properties":{"type":"Circle","radius":` + f(c[2]) + `,"radius_units":"m"}}`
		small := `{"type":"Feature","geometry":{"type":"Point","coordinates":` + centre + `},"properties":{"type":"Circle","radius":1000,"radius_units":"m"}}`
		out = append(out, cf) // the circle on its own (its polygon may leave the longitude range: still a valid object)
		out = append(out, `{"type":"FeatureCollection","features":[`+cf+`]}`)
		out = append(out, `{"type":"GeometryCollection","geometries":[{"type":"Point","coordinates":[0,0]},`+cf+`]}`)
		var many []string
		for i := 0; i < 63; i++ {
			many = append(many, small)
		}
		many = append(many, cf)
		out = append(out, `{"type":"FeatureCollection","features":[`+strings.Join(many, ",")+`]}`)
		// 70 features: the centre many times over, one rim point
		for _, k := range []int{2, 8, 18} {
			var fs []string
			for i := 0; i < 70; i++ {
				q := centre
				if i == 40 {
					q = rim[k]
				}
				fs = append(fs, `{"type":"Feature","geometry":{"type":"Point","coordinates":`+q+`},"properties":{}}`)
			}
			out = append(out, `{"type":"FeatureCollection","features":[`+strings.Join(fs, ",")+`]}`)
		}
	}
	return out
}

func dropCount(a string) string {
	i := strings.Index(a, " n=")
	j := strings.Index(a, "|")
	if i < 0 || j < i {
		return a
	}
	return a[:i] + a[j:]
}

func familyIndex(name string) int {
	for i, f := range families {
		if f.name == name {
			return i
		}
	}
	panic("no family " + name)
}
