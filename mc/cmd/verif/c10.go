package main

import (
	"fmt"
	"math"
	"strings"

	"github.com/tidwall/geojson"
	"github.com/tidwall/geojson/geometry"
	"verif/mc/rt"
)

// C10 — collections answer as the composition of their children, indexed or not.
//
// State space: child sequences (BFS over AddChild) for each of the five
// collection kinds; each realised by its constructor and, when every child
// is parseable, by Parse under child-index thresholds {0,1,n,n+1,64}.

func init() { register("C10", runC10, evalC10) }

type c10child struct {
	name string
	o    func() geojson.Object
}

func gpt(x, y float64) geometry.Point { return geometry.Point{X: x, Y: y} }

var (
	c10L1 = []geometry.Point{gpt(-1, -1), gpt(1, 1)}
	c10L2 = []geometry.Point{gpt(-1, 1), gpt(1, 1)}
	c10L3 = []geometry.Point{gpt(0, 0), gpt(0.5, 0)}
	c10G1 = []geometry.Point{gpt(-1, -1), gpt(0, -1), gpt(0, 0), gpt(-1, 0), gpt(-1, -1)}
	c10G2 = []geometry.Point{gpt(-1, -1), gpt(1, -1), gpt(1, 1), gpt(-1, -1)}
	c10G3 = []geometry.Point{gpt(0, 0), gpt(1, 0), gpt(1, 1), gpt(0, 1), gpt(0, 0)}
)

var c10Alphabet = []c10child{
	{"P(0,0)", func() geojson.Object { return geojson.NewPoint(gpt(0, 0)) }},
	{"P(1,1)", func() geojson.Object { return geojson.NewPoint(gpt(1, 1)) }},
	{"L1", func() geojson.Object { return geojson.NewLineString(geometry.NewLine(c10L1, nil)) }},
	{"L2", func() geojson.Object { return geojson.NewLineString(geometry.NewLine(c10L2, nil)) }},
	{"G1", func() geojson.Object { return geojson.NewPolygon(geometry.NewPoly(c10G1, nil, nil)) }},
	{"G2", func() geojson.Object { return geojson.NewPolygon(geometry.NewPoly(c10G2, nil, nil)) }},
	{"emptyLine", func() geojson.Object { return geojson.NewLineString(geometry.NewLine(nil, nil)) }},
	{"emptyGC", func() geojson.Object { return geojson.NewGeometryCollection(nil) }},
	{"nestedGC[P(1,1),L1]", func() geojson.Object {
		return geojson.NewGeometryCollection([]geojson.Object{geojson.NewPoint(gpt(1, 1)), geojson.NewLineString(geometry.NewLine(c10L1, nil))})
	}},
	{"F(G3)", func() geojson.Object {
		return geojson.NewFeature(geojson.NewPolygon(geometry.NewPoly(c10G3, nil, nil)), `{"id":3}`)
	}},
	{"Lhuge", func() geojson.Object {
		return geojson.NewLineString(geometry.NewLine([]geometry.Point{gpt(1e308, 0), gpt(1.25e308, 0)}, nil))
	}},
	// circles with few steps: the polygon has no vertex at the cardinal bearings, its rectangle is smaller than the disc's
	{"Circle6", func() geojson.Object { return geojson.NewCircle(gpt(0.5, 0.5), 60000, 6) }},
	{"Circle3", func() geojson.Object { return geojson.NewCircle(gpt(-0.5, 0.25), 90000, 3) }},
}

// probes: objects of every kind
func c10Probes() []geojson.Object {
	sq := func(x0, y0, x1, y1 float64) *geometry.Poly {
		return geometry.NewPoly([]geometry.Point{gpt(x0, y0), gpt(x1, y0), gpt(x1, y1), gpt(x0, y1), gpt(x0, y0)}, nil, nil)
	}
	out := []geojson.Object{
		geojson.NewPoint(gpt(0, 0)), geojson.NewPoint(gpt(1, 1)), geojson.NewPoint(gpt(0.5, 0.5)), geojson.NewPoint(gpt(-0.5, -0.5)), geojson.NewPoint(gpt(5, 5)),
		geojson.NewSimplePoint(gpt(1, 1)),
		geojson.NewRect(geometry.Rect{Min: gpt(-2, -2), Max: gpt(2, 2)}), geojson.NewRect(geometry.Rect{Min: gpt(-1, -1), Max: gpt(0, 0)}), geojson.NewRect(geometry.Rect{Min: gpt(0.25, 0.25), Max: gpt(0.75, 0.75)}), geojson.NewRect(geometry.Rect{Min: gpt(3, 3), Max: gpt(4, 4)}),
		geojson.NewLineString(geometry.NewLine(c10L1, nil)), geojson.NewLineString(geometry.NewLine([]geometry.Point{gpt(-1, -1), gpt(0, 0)}, nil)), geojson.NewLineString(geometry.NewLine([]geometry.Point{gpt(-2, 0.5), gpt(2, 0.5)}, nil)),
		geojson.NewPolygon(sq(-2, -2, 2, 2)), geojson.NewPolygon(sq(-1, -1, 0, 0)), geojson.NewPolygon(sq(0, 0, 1, 1)), geojson.NewPolygon(geometry.NewPoly(c10G2, nil, nil)),
		geojson.NewFeature(geojson.NewPolygon(sq(-2, -2, 2, 2)), ""), geojson.NewFeature(geojson.NewPoint(gpt(0, 0)), ""),
		geojson.NewMultiPoint([]geometry.Point{gpt(0, 0), gpt(1, 1)}), geojson.NewMultiPoint(nil),
		geojson.NewMultiLineString([]*geometry.Line{geometry.NewLine(c10L1, nil), geometry.NewLine(nil, nil)}),
		geojson.NewMultiPolygon([]*geometry.Poly{sq(-2, -2, 2, 2), sq(3, 3, 4, 4)}),
		geojson.NewGeometryCollection([]geojson.Object{geojson.NewPoint(gpt(0, 0)), geojson.NewLineString(geometry.NewLine(nil, nil))}),
		geojson.NewGeometryCollection(nil),
		geojson.NewFeatureCollection([]geojson.Object{geojson.NewFeature(geojson.NewPolygon(sq(-2, -2, 2, 2)), "")}),
		geojson.NewFeature(geojson.NewGeometryCollection([]geojson.Object{geojson.NewPoint(gpt(0, 0)), geojson.NewPoint(gpt(1, 1))}), ""),
		geojson.NewLineString(geometry.NewLine(nil, nil)),
		geojson.NewCircle(gpt(0, 0), 300000, 64), geojson.NewCircle(gpt(5, 5), 10000, 64), geojson.NewCircle(gpt(0.5, 0.5), 60000, 12),
		// coordinates near the top of the float64 range (sums overflow)
		geojson.NewLineString(geometry.NewLine([]geometry.Point{gpt(1e308, 0), gpt(1.25e308, 0)}, nil)),
		geojson.NewPolygon(sq(-1.5e308, -1.5e308, 1.5e308, 1.5e308)),
		geojson.NewPoint(gpt(1.1e308, 0)),
		// nested collections as arguments: a part that is not contained inside an inner collection, followed by one that is
		geojson.NewGeometryCollection([]geojson.Object{geojson.NewMultiPoint([]geometry.Point{gpt(5, 5)}), geojson.NewPoint(gpt(0, 0))}),
		geojson.NewGeometryCollection([]geojson.Object{geojson.NewMultiPoint([]geometry.Point{gpt(0, 0)}), geojson.NewPoint(gpt(5, 5))}),
		geojson.NewGeometryCollection([]geojson.Object{geojson.NewGeometryCollection([]geojson.Object{geojson.NewPoint(gpt(5, 5)), geojson.NewPoint(gpt(1, 1))}), geojson.NewGeometryCollection(nil), geojson.NewPoint(gpt(0, 0))}),
		geojson.NewFeatureCollection([]geojson.Object{geojson.NewGeometryCollection([]geojson.Object{geojson.NewLineString(geometry.NewLine([]geometry.Point{gpt(3, 3), gpt(4, 4)}, nil)), geojson.NewPoint(gpt(1, 1))}), geojson.NewFeature(geojson.NewPoint(gpt(0, 0)), "")}),
		geojson.NewGeometryCollection([]geojson.Object{geojson.NewMultiPolygon([]*geometry.Poly{sq(3, 3, 4, 4), sq(-1, -1, 0, 0)}), geojson.NewPoint(gpt(-0.5, -0.5))}),
	}
	return out
}

// isCollection: a collection, or a Feature that answers as one (C09 transparency).
func isCollection(o geojson.Object) bool {
	for {
		f, ok := o.(*geojson.Feature)
		if !ok {
			break
		}
		o = f.Base()
	}
	_, ok := o.(geojson.Collection)
	return ok
}

func partsOf(x geojson.Object) []geojson.Object {
	var ps []geojson.Object
	x.ForEach(func(g geojson.Object) bool { ps = append(ps, g); return true })
	return ps
}

// modelParts: the parts ForEach must yield, in order: a collection yields
// its children's parts, every other object (a Feature included) itself.
func modelParts(o geojson.Object) []geojson.Object {
	if c, ok := o.(geojson.Collection); ok {
		var out []geojson.Object
		for _, k := range c.Children() {
			out = append(out, modelParts(k)...)
		}
		return out
	}
	return []geojson.Object{o}
}

func unionRect(a, b geometry.Rect) geometry.Rect {
	if b.Min.X < a.Min.X {
		a.Min.X = b.Min.X
	}
	if b.Min.Y < a.Min.Y {
		a.Min.Y = b.Min.Y
	}
	if b.Max.X > a.Max.X {
		a.Max.X = b.Max.X
	}
	if b.Max.Y > a.Max.Y {
		a.Max.Y = b.Max.Y
	}
	return a
}

var c10Queries = func() []geometry.Rect {
	vals := []float64{-3, -1, -0.5, 0, 0.5, 1, 3}
	var out []geometry.Rect
	for i, x0 := range vals {
		for _, x1 := range vals[i:] {
			for j, y0 := range vals {
				for _, y1 := range vals[j:] {
					if (x0 == x1) == (y0 == y1) || x0 == -3 {
						out = append(out, geometry.Rect{Min: gpt(x0, y0), Max: gpt(x1, y1)})
					}
				}
			}
		}
	}
	// query rectangles without bounds on some or all sides ("everything", half
	// planes, strips, quadrants) and the inverted whole-plane rectangle
	inf := math.Inf(1)
	for _, x0 := range []float64{-inf, -3} {
		for _, y0 := range []float64{-inf, -3} {
			for _, x1 := range []float64{inf, 3, 0} {
				for _, y1 := range []float64{inf, 3, 0} {
					if x0 == -inf || y0 == -inf || x1 == inf || y1 == inf {
						out = append(out, geometry.Rect{Min: gpt(x0, y0), Max: gpt(x1, y1)})
					}
				}
			}
		}
	}
	out = append(out, geometry.Rect{Min: gpt(inf, inf), Max: gpt(-inf, -inf)}, geometry.Rect{Min: gpt(inf, -inf), Max: gpt(inf, inf)}, geometry.Rect{Min: gpt(-inf, -inf), Max: gpt(-inf, -inf)})
	return out
}()

// c10Check compares one realised collection with the composition model.
// expectJSON are the expected children (document order). Returns the first
// discrepancy.
// c10Check returns every mismatch (structural ones end the check; predicate
// mismatches are all collected so that a listed one cannot hide another).
func c10Check(coll geojson.Object, expectChildren []string, probes []geojson.Object, queries []geometry.Rect, w *rt.Worker) (fails [][3]string) {
	defer func() {
		if r := recover(); r != nil {
			fails = append(fails, [3]string{"panic", "no panic", fmt.Sprint(r)})
		}
	}()
	c := coll.(geojson.Collection)
	ch := c.Children()
	if len(ch) != len(expectChildren) {
		return [][3]string{{"children-count", fmt.Sprint(len(expectChildren)), fmt.Sprint(len(ch))}}
	}
	for i := range ch {
		if ch[i].JSON() != expectChildren[i] {
			return [][3]string{{"children-order", expectChildren[i], ch[i].JSON()}}
		}
	}
	// empty / rect / count
	empty := true
	var rect geometry.Rect
	npts := 0
	first := true
	for _, k := range ch {
		npts += k.NumPoints()
		if k.Empty() {
			continue
		}
		empty = false
		if first {
			rect, first = k.Rect(), false
		} else {
			rect = unionRect(rect, k.Rect())
		}
	}
	w.Evals += 3
	if coll.Empty() != empty {
		return [][3]string{{"empty", fmt.Sprint(empty), fmt.Sprint(coll.Empty())}}
	}
	if !empty && coll.Rect() != rect {
		return [][3]string{{"rect", fmt.Sprint(rect), fmt.Sprint(coll.Rect())}}
	}
	if coll.NumPoints() != npts {
		return [][3]string{{"numpoints", fmt.Sprint(npts), fmt.Sprint(coll.NumPoints())}}
	}
	// iteration: parts in document order, early stop honoured at every position
	want := modelParts(coll)
	var gotParts []geojson.Object
	full := coll.ForEach(func(g geojson.Object) bool { gotParts = append(gotParts, g); return true })
	w.Evals++
	if !full || len(gotParts) != len(want) {
		return [][3]string{{"foreach", fmt.Sprintf("%d parts, returns true", len(want)), fmt.Sprintf("%d parts, returns %v", len(gotParts), full)}}
	}
	for i := range want {
		if gotParts[i] != want[i] {
			return [][3]string{{"foreach-order", want[i].JSON(), gotParts[i].JSON()}}
		}
	}
	for stop := 1; stop <= len(want); stop++ {
		calls := 0
		ret := coll.ForEach(func(geojson.Object) bool { calls++; return calls != stop })
		w.Evals++
		if calls != stop || ret {
			return [][3]string{{"foreach-early-stop", fmt.Sprintf("%d callbacks, returns false", stop), fmt.Sprintf("%d callbacks, returns %v", calls, ret)}}
		}
	}
	// search
	for _, q := range queries {
		var want []geojson.Object
		for _, k := range ch {
			if !k.Empty() && k.Rect().IntersectsRect(q) {
				want = append(want, k)
			}
		}
		seen := map[geojson.Object]int{}
		calls := 0
		c.Search(q, func(k geojson.Object) bool { calls++; seen[k]++; return true })
		w.Evals++
		if calls != len(want) {
			return [][3]string{{"search-count", fmt.Sprintf("%d children for %v", len(want), q), fmt.Sprint(calls)}}
		}
		cnt := map[geojson.Object]int{}
		for _, k := range want {
			cnt[k]++
		}
		for k, n := range cnt {
			if seen[k] != n {
				return [][3]string{{"search-set", fmt.Sprintf("child %s x%d for %v", k.JSON(), n, q), fmt.Sprintf("x%d", seen[k])}}
			}
		}
		for stop := 1; stop <= len(want); stop++ {
			calls = 0
			c.Search(q, func(k geojson.Object) bool { calls++; return calls != stop })
			w.Evals++
			if calls != stop {
				return [][3]string{{"search-early-stop", fmt.Sprintf("%d callbacks", stop), fmt.Sprint(calls)}}
			}
		}
	}
	// predicates: every probe is evaluated; all mismatches are reported (a listed
	// one must not hide another probe's). The probes are followed by the
	// collection's own children (the very objects, up to 6) and the collection
	// itself: identity must not matter.
	own := append([]geojson.Object{}, ch...)
	if len(own) > 6 {
		own = own[:6]
	}
	all := append(append(append([]geojson.Object{}, probes...), own...), coll)
	nPlain := len(all)
	// and every probe once more inside a caller-side wrapper type (an Object
	// implemented outside the library): it answers as what it wraps
	for _, x := range probes {
		all = append(all, wrapped{x, "tag"})
	}
	for pi, x := range all {
		parts := partsOf(x)
		mi, mc := false, false
		anyPart := false
		allContained := true
		for _, p := range parts {
			if p.Empty() {
				continue
			}
			anyPart = true
			contained := false
			for _, k := range ch {
				if k.Empty() {
					continue
				}
				if k.Intersects(p) {
					mi = true
				}
				if k.Contains(p) {
					contained = true
				}
			}
			if !contained {
				allContained = false
			}
		}
		mc = anyPart && allContained
		w.Evals += 2
		if pi >= nPlain {
			// wrapper: the model is what the library answers for the wrapped object itself
			inner := x.(wrapped).Object
			if gi, gc := coll.Intersects(x), coll.Contains(x); gi != coll.Intersects(inner) || gc != coll.Contains(inner) {
				fails = append(fails, [3]string{fmt.Sprintf("wrapped(probe %d)", pi-nPlain), fmt.Sprintf("as for the wrapped object: intersects=%v contains=%v", coll.Intersects(inner), coll.Contains(inner)), fmt.Sprintf("intersects=%v contains=%v", gi, gc)})
			}
			w.Evals += 2
			continue
		}
		if g := coll.Intersects(x); g != mi {
			fails = append(fails, [3]string{fmt.Sprintf("intersects(probe %d)", pi), fmt.Sprintf("%v: some non-empty child intersects some non-empty part of %s", mi, x.JSON()), fmt.Sprint(g)})
		}
		if g := coll.Contains(x); g != mc {
			fails = append(fails, [3]string{fmt.Sprintf("contains(probe %d)", pi), fmt.Sprintf("%v: every non-empty part of %s contained by some child", mc, x.JSON()), fmt.Sprint(g)})
		}
		if !isCollection(x) {
			mw := !empty
			for _, k := range ch {
				if !k.Within(x) {
					mw = false
				}
			}
			w.Evals++
			if g := coll.Within(x); g != mw {
				fails = append(fails, [3]string{fmt.Sprintf("within(probe %d)", pi), fmt.Sprintf("%v: non-empty and every child within %s", mw, x.JSON()), fmt.Sprint(g)})
			}
			// the collection's Spatial interface given the probe's raw geometry
			if bg := baseGeometry(x); bg != nil {
				sw, si, ok := spatialAnswers(coll, bg)
				w.Evals += 2
				// where an extent is wider than MaxFloat64 the two entry points of a
				// leaf (object level, Spatial) disagree among themselves (differences
				// overflow, the answer depends on operand order): there the model is
				// composed from the children's own Spatial answers, so that only the
				// wrapper is judged. Everywhere else the object-level model stands.
				cw, ci := !empty, false
				for _, k := range ch {
					if k.Empty() {
						cw = false
						continue
					}
					kw, ki, kok := spatialAnswers(k, bg)
					if !kok {
						ok = false
						break
					}
					cw, ci = cw && kw, ci || ki
				}
				if ok && (cw != mw || ci != mi) && (extentOverflows(coll.Rect()) || extentOverflows(x.Rect())) {
					mw, mi = cw, ci
				}
				if ok && (sw != mw || si != mi) {
					fails = append(fails, [3]string{fmt.Sprintf("spatial-interface(probe %d)", pi), fmt.Sprintf("within=%v intersects=%v for %s", mw, mi, x.JSON()), fmt.Sprintf("Spatial(): within=%v intersects=%v", sw, si)})
				}
			}
		}
	}
	return fails
}

// baseGeometry: the raw geometry of a leaf probe object (nil for anything else).
func baseGeometry(x geojson.Object) geometry.Geometry {
	switch v := x.(type) {
	case *geojson.Point:
		return v.Base()
	case *geojson.SimplePoint:
		return v.Base()
	case *geojson.Rect:
		return v.Base()
	case *geojson.LineString:
		if v.Empty() {
			return nil
		}
		return v.Base()
	case *geojson.Polygon:
		if v.Empty() {
			return nil
		}
		return v.Base()
	}
	return nil
}

type c10kind struct {
	name  string
	alpha []string
	build func(seq []int) (geojson.Object, []string, bool) // object, expected children JSON, parseable
}

func c10Kinds() []c10kind {
	gen := func(fc bool) func(seq []int) (geojson.Object, []string, bool) {
		return func(seq []int) (geojson.Object, []string, bool) {
			var ch []geojson.Object
			var js []string
			ok := true
			for _, i := range seq {
				o := c10Alphabet[i].o()
				ch = append(ch, o)
				js = append(js, o.JSON())
				if i == 6 {
					ok = false // an empty LineString cannot be written as a parseable document
				}
			}
			if fc {
				return geojson.NewFeatureCollection(ch), js, ok
			}
			return geojson.NewGeometryCollection(ch), js, ok
		}
	}
	var names []string
	for _, a := range c10Alphabet {
		names = append(names, a.name)
	}
	mpA := []geometry.Point{gpt(0, 0), gpt(1, 1), gpt(0, 0), gpt(-1, 0.5)}
	mlA := [][]geometry.Point{c10L1, c10L2, c10L3, nil}
	mgA := [][]geometry.Point{c10G1, c10G2, c10G3, nil}
	return []c10kind{
		{"GeometryCollection", names, gen(false)},
		{"FeatureCollection", names, gen(true)},
		{"MultiPoint", []string{"(0,0)", "(1,1)", "(0,0)dup", "(-1,0.5)"}, func(seq []int) (geojson.Object, []string, bool) {
			var ps []geometry.Point
			var js []string
			for _, i := range seq {
				ps = append(ps, mpA[i])
				js = append(js, geojson.NewPoint(mpA[i]).JSON())
			}
			return geojson.NewMultiPoint(ps), js, true
		}},
		{"MultiLineString", []string{"L1", "L2", "L3", "empty"}, func(seq []int) (geojson.Object, []string, bool) {
			var ls []*geometry.Line
			var js []string
			ok := true
			for _, i := range seq {
				l := geometry.NewLine(mlA[i], nil)
				ls = append(ls, l)
				js = append(js, geojson.NewLineString(l).JSON())
				if i == 3 {
					ok = false
				}
			}
			return geojson.NewMultiLineString(ls), js, ok
		}},
		{"MultiPolygon", []string{"G1", "G2", "G3", "empty"}, func(seq []int) (geojson.Object, []string, bool) {
			var gs []*geometry.Poly
			var js []string
			ok := true
			for _, i := range seq {
				g := geometry.NewPoly(mgA[i], nil, nil)
				gs = append(gs, g)
				js = append(js, geojson.NewPolygon(g).JSON())
				if i == 3 {
					ok = false
				}
			}
			return geojson.NewMultiPolygon(gs), js, ok
		}},
	}
}

// Collections whose parts are wider (or taller) than MaxFloat64 although every
// ordinate is finite (Max - Min overflows; Min + Max does not): children and
// probes with extreme ordinates of opposite sign on one axis.
func c10WideKinds() []c10kind {
	sq := func(x0, y0, x1, y1 float64) *geometry.Poly {
		return geometry.NewPoly([]geometry.Point{gpt(x0, y0), gpt(x1, y0), gpt(x1, y1), gpt(x0, y1), gpt(x0, y0)}, nil, nil)
	}
	polys := []*geometry.Poly{sq(-1.2e308, -1, 1.2e308, 1), sq(-1, -1.2e308, 1, 1.2e308), sq(-1, -1, 0, 0)}
	objs := []func() geojson.Object{
		func() geojson.Object { return geojson.NewPolygon(polys[0]) },
		func() geojson.Object { return geojson.NewPolygon(polys[1]) },
		func() geojson.Object {
			return geojson.NewRect(geometry.Rect{Min: gpt(-1.2e308, -1), Max: gpt(1.2e308, 1)})
		},
		func() geojson.Object {
			return geojson.NewLineString(geometry.NewLine([]geometry.Point{gpt(-math.MaxFloat64, 0), gpt(1, 0.5)}, nil))
		},
		func() geojson.Object { return geojson.NewPoint(gpt(0, 0)) },
	}
	names := []string{"Gwide", "Gtall", "Rwide", "Lwide", "P(0,0)"}
	gen := func(fc bool) func(seq []int) (geojson.Object, []string, bool) {
		return func(seq []int) (geojson.Object, []string, bool) {
			var ch []geojson.Object
			var js []string
			for _, i := range seq {
				o := objs[i]()
				ch = append(ch, o)
				js = append(js, o.JSON())
			}
			if fc {
				return geojson.NewFeatureCollection(ch), js, true
			}
			return geojson.NewGeometryCollection(ch), js, true
		}
	}
	return []c10kind{
		{"GeometryCollection/wide", names, gen(false)},
		{"FeatureCollection/wide", names, gen(true)},
		{"MultiPolygon/wide", []string{"Gwide", "Gtall", "G1"}, func(seq []int) (geojson.Object, []string, bool) {
			var gs []*geometry.Poly
			var js []string
			for _, i := range seq {
				gs = append(gs, polys[i])
				js = append(js, geojson.NewPolygon(polys[i]).JSON())
			}
			return geojson.NewMultiPolygon(gs), js, true
		}},
	}
}

func c10WideProbes() []geojson.Object {
	sq := func(x0, y0, x1, y1 float64) *geometry.Poly {
		return geometry.NewPoly([]geometry.Point{gpt(x0, y0), gpt(x1, y0), gpt(x1, y1), gpt(x0, y1), gpt(x0, y0)}, nil, nil)
	}
	wl := geojson.NewLineString(geometry.NewLine([]geometry.Point{gpt(-1e308, 0), gpt(1e308, 0.5)}, nil))
	wr := geojson.NewRect(geometry.Rect{Min: gpt(-1e308, 0), Max: gpt(1e308, 0.5)})
	return []geojson.Object{
		wr, wl, geojson.NewPolygon(sq(-1e308, 0, 1e308, 0.5)), geojson.NewFeature(wl, ""),
		geojson.NewGeometryCollection([]geojson.Object{geojson.NewPoint(gpt(0, 0)), wr}),
		geojson.NewRect(geometry.Rect{Min: gpt(0, -1e308), Max: gpt(0.5, 1e308)}),
		geojson.NewPolygon(sq(-1.2e308, -1, 1.2e308, 1)), geojson.NewPolygon(sq(-1.5e308, -1.5e308, 1.5e308, 1.5e308)),
		geojson.NewLineString(geometry.NewLine([]geometry.Point{gpt(-math.MaxFloat64, 0), gpt(1, 0.5)}, nil)),
		geojson.NewMultiPoint([]geometry.Point{gpt(-1e308, 0), gpt(1e308, 0)}),
		geojson.NewPoint(gpt(0, 0)), geojson.NewPoint(gpt(1.1e308, 0)), geojson.NewPoint(gpt(5, 5)),
		geojson.NewRect(geometry.Rect{Min: gpt(-0.5, -0.5), Max: gpt(0, 0)}),
		geojson.NewMultiPolygon([]*geometry.Poly{sq(-1e308, 0, 1e308, 0.5), sq(-1, -1, 0, 0)}),
	}
}

func extentOverflows(r geometry.Rect) bool {
	return math.IsInf(r.Max.X-r.Min.X, 0) || math.IsInf(r.Max.Y-r.Min.Y, 0)
}

func c10Thresholds(n int) []int {
	out := []int{0, 1}
	for _, t := range []int{n, n + 1, 64} {
		dup := false
		for _, o := range out {
			if o == t {
				dup = true
			}
		}
		if !dup && t > 0 {
			out = append(out, t)
		}
	}
	return out
}

// c10Sequence checks one child sequence of one kind under every realisation.
func c10Sequence(k c10kind, seq []int, probes []geojson.Object, w *rt.Worker, emit func(class string, c rt.Case, exp, got string)) {
	coll, js, parseable := k.build(seq)
	w.States++
	w.Trans += int64(len(seq))
	mk := func(cfg string) rt.Case {
		ops := make([]string, len(seq))
		for i, s := range seq {
			ops[i] = k.alpha[s]
		}
		return rt.Case{Kind: "collection", Op: k.name, Ops: ops, Cfg: cfg, X: map[string]string{"seq": fmt.Sprint(seq)}}
	}
	for _, f := range c10Check(coll, js, probes, c10Queries, w) {
		emit("compose-"+k.name+"-"+f[0], mk("constructor"), f[1], f[2])
	}
	if !parseable {
		return
	}
	text := coll.JSON()
	nonEmpty := 0
	for _, c := range coll.(geojson.Collection).Children() {
		if !c.Empty() {
			nonEmpty++
		}
	}
	for _, t := range c10Thresholds(len(seq)) {
		o, err := geojson.Parse(text, &geojson.ParseOptions{IndexChildren: t, IndexGeometry: 64, IndexGeometryKind: geometry.QuadTree})
		if err != nil {
			emit("parse-"+k.name, mk(fmt.Sprintf("parse/idx%d", t)), "own JSON accepted", err.Error())
			return
		}
		w.States++
		idx := o.(geojson.Collection).Indexed()
		if wantIdx := t != 0 && nonEmpty > 0 && nonEmpty >= t; idx != wantIdx {
			emit("indexed-"+k.name, mk(fmt.Sprintf("parse/idx%d", t)), fmt.Sprintf("indexed=%v (non-empty children %d, threshold %d)", wantIdx, nonEmpty, t), fmt.Sprint(idx))
		}
		// children of a parsed collection re-serialise to the same JSON
		for _, f := range c10Check(o, js, probes, c10Queries, w) {
			emit("compose-"+k.name+"-"+f[0], mk(fmt.Sprintf("parse/idx%d", t)), f[1], f[2])
		}
	}
}

func forSeqs(n, minLen, maxLen int, fn func(seq []int)) {
	var rec func(seq []int)
	rec = func(seq []int) {
		if len(seq) >= minLen {
			fn(seq)
		}
		if len(seq) == maxLen {
			return
		}
		for i := 0; i < n; i++ {
			rec(append(seq, i))
		}
	}
	rec(nil)
}

func runC10(r *rt.Run) {
	depth, mdepth := 3, 4
	if r.Thorough() {
		depth, mdepth = 4, 5
	}
	r.Bounds["child_sequence_depth"] = map[string]int{"GeometryCollection/FeatureCollection (alphabet 10)": depth, "Multi* (alphabet 4)": mdepth}
	r.Bounds["thresholds"] = "IndexChildren in {0, 1, n, n+1, 64} through Parse; constructor (64)"
	r.Rule = "every child sequence up to the depth for the five collection kinds (alphabet: two points, two lines, two polygons, empty line, empty collection, nested collection, feature, a line at 1e308, circles of 6 and 3 steps; duplicates occur as repeated letters), realised by constructor and by Parse under each child-index threshold; large families of 31..1025 children (grid, cluster + outlier, duplicates, mixed with empty children, non-empty Multi* / nested / Feature children holding empty members); probes: 28 objects of every kind incl. empties and nested collections x 3 predicates (and the collection's Spatial interface given each leaf probe's raw geometry), ~170 query rectangles x every stop position; oracle = the statement evaluated over the real children; non-trivial = at least one non-empty child"
	r.Assume = []string{"leaf answers (child vs part) are taken from the real code: this check isolates wrapper / index logic", "within is checked for non-collection X; for collection X it is X's contains clause (duality)"}
	probes := c10Probes()
	r.Bounds["probes"] = len(probes)
	r.Bounds["query_rects"] = len(c10Queries)
	type job struct {
		k   c10kind
		seq []int
	}
	var jobs []job
	for _, k := range c10Kinds() {
		d := depth
		if len(k.alpha) == 4 {
			d = mdepth
		}
		forSeqs(len(k.alpha), 0, d, func(seq []int) { jobs = append(jobs, job{k, append([]int(nil), seq...)}) })
	}
	r.Bounds["sequences"] = len(jobs)
	r.ParFor(len(jobs), func(i int, w *rt.Worker) {
		j := jobs[i]
		for _, s := range j.seq {
			if !(j.k.name == "GeometryCollection" || j.k.name == "FeatureCollection") || (s != 6 && s != 7) {
				w.Nontriv++
				break
			}
		}
		w.Outcome(j.k.name)
		c10Sequence(j.k, j.seq, probes, w, func(class string, c rt.Case, exp, got string) {
			w.Fail(class, func() (rt.Case, string, string) { return c, exp, got })
		})
	})
	// parts wider than MaxFloat64
	{
		wp := c10WideProbes()
		var wjobs []job
		for _, k := range c10WideKinds() {
			forSeqs(len(k.alpha), 1, 3, func(seq []int) { wjobs = append(wjobs, job{k, append([]int(nil), seq...)}) })
		}
		r.Bounds["wide_part_sequences"] = len(wjobs)
		r.ParFor(len(wjobs), func(i int, w *rt.Worker) {
			w.Nontriv++
			c10Sequence(wjobs[i].k, wjobs[i].seq, wp, w, func(class string, c rt.Case, exp, got string) {
				w.Fail(class, func() (rt.Case, string, string) { return c, exp, got })
			})
		})
	}
	// large families
	sizes := []int{31, 32, 33, 34, 64, 65, 200}
	if r.Thorough() {
		sizes = append(sizes, 1025)
	}
	r.Bounds["family_sizes"] = sizes
	type fjob struct {
		fam  string
		n    int
		kind int
	}
	var fjobs []fjob
	for _, f := range []string{"grid", "cluster", "duplicates", "mixed+empties", "nested-empty-members"} {
		for _, n := range sizes {
			for kind := 0; kind < 2; kind++ {
				if f == "nested-empty-members" && kind == 0 {
					continue
				}
				fjobs = append(fjobs, fjob{f, n, kind})
			}
		}
	}
	// cells in the order of their west sides, ordinates in thirds / sevenths /
	// tenths / thirteenths, the wide cell at every position
	for _, n := range []int{16, 33} {
		for _, den := range []int{3, 7, 10, 13} {
			for wide := 0; wide < n; wide++ {
				fjobs = append(fjobs, fjob{fmt.Sprintf("cells:%d:%d", den, wide), n, 1})
				if den == 10 {
					fjobs = append(fjobs, fjob{fmt.Sprintf("cells-descending:%d:%d", den, wide), n, 1})
				}
			}
		}
	}
	r.Bounds["cell_families"] = "16 and 33 cells x denominators 3, 7, 10, 13 x every position of the wide cell (tenths also in descending order)"
	r.ParFor(len(fjobs), func(i int, w *rt.Worker) {
		j := fjobs[i]
		c10Family(j.fam, j.n, j.kind, probes, w, func(class string, c rt.Case, exp, got string) {
			w.Fail(class, func() (rt.Case, string, string) { return c, exp, got })
		})
	})
	r.Sample(rt.Case{Kind: "collection", Op: "GeometryCollection", Ops: []string{"P(0,0)", "emptyLine", "nestedGC[P(1,1),L1]"}, Cfg: "constructor"})
	r.Sample(rt.Case{Kind: "collection", Op: "MultiPoint", Ops: []string{"(0,0)", "(0,0)dup", "(1,1)"}, Cfg: "parse/idx3"})
}

// c10Family: many children (kind 0 = MultiPoint, 1 = GeometryCollection).
func c10Family(fam string, n, kind int, probes []geojson.Object, w *rt.Worker, emit func(class string, c rt.Case, exp, got string)) {
	pt := func(i int) geometry.Point {
		switch fam {
		case "grid":
			return gpt(float64(i%9)*0.25-1, float64(i/9)*0.25-1)
		case "cluster":
			if i == n/2 {
				return gpt(100, 100)
			}
			return gpt(float64(i%3)*1e-6, float64(i%5)*1e-6)
		case "duplicates":
			return gpt(0.5, 0.5)
		}
		return gpt(float64(i%7)*0.5-1.5, float64(i%4)*0.5-1)
	}
	var coll geojson.Object
	var js []string
	parseable := true
	if kind == 0 {
		var ps []geometry.Point
		for i := 0; i < n; i++ {
			ps = append(ps, pt(i))
			js = append(js, geojson.NewPoint(pt(i)).JSON())
		}
		coll = geojson.NewMultiPoint(ps)
	} else {
		var ch []geojson.Object
		for i := 0; i < n; i++ {
			var o geojson.Object
			switch {
			case fam == "mixed+empties" && i%5 == 0:
				// children that occupy no space: without positions, and (every other
				// one) with positions that still count - a line of one position, a
				// polygon whose ring has two
				switch (i / 5) % 4 {
				case 1:
					o = geojson.NewLineString(geometry.NewLine([]geometry.Point{pt(i)}, nil))
				case 3:
					o = geojson.NewPolygon(geometry.NewPoly([]geometry.Point{pt(i), pt(i + 1)}, nil, nil))
				default:
					o = geojson.NewLineString(geometry.NewLine(nil, nil))
				}
				parseable = false
			case fam == "nested-empty-members" && i%11 == 3:
				// non-empty Multi* children that themselves hold an empty member (constructor-only)
				o = geojson.NewMultiLineString([]*geometry.Line{geometry.NewLine([]geometry.Point{pt(i), pt(i + 1)}, nil), geometry.NewLine(nil, nil)})
				parseable = false
			case fam == "nested-empty-members" && i%11 == 7:
				p := pt(i)
				sq := geometry.NewPoly([]geometry.Point{p, gpt(p.X+0.125, p.Y), gpt(p.X+0.125, p.Y+0.125), p}, nil, nil)
				o = geojson.NewMultiPolygon([]*geometry.Poly{sq, geometry.NewPoly(nil, nil, nil)})
			case fam == "nested-empty-members" && i%13 == 5:
				o = geojson.NewGeometryCollection([]geojson.Object{geojson.NewPoint(pt(i)), geojson.NewMultiLineString([]*geometry.Line{geometry.NewLine(pt2(pt(i), pt(i+2)), nil), geometry.NewLine(pt2(pt(i), pt(i))[:1], nil)})})
			case fam == "nested-empty-members" && i%17 == 2:
				p := pt(i)
				sq := geometry.NewPoly([]geometry.Point{p, gpt(p.X+0.125, p.Y), gpt(p.X+0.125, p.Y+0.125), p}, nil, nil)
				o = geojson.NewFeature(geojson.NewMultiPolygon([]*geometry.Poly{geometry.NewPoly([]geometry.Point{p, p}, nil, nil), sq}), `{"id":1}`)
			case strings.HasPrefix(fam, "cells"):
				// cells with ordinates that are not dyadic (multiples of 1/den) in
				// document order of their west side (or the reverse), two units
				// wide, the one at position `wide` seven units: lower-left corner +
				// width does not always reproduce the east side bit for bit
				var den, wide int
				desc := strings.HasPrefix(fam, "cells-descending")
				fmt.Sscanf(fam[strings.Index(fam, ":")+1:], "%d:%d", &den, &wide)
				k := i
				if desc {
					k = n - 1 - i
				}
				x0, wd := float64(k)/float64(den), 2.0
				if k == wide {
					wd = 7
				}
				x1, y0 := (float64(k)+wd)/float64(den), float64(k)
				o = geojson.NewPolygon(geometry.NewPoly([]geometry.Point{gpt(x0, y0), gpt(x1, y0), gpt(x1, y0+0.5), gpt(x0, y0+0.5), gpt(x0, y0)}, nil, nil))
			case i%3 == 1:
				o = geojson.NewLineString(geometry.NewLine([]geometry.Point{pt(i), pt(i + 1)}, nil))
			default:
				o = geojson.NewPoint(pt(i))
			}
			ch = append(ch, o)
			js = append(js, o.JSON())
		}
		coll = geojson.NewGeometryCollection(ch)
	}
	queries := c10Queries
	if strings.HasPrefix(fam, "cells") {
		// probes and query rectangles on the cells' own corners, sides and middles
		probes, queries = nil, nil
		for _, c := range coll.(geojson.Collection).Children() {
			rc := c.Rect()
			mx, my := (rc.Min.X+rc.Max.X)/2, (rc.Min.Y+rc.Max.Y)/2
			for _, q := range []geometry.Point{rc.Min, rc.Max, gpt(rc.Min.X, rc.Max.Y), gpt(rc.Max.X, rc.Min.Y), gpt(rc.Max.X, my), gpt(rc.Min.X, my), gpt(mx, my)} {
				probes = append(probes, geojson.NewPoint(q))
				queries = append(queries, geometry.Rect{Min: q, Max: q})
			}
			queries = append(queries, rc, geometry.Rect{Min: gpt(rc.Max.X, rc.Min.Y), Max: gpt(rc.Max.X+1, rc.Max.Y)}, geometry.Rect{Min: gpt(rc.Min.X-1, rc.Min.Y), Max: gpt(rc.Min.X, rc.Max.Y)})
			probes = append(probes, geojson.NewRect(geometry.Rect{Min: gpt(rc.Max.X, rc.Min.Y), Max: gpt(rc.Max.X+1, rc.Max.Y)}))
		}
	}
	mk := func(cfg string) rt.Case {
		return rt.Case{Kind: "collection", Op: "family", Cfg: cfg, X: map[string]string{"family": fam, "n": fmt.Sprint(n), "kind": fmt.Sprint(kind)}}
	}
	w.States++
	w.Trans += int64(n)
	w.Nontriv++
	nonEmpty := 0
	for _, c := range coll.(geojson.Collection).Children() {
		if !c.Empty() {
			nonEmpty++
		}
	}
	if idx := coll.(geojson.Collection).Indexed(); idx != (nonEmpty >= 64) {
		emit("indexed-family", mk("constructor"), fmt.Sprintf("indexed=%v", nonEmpty >= 64), fmt.Sprint(idx))
	}
	for _, f := range c10Check(coll, js, probes, queries, w) {
		emit("compose-family-"+f[0], mk("constructor"), f[1], f[2])
	}
	if !parseable {
		return
	}
	text := coll.JSON()
	for _, t := range c10Thresholds(n) {
		o, err := geojson.Parse(text, &geojson.ParseOptions{IndexChildren: t, IndexGeometry: 64, IndexGeometryKind: geometry.QuadTree})
		if err != nil {
			emit("parse-family", mk(fmt.Sprintf("parse/idx%d", t)), "own JSON accepted", err.Error())
			return
		}
		w.States++
		if idx := o.(geojson.Collection).Indexed(); idx != (t != 0 && nonEmpty >= t) {
			emit("indexed-family", mk(fmt.Sprintf("parse/idx%d", t)), fmt.Sprintf("indexed=%v", t != 0 && nonEmpty >= t), fmt.Sprint(idx))
		}
		for _, f := range c10Check(o, js, probes, queries, w) {
			emit("compose-family-"+f[0], mk(fmt.Sprintf("parse/idx%d", t)), f[1], f[2])
		}
	}
}

func pt2(a, b geometry.Point) []geometry.Point { return []geometry.Point{a, b} }

func evalC10(c *rt.Case) (bool, string, string, error) {
	if c.Kind != "collection" {
		return false, "", "", fmt.Errorf("not mine")
	}
	probes := c10Probes()
	var fails bool
	var e, g string
	cc := *c
	cc.Class = ""
	want := cc.Key()
	emit := func(class string, fc rt.Case, exp, got string) {
		if fc.Key() == want && (c.Class == "" || class == c.Class) {
			fails, e, g = true, exp, got
		}
	}
	w := rt.NewRun("replay").Worker()
	if c.Op == "family" {
		var n, kind int
		fmt.Sscan(c.X["n"], &n)
		fmt.Sscan(c.X["kind"], &kind)
		c10Family(c.X["family"], n, kind, probes, w, emit)
		return fails, e, g, nil
	}
	for _, k := range append(c10Kinds(), c10WideKinds()...) {
		if k.name != c.Op {
			continue
		}
		if strings.HasSuffix(k.name, "/wide") {
			probes = c10WideProbes()
		}
		var seq []int
		for _, o := range c.Ops {
			for i, a := range k.alpha {
				if a == o {
					seq = append(seq, i)
				}
			}
		}
		if len(seq) != len(c.Ops) {
			return false, "", "", fmt.Errorf("unknown child letter")
		}
		c10Sequence(k, seq, probes, w, emit)
		return fails, e, g, nil
	}
	return false, "", "", fmt.Errorf("unknown collection kind")
}
