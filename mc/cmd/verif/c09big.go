package main

import (
	"fmt"

	"github.com/tidwall/geojson"
	"github.com/tidwall/geojson/geometry"
	"verif/mc/rt"
)

// Big objects for the predicate algebra: lines and rings whose segment count
// sits on either side of the places where the library changes representation
// (index thresholds 32/64, one/two/four-byte segment numbers at 255/256 and
// 65535/65536), under the three geometry index kinds, against probes placed
// on and next to the first, last and boundary-numbered segments. All
// coordinates are dyadic (x = i/512 - 64, y in {0, 1/4, -1/4, -8}), so the
// expected answers for points are known exactly: a probe is on the zigzag
// iff it was generated on it.

var c09BigCounts = []int{33, 65, 256, 257, 258, 65536, 65537, 65538}
var c09BigKinds = []geometry.IndexKind{geometry.QuadTree, geometry.RTree, geometry.None}

func zigX(i int) float64 { return float64(i)/512 - 64 }
func zigY(i int) float64 { return float64(i%2) * 0.25 }

// bigObj builds the zigzag with n segments: shape 0 = LineString (n+1
// positions), shape 1 = Polygon whose ring runs along the zigzag and closes
// below it (n segments in all).
func bigObj(shape, n int, kind geometry.IndexKind) geojson.Object {
	opts := &geometry.IndexOptions{Kind: kind, MinPoints: 32}
	if shape == 0 {
		pts := make([]geometry.Point, n+1)
		for i := range pts {
			pts[i] = geometry.Point{X: zigX(i), Y: zigY(i)}
		}
		return geojson.NewLineString(geometry.NewLine(pts, opts))
	}
	if shape == 2 {
		// saw: flat top at y=8, teeth between y=6 and y=4 with one tooth down to
		// y=0, n segments: the bounding box is [0,m] x [0,8], so every tooth
		// bottom lies exactly on the quadtree's y midline and (m even) one
		// vertex on its x midline
		m := n - 3
		pts := []geometry.Point{{X: 0, Y: 8}, {X: float64(m), Y: 8}}
		for k := 0; k <= m; k++ {
			y := 6.0
			if k%2 == 1 {
				y = 4
				if k == (m/2)|1 {
					y = 0
				}
			}
			pts = append(pts, geometry.Point{X: float64(m - k), Y: y})
		}
		pts = append(pts, pts[0])
		return geojson.NewPolygon(geometry.NewPoly(pts, nil, opts))
	}
	// ring: zigzag positions 0..n-3, then down to y=-8 and back: n segments
	m := n - 2 // positions on the zigzag
	pts := make([]geometry.Point, 0, n+1)
	for i := 0; i < m; i++ {
		pts = append(pts, geometry.Point{X: zigX(i), Y: zigY(i)})
	}
	pts = append(pts, geometry.Point{X: zigX(m - 1), Y: -8}, geometry.Point{X: zigX(0), Y: -8}, pts[0])
	return geojson.NewPolygon(geometry.NewPoly(pts, nil, opts))
}

// zigSegs is the number of zigzag segments of the object (the ring's last
// three segments are the closing sides).
func zigSegs(shape, n int) int {
	if shape == 0 {
		return n
	}
	if shape == 2 {
		return n - 1
	}
	return n - 3
}

type bigProbe struct {
	name string
	o    geojson.Object
	onB  bool // lies on the zigzag boundary entirely (point / short line)
	isPt bool
}

// bigProbes for zigzag segment s (from position s to s+1).
func bigProbes(s int) []bigProbe {
	x0, y0, x1, y1 := zigX(s), zigY(s), zigX(s+1), zigY(s+1)
	mid := geometry.Point{X: (x0 + x1) / 2, Y: (y0 + y1) / 2}
	q1 := geometry.Point{X: x0 + (x1-x0)/4, Y: y0 + (y1-y0)/4}
	q3 := geometry.Point{X: x0 + 3*(x1-x0)/4, Y: y0 + 3*(y1-y0)/4}
	above := geometry.Point{X: mid.X, Y: 0.5}
	below := geometry.Point{X: mid.X, Y: -1}
	ln := func(a, b geometry.Point) geojson.Object {
		return geojson.NewLineString(geometry.NewLine([]geometry.Point{a, b}, nil))
	}
	return []bigProbe{
		{"mid", geojson.NewPoint(mid), true, true},
		{"mid-simple", geojson.NewSimplePoint(mid), true, true},
		{"vertex", geojson.NewPoint(geometry.Point{X: x1, Y: y1}), true, true},
		{"above", geojson.NewPoint(above), false, true},
		{"below", geojson.NewPoint(below), false, true},
		{"inside-seg", ln(q1, q3), true, false},
		{"cross", ln(above, below), false, false},
		{"feature-mid", geojson.NewFeature(geojson.NewPoint(mid), ""), true, true},
		{"multipoint", geojson.NewMultiPoint([]geometry.Point{q1, mid, q3}), true, false},
		{"tiny-rect", geojson.NewRect(geometry.Rect{Min: geometry.Point{X: mid.X - 1.0/4096, Y: -0.5}, Max: geometry.Point{X: mid.X + 1.0/4096, Y: -0.375}}), false, false},
	}
}

func bigSegChoices(nz int) []int {
	cand := []int{0, 1, 2, 30, 31, 32, 33, 62, 63, 64, 65, 253, 254, 255, 256, 257, 258, 65533, 65534, 65535, 65536, 65537, nz - 3, nz - 2, nz - 1, nz / 2, nz / 3}
	seen := map[int]bool{}
	var out []int
	for _, c := range cand {
		if c >= 0 && c < nz && !seen[c] {
			seen[c] = true
			out = append(out, c)
		}
	}
	return out
}

type bigVerdict struct {
	class, exp, got string
}

// bigCheck evaluates the laws for one (big object, probe) pair. ref holds the
// answers of the same pair under index kind None (nil when this is it).
func bigCheck(shape int, A geojson.Object, pr bigProbe, ref *[2]tri) (ab, ba tri, out []bigVerdict) {
	ab, ba = predicates(A, pr.o), predicates(pr.o, A)
	fail := func(class, exp, got string) { out = append(out, bigVerdict{class, exp, got}) }
	if !ab.ok || !ba.ok {
		fail("panic", "no panic", "panic")
		return
	}
	if ab.w != ba.c || ba.w != ab.c {
		fail("duality", "A.Within(B) == B.Contains(A)", fmt.Sprintf("%v/%v vs %v/%v", ab.w, ba.c, ba.w, ab.c))
	}
	if ab.i != ba.i {
		fail("symmetry", "A.Intersects(B) == B.Intersects(A)", fmt.Sprintf("%v vs %v", ab.i, ba.i))
	}
	if ab.c && !ab.i {
		fail("contains=>intersects", "intersects", "contains but does not intersect")
	}
	if ab.c && !rectCovers(A.Rect(), pr.o.Rect()) {
		fail("contains=>rect-covers", "rect covers", "contains but rect does not cover")
	}
	if ref != nil && (ab != ref[0] || ba != ref[1]) {
		fail("index-kind-dependence", fmt.Sprintf("as without index: %v %v", ref[0], ref[1]), fmt.Sprintf("%v %v", ab, ba))
	}
	// ground truth for points (and the multipoint of boundary points)
	if pr.isPt || pr.name == "multipoint" {
		wantI := pr.onB
		wantC := pr.onB
		if shape == 1 && pr.name == "below" {
			wantI, wantC = true, true // inside the polygon
		}
		if ab.i != wantI {
			fail("point-intersects", fmt.Sprint(wantI), fmt.Sprint(ab.i))
		}
		if ab.c != wantC {
			fail("point-contains", fmt.Sprint(wantC), fmt.Sprint(ab.c))
		}
	}
	if pr.name == "cross" && !ab.i {
		fail("cross-intersects", "true", "false")
	}
	if pr.name == "inside-seg" && !ab.i {
		fail("inside-seg-intersects", "true", "false")
	}
	return
}

func c09Big(r *rt.Run) {
	type job struct{ shape, n int }
	var jobs []job
	for shape := 0; shape < 2; shape++ {
		for _, n := range c09BigCounts {
			jobs = append(jobs, job{shape, n})
		}
	}
	r.Bounds["big_objects"] = len(jobs) * len(c09BigKinds)
	r.Bounds["big_object_segment_counts"] = c09BigCounts
	r.ParFor(len(jobs), func(i int, w *rt.Worker) {
		jb := jobs[i]
		objs := make([]geojson.Object, len(c09BigKinds))
		for k, kind := range c09BigKinds {
			objs[k] = bigObj(jb.shape, jb.n, kind)
		}
		w.States += int64(len(objs))
		w.Trans += int64(jb.n * len(objs))
		noneIdx := len(c09BigKinds) - 1
		for _, s := range bigSegChoices(zigSegs(jb.shape, jb.n)) {
			for pi, pr := range bigProbes(s) {
				rab, rba, _ := bigCheck(jb.shape, objs[noneIdx], pr, nil)
				ref := [2]tri{rab, rba}
				for k := range objs {
					var rp *[2]tri
					if k != noneIdx {
						rp = &ref
					}
					_, _, vs := bigCheck(jb.shape, objs[k], pr, rp)
					w.Evals += 6
					w.Nontriv++
					for _, v := range vs {
						v, k, s, pi := v, k, s, pi
						w.Fail("big-"+v.class, func() (rt.Case, string, string) {
							return rt.Case{Kind: "bigobj", Op: v.class, Nums: []float64{float64(jb.shape), float64(jb.n), float64(k), float64(s), float64(pi)}}, v.exp, v.got
						})
					}
					// the Feature wrapper of the big object answers as the object
					if pi == 0 {
						f := geojson.NewFeature(objs[k], "")
						fab, fba := predicates(f, pr.o), predicates(pr.o, f)
						oab, oba := predicates(objs[k], pr.o), predicates(pr.o, objs[k])
						w.Evals += 6
						if fab != oab || fba != oba {
							w.Fail("big-feature-transparency", func() (rt.Case, string, string) {
								return rt.Case{Kind: "bigobj", Op: "feature-transparency", Nums: []float64{float64(jb.shape), float64(jb.n), float64(k), float64(s), float64(pi)}}, fmt.Sprint(oab, oba), fmt.Sprint(fab, fba)
							})
						}
					}
				}
			}
		}
		// reflexivity (quadratic in the segment count: small counts only)
		for k, o := range objs {
			if jb.n > 300 {
				break
			}
			self := predicates(o, o)
			w.Evals += 3
			if !self.ok || !self.c || !self.i {
				w.Fail("big-reflexive", func() (rt.Case, string, string) {
					return rt.Case{Kind: "bigobj", Op: "reflexive", Nums: []float64{float64(jb.shape), float64(jb.n), float64(k), 0, 0}}, "contains and intersects itself", fmt.Sprint(self)
				})
			}
		}
	})
}

// Moved big objects: the zigzag built under each index kind and then
// translated through Move by an exact offset beyond its own extent and by
// offsets that are inexact in binary. Probes come from the moved object's own
// positions (exactly on its boundary whatever the rounding did).
var c09MoveDeltas = [][2]float64{{0, 0.3}, {0.1, 0}, {1000, -1000}, {1.0 / 3, 0.7}}

func bigMoved(shape, n int, kind geometry.IndexKind, d [2]float64) (geojson.Object, geometry.Series) {
	switch o := bigObj(shape, n, kind).(type) {
	case *geojson.LineString:
		m := o.Base().Move(d[0], d[1])
		return geojson.NewLineString(m), m
	case *geojson.Polygon:
		m := o.Base().Move(d[0], d[1])
		return geojson.NewPolygon(m), m.Exterior
	}
	panic("unexpected kind")
}

func movedProbes(ser geometry.Series, s int) []bigProbe {
	a, b := ser.PointAt(s), ser.PointAt(s+1)
	mid := geometry.Point{X: (a.X + b.X) / 2, Y: (a.Y + b.Y) / 2}
	above := geometry.Point{X: mid.X, Y: mid.Y + 0.5}
	below := geometry.Point{X: mid.X, Y: mid.Y - 1}
	return []bigProbe{
		{"vertex-a", geojson.NewPoint(a), true, true},
		{"vertex-b", geojson.NewSimplePoint(b), true, true},
		{"above", geojson.NewPoint(geometry.Point{X: mid.X, Y: mid.Y + 2}), false, true},
		{"cross", geojson.NewLineString(geometry.NewLine([]geometry.Point{above, below}, nil)), false, false},
		{"feature-vertex", geojson.NewFeature(geojson.NewPoint(a), ""), true, true},
		{"multipoint", geojson.NewMultiPoint([]geometry.Point{a, b}), true, false},
	}
}

func movedCheck(shape int, A geojson.Object, pr bigProbe, ref *[2]tri) (ab, ba tri, out []bigVerdict) {
	ab, ba = predicates(A, pr.o), predicates(pr.o, A)
	fail := func(class, exp, got string) { out = append(out, bigVerdict{class, exp, got}) }
	if !ab.ok || !ba.ok {
		fail("panic", "no panic", "panic")
		return
	}
	if ab.w != ba.c || ba.w != ab.c {
		fail("duality", "A.Within(B) == B.Contains(A)", fmt.Sprintf("%v/%v vs %v/%v", ab.w, ba.c, ba.w, ab.c))
	}
	if ab.i != ba.i {
		fail("symmetry", "A.Intersects(B) == B.Intersects(A)", fmt.Sprintf("%v vs %v", ab.i, ba.i))
	}
	if ab.c && !ab.i {
		fail("contains=>intersects", "intersects", "contains but does not intersect")
	}
	if ref != nil && (ab != ref[0] || ba != ref[1]) {
		fail("index-kind-dependence", fmt.Sprintf("as without index: %v %v", ref[0], ref[1]), fmt.Sprintf("%v %v", ab, ba))
	}
	if pr.onB && (!ab.i || !ab.c) {
		fail("own-position", "contains and intersects a point at one of its own positions", fmt.Sprintf("c=%v i=%v", ab.c, ab.i))
	}
	if pr.name == "above" && shape == 0 && (ab.i || ab.c) {
		fail("far-point", "false", fmt.Sprintf("c=%v i=%v", ab.c, ab.i))
	}
	if pr.name == "cross" && !ab.i {
		fail("cross-intersects", "true", "false")
	}
	return
}

func c09BigMoved(r *rt.Run) {
	type job struct {
		shape, n, di int
	}
	var jobs []job
	for shape := 0; shape < 3; shape++ {
		for _, n := range []int{33, 65, 67, 68, 257, 4097} {
			for di := range c09MoveDeltas {
				jobs = append(jobs, job{shape, n, di})
			}
		}
	}
	r.Bounds["moved_big_objects"] = len(jobs) * len(c09BigKinds)
	r.ParFor(len(jobs), func(i int, w *rt.Worker) {
		jb := jobs[i]
		d := c09MoveDeltas[jb.di]
		objs := make([]geojson.Object, len(c09BigKinds))
		sers := make([]geometry.Series, len(c09BigKinds))
		for k, kind := range c09BigKinds {
			objs[k], sers[k] = bigMoved(jb.shape, jb.n, kind, d)
		}
		noneIdx := len(c09BigKinds) - 1
		w.States += int64(len(objs))
		nz := zigSegs(jb.shape, jb.n)
		for s := 0; s < nz; s++ {
			if jb.n > 300 && s%61 != 0 && s < nz-3 && s > 3 {
				continue
			}
			prs := movedProbes(sers[noneIdx], s)
			for pi, pr := range prs {
				rab, rba, _ := movedCheck(jb.shape, objs[noneIdx], pr, nil)
				ref := [2]tri{rab, rba}
				for k := range objs {
					var rp *[2]tri
					if k != noneIdx {
						rp = &ref
					}
					_, _, vs := movedCheck(jb.shape, objs[k], pr, rp)
					w.Evals += 6
					w.Nontriv++
					for _, v := range vs {
						v, k, s, pi := v, k, s, pi
						w.Fail("moved-"+v.class, func() (rt.Case, string, string) {
							return rt.Case{Kind: "bigmoved", Op: v.class, Nums: []float64{float64(jb.shape), float64(jb.n), float64(k), float64(s), float64(pi), float64(jb.di)}}, v.exp, v.got
						})
					}
				}
			}
		}
		if jb.n <= 300 {
			for k, o := range objs {
				self := predicates(o, o)
				w.Evals += 3
				if !self.ok || !self.c || !self.i || !self.w {
					w.Fail("moved-reflexive", func() (rt.Case, string, string) {
						return rt.Case{Kind: "bigmoved", Op: "reflexive", Nums: []float64{float64(jb.shape), float64(jb.n), float64(k), 0, 0, float64(jb.di)}}, "contains, is within and intersects itself", fmt.Sprint(self)
					})
				}
			}
		}
	})
}

func evalC09BigMoved(c *rt.Case) (bool, string, string, error) {
	if len(c.Nums) < 6 {
		return false, "", "", fmt.Errorf("malformed case")
	}
	shape, n, k, s, pi, di := int(c.Nums[0]), int(c.Nums[1]), int(c.Nums[2]), int(c.Nums[3]), int(c.Nums[4]), int(c.Nums[5])
	if shape < 0 || shape > 2 || n < 4 || n > 1<<20 || k < 0 || k >= len(c09BigKinds) || di < 0 || di >= len(c09MoveDeltas) || s < 0 || s >= zigSegs(shape, n) {
		return false, "", "", fmt.Errorf("malformed case")
	}
	o, _ := bigMoved(shape, n, c09BigKinds[k], c09MoveDeltas[di])
	if c.Op == "reflexive" {
		self := predicates(o, o)
		return !self.ok || !self.c || !self.i || !self.w, "contains, is within and intersects itself", fmt.Sprint(self), nil
	}
	on, ser := bigMoved(shape, n, geometry.None, c09MoveDeltas[di])
	prs := movedProbes(ser, s)
	if pi < 0 || pi >= len(prs) {
		return false, "", "", fmt.Errorf("malformed case")
	}
	var rp *[2]tri
	if c09BigKinds[k] != geometry.None {
		rab, rba, _ := movedCheck(shape, on, prs[pi], nil)
		rp = &[2]tri{rab, rba}
	}
	_, _, vs := movedCheck(shape, o, prs[pi], rp)
	for _, v := range vs {
		if v.class == c.Op {
			return true, v.exp, v.got, nil
		}
	}
	return false, "", "", nil
}

func evalC09Big(c *rt.Case) (bool, string, string, error) {
	if len(c.Nums) < 5 {
		return false, "", "", fmt.Errorf("malformed case")
	}
	shape, n, k, s, pi := int(c.Nums[0]), int(c.Nums[1]), int(c.Nums[2]), int(c.Nums[3]), int(c.Nums[4])
	if shape < 0 || shape > 1 || n < 4 || n > 1<<20 || k < 0 || k >= len(c09BigKinds) || s < 0 || s >= zigSegs(shape, n) {
		return false, "", "", fmt.Errorf("malformed case")
	}
	o := bigObj(shape, n, c09BigKinds[k])
	switch c.Op {
	case "reflexive":
		self := predicates(o, o)
		return !self.ok || !self.c || !self.i, "contains and intersects itself", fmt.Sprint(self), nil
	}
	prs := bigProbes(s)
	if pi < 0 || pi >= len(prs) {
		return false, "", "", fmt.Errorf("malformed case")
	}
	pr := prs[pi]
	if c.Op == "feature-transparency" {
		f := geojson.NewFeature(o, "")
		fab, fba := predicates(f, pr.o), predicates(pr.o, f)
		oab, oba := predicates(o, pr.o), predicates(pr.o, o)
		return fab != oab || fba != oba, fmt.Sprint(oab, oba), fmt.Sprint(fab, fba), nil
	}
	var rp *[2]tri
	if c09BigKinds[k] != geometry.None {
		rab, rba, _ := bigCheck(shape, bigObj(shape, n, geometry.None), pr, nil)
		rp = &[2]tri{rab, rba}
	}
	_, _, vs := bigCheck(shape, o, pr, rp)
	for _, v := range vs {
		if v.class == c.Op {
			return true, v.exp, v.got, nil
		}
	}
	return false, "", "", nil
}
