package main

import (
	"fmt"
	"strconv"

	"github.com/tidwall/geojson/geometry"
	"verif/mc/exact"
	"verif/mc/rt"
)

// Xf maps exact half-unit integer coordinates to the float64 inputs of the
// library: symmetry of the square, then scale (a power of two), then
// translation. The identity Xf sends v to v/2.
type Xf struct {
	Scale  float64
	Tx, Ty float64
}

var ident = Xf{Scale: 0.5}

// farFineXf: a small figure far from the origin on a fine dyadic grid (lattice
// step 2^-12 at about 2^19): every ordinate is exact and so is every
// difference, but products of absolute ordinates need ~64 bits.
var farFineXf = Xf{Scale: 1.0 / 8192, Tx: 524288 + 5.0/512, Ty: 524288 + 3.0/512}

func symApply(s int, x, y int64) (int64, int64) {
	switch s {
	case 1:
		return -x, y
	case 2:
		return x, -y
	case 3:
		return -x, -y
	case 4:
		return y, x
	case 5:
		return -y, x
	case 6:
		return y, -x
	case 7:
		return -y, -x
	}
	return x, y
}

func symPts(s int, ps []exact.P) []exact.P {
	out := make([]exact.P, len(ps))
	for i, p := range ps {
		x, y := symApply(s, p.X, p.Y)
		out[i] = exact.P{X: x, Y: y}
	}
	return out
}

// symShape applies one of the 8 symmetries of the square in the exact domain.
func symShape(k int, s *exact.Shape) *exact.Shape {
	o := &exact.Shape{Kind: s.Kind}
	switch s.Kind {
	case exact.KPoint:
		o.Pt = symPts(k, []exact.P{s.Pt})[0]
	case exact.KLine:
		o.Line = symPts(k, s.Line)
	case exact.KRect:
		c := symPts(k, []exact.P{s.Min, s.Max})
		o.Min = exact.P{X: min(c[0].X, c[1].X), Y: min(c[0].Y, c[1].Y)}
		o.Max = exact.P{X: max(c[0].X, c[1].X), Y: max(c[0].Y, c[1].Y)}
	default:
		o.Ext = symPts(k, s.Ext)
		for _, h := range s.Holes {
			o.Holes = append(o.Holes, symPts(k, h))
		}
	}
	return o
}

func (t Xf) pt(p exact.P) geometry.Point {
	return geometry.Point{X: float64(p.X)*t.Scale + t.Tx, Y: float64(p.Y)*t.Scale + t.Ty}
}

func (t Xf) isIdent() bool { return t == ident }

// x records a non-identity transform in a case so that replay can invert it.
func (t Xf) x() map[string]string {
	if t.isIdent() {
		return nil
	}
	return map[string]string{"scale": fs(t.Scale), "tx": fs(t.Tx), "ty": fs(t.Ty)}
}

func xfOf(x map[string]string) Xf {
	t := ident
	if v, ok := x["scale"]; ok {
		t.Scale, _ = strconv.ParseFloat(v, 64)
		t.Tx, _ = strconv.ParseFloat(x["tx"], 64)
		t.Ty, _ = strconv.ParseFloat(x["ty"], 64)
	}
	return t
}

func fs(v float64) string { return strconv.FormatFloat(v, 'g', -1, 64) }

func (t Xf) pts(ps []exact.P) []geometry.Point {
	out := make([]geometry.Point, len(ps))
	for i, p := range ps {
		out[i] = t.pt(p)
	}
	return out
}

func (t Xf) String() string {
	return fmt.Sprintf("*%g+(%g,%g)", t.Scale, t.Tx, t.Ty)
}

func f2(ps []geometry.Point) [][2]float64 {
	out := make([][2]float64, len(ps))
	for i, p := range ps {
		out[i] = [2]float64{p.X, p.Y}
	}
	return out
}

func g2(ps [][2]float64) []geometry.Point {
	out := make([]geometry.Point, len(ps))
	for i, p := range ps {
		out[i] = geometry.Point{X: p[0], Y: p[1]}
	}
	return out
}

// descShape renders an exact shape under a transform as the literal input.
func descShape(s *exact.Shape, t Xf) *rt.G {
	switch s.Kind {
	case exact.KPoint:
		return &rt.G{K: "point", P: f2(t.pts([]exact.P{s.Pt}))}
	case exact.KLine:
		return &rt.G{K: "line", P: f2(t.pts(s.Line))}
	case exact.KRect:
		r := t.rect(s)
		return &rt.G{K: "rect", P: [][2]float64{{r.Min.X, r.Min.Y}, {r.Max.X, r.Max.Y}}}
	default:
		g := &rt.G{K: "poly", P: f2(t.pts(s.Ext))}
		for _, h := range s.Holes {
			g.H = append(g.H, f2(t.pts(h)))
		}
		return g
	}
}

func (t Xf) rect(s *exact.Shape) geometry.Rect {
	a, b := t.pt(s.Min), t.pt(s.Max)
	if a.X > b.X {
		a.X, b.X = b.X, a.X
	}
	if a.Y > b.Y {
		a.Y, b.Y = b.Y, a.Y
	}
	return geometry.Rect{Min: a, Max: b}
}

// idxCfg is a segment-index configuration.
type idxCfg struct {
	Name string
	Opts *geometry.IndexOptions
}

var idxCfgs = []idxCfg{
	{"none", &geometry.IndexOptions{Kind: geometry.None, MinPoints: 0}},
	{"rtree1", &geometry.IndexOptions{Kind: geometry.RTree, MinPoints: 1}},
	{"quad1", &geometry.IndexOptions{Kind: geometry.QuadTree, MinPoints: 1}},
	{"default", nil},
}

// buildGeom constructs the library geometry for a descriptor.
func buildGeom(g *rt.G, opts *geometry.IndexOptions) (geometry.Geometry, error) {
	switch g.K {
	case "point":
		if len(g.P) != 1 {
			return nil, fmt.Errorf("point needs 1 position")
		}
		return geometry.Point{X: g.P[0][0], Y: g.P[0][1]}, nil
	case "line":
		pts := g2(g.P)
		l := geometry.NewLine(pts, opts)
		scribble(pts)
		return l, nil
	case "rect":
		if len(g.P) != 2 {
			return nil, fmt.Errorf("rect needs min,max")
		}
		return geometry.Rect{Min: geometry.Point{X: g.P[0][0], Y: g.P[0][1]}, Max: geometry.Point{X: g.P[1][0], Y: g.P[1][1]}}, nil
	case "poly":
		var holes [][]geometry.Point
		for _, h := range g.H {
			holes = append(holes, g2(h))
		}
		ext := g2(g.P)
		p := geometry.NewPoly(ext, holes, opts)
		scribble(ext)
		for _, h := range holes {
			scribble(h)
		}
		return p, nil
	}
	return nil, fmt.Errorf("unknown shape kind %q", g.K)
}

// geomOf builds the library geometry for an exact shape.
func geomOf(s *exact.Shape, t Xf, opts *geometry.IndexOptions) geometry.Geometry {
	switch s.Kind {
	case exact.KPoint:
		return t.pt(s.Pt)
	case exact.KLine:
		pts := t.pts(s.Line)
		l := geometry.NewLine(pts, opts)
		scribble(pts)
		return l
	case exact.KRect:
		return t.rect(s)
	default:
		var holes [][]geometry.Point
		for _, h := range s.Holes {
			holes = append(holes, t.pts(h))
		}
		ext := t.pts(s.Ext)
		p := geometry.NewPoly(ext, holes, opts)
		// the constructors take their own copy of the positions: what the
		// caller does with its slices afterwards must not reach the object
		scribble(ext)
		for _, h := range holes {
			scribble(h)
		}
		return p
	}
}

// newPolyScribbled / newLineScribbled build from a private copy of the
// positions and overwrite that copy afterwards.
// spareCopy copies ps into a slice with two spare positions behind its length
// (as a caller has who cuts several rings out of one buffer); spareIntact
// tells whether they still hold what was put there.
var spareMark = geometry.Point{X: -4.25e9, Y: 8.5e9}

func spareCopy(ps []geometry.Point) []geometry.Point {
	cp := make([]geometry.Point, len(ps), len(ps)+2)
	copy(cp, ps)
	sp := cp[len(ps):cap(cp)]
	sp[0], sp[1] = spareMark, spareMark
	return cp
}

func spareIntact(cp []geometry.Point) {
	sp := cp[len(cp):cap(cp)]
	if len(sp) == 2 && (sp[0] != spareMark || sp[1] != spareMark) {
		panic(fmt.Sprintf("a constructor wrote beyond the length of the slice it was given (spare capacity now %v)", sp))
	}
}

func newPolyScribbled(pts []geometry.Point, holes [][]geometry.Point, opts *geometry.IndexOptions) *geometry.Poly {
	cp := spareCopy(pts)
	var hs [][]geometry.Point
	for _, h := range holes {
		hs = append(hs, spareCopy(h))
	}
	p := geometry.NewPoly(cp, hs, opts)
	spareIntact(cp)
	scribble(cp)
	for _, h := range hs {
		spareIntact(h)
		scribble(h)
	}
	return p
}

func newLineScribbled(pts []geometry.Point, opts *geometry.IndexOptions) *geometry.Line {
	cp := spareCopy(pts)
	l := geometry.NewLine(cp, opts)
	spareIntact(cp)
	scribble(cp)
	return l
}

// scribble overwrites a slice that has been handed to a constructor (the
// caller re-using its buffer for the next shape).
func scribble(ps []geometry.Point) {
	for i := range ps {
		ps[i] = geometry.Point{X: 7e7 + float64(i), Y: -3e7 - float64(2*i)}
	}
}

// exactOf converts a descriptor on half-unit coordinates back to an exact
// shape (used by replay); ok=false if a coordinate is not a small half-integer.
func exactOf(g *rt.G, t Xf) (*exact.Shape, bool) {
	conv := func(ps [][2]float64) ([]exact.P, bool) {
		out := make([]exact.P, len(ps))
		for i, p := range ps {
			x, y := (p[0]-t.Tx)/t.Scale, (p[1]-t.Ty)/t.Scale
			lim := float64(exact.MaxCoord)
			if g.K == "line" && len(ps) == 2 || g.K == "point" {
				lim = 1 << 27 // segment / point cases use orientation predicates only (int64 products stay below 2^58)
			}
			if x != float64(int64(x)) || y != float64(int64(y)) || x > lim || x < -lim || y > lim || y < -lim {
				return nil, false
			}
			out[i] = exact.P{X: int64(x), Y: int64(y)}
		}
		return out, true
	}
	ps, ok := conv(g.P)
	if !ok {
		return nil, false
	}
	switch g.K {
	case "point":
		return &exact.Shape{Kind: exact.KPoint, Pt: ps[0]}, true
	case "line":
		return &exact.Shape{Kind: exact.KLine, Line: ps}, true
	case "rect":
		return &exact.Shape{Kind: exact.KRect, Min: ps[0], Max: ps[1]}, true
	case "poly":
		s := &exact.Shape{Kind: exact.KPoly, Ext: ps}
		for _, h := range g.H {
			hp, ok := conv(h)
			if !ok {
				return nil, false
			}
			s.Holes = append(s.Holes, hp)
		}
		return s, true
	}
	return nil, false
}
