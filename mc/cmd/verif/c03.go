package main

import (
	"fmt"

	"verif/mc/exact"
	"verif/mc/rt"
)

// C03 — contains/within is exact planar containment.

func init() { register("C03", runC03, evalC03) }

func evalC03(c *rt.Case) (bool, string, string, error) {
	switch c.Kind {
	case "retraced":
		return evalRetraced(c)
	case "shared-ring":
		return evalSharedRing(c)
	case "bbox-object":
		return evalBBoxObject(c)
	}
	return evalPair(c)
}

func runC03(r *rt.Run) {
	r.Describe = describePair
	p := buildPools(r.Thorough())
	r.Bounds["pools"] = p.desc
	r.Rule = "every ordered pair over pools of valid shapes built exhaustively from lattice alphabets (see C02); A.contains(B) and B.contains(A) each compared with exact containment; two index configurations and a third realisation with both operands obtained through Move from r-tree-indexed sources, a fourth scaled by 2^-300 and a fifth small and far away (step 2^-12 at 2^19); polygons sharing a Ring object; shapes read from documents with third ordinates and bbox members asked at object level; self-retracing staircases of 9..73 segments x every sub-path of 2-3 positions x 4 index configurations; non-trivial = container's bounding box covers the other's"
	r.Assume = []string{"valid operands (simple rings, holes inside) on small dyadic coordinates", "reference: every boundary/skeleton segment of B inside A by exact 1-D decomposition, plus one interior sample per hole of A (verif/mc/exact)"}
	one := func(a, b *shp, w *rt.Worker) {
		cur := &curPair{"contains", a.E, b.E}
		w.Cur = cur
		want := exact.Contains(a.E, b.E)
		if boxCovers(a.E, b.E) {
			w.Nontriv++
		}
		w.Outcome(fmt.Sprintf("%s>%s=%v", a.E.Kind, b.E.Kind, want))
		got := libContains(a.G, b.G)
		got2 := libContains(a.G2, b.G2)
		w.Evals += 2
		if got != want {
			w.Fail(containClass(a.E, b.E, want), func() (rt.Case, string, string) {
				return pairCase("contains", a.E, b.E, ident, ""), fmt.Sprint(want), fmt.Sprint(got)
			})
		}
		if got2 != got {
			w.Fail("index-dependence", func() (rt.Case, string, string) {
				return pairCase("contains", a.E, b.E, ident, "alt"), fmt.Sprint(want), fmt.Sprint(got2)
			})
		}
		if got5 := libContains(a.G5, b.G5); got5 != got {
			w.Fail("translation-dependence", func() (rt.Case, string, string) {
				return pairCase("contains", a.E, b.E, ident, "far-fine"), fmt.Sprint(want), fmt.Sprint(got5)
			})
		}
		w.Evals++
		// every position written twice (zero-length segments, same point sets).
		// Line-in-line is left out: what Line.ContainsLine makes of repeated
		// positions is part of the listed finding KF-LINE-CONTAINS already.
		// (Where the plain realisation is already wrong it has been reported
		// above; here: the doubled one is wrong where the plain one is right.)
		if !(a.E.Kind == exact.KLine && b.E.Kind == exact.KLine) && a.G6 != nil && b.G6 != nil && got == want {
			got6, m6, n6 := libContains(a.G6, b.G6), libContains(a.G6, b.G), libContains(a.G, b.G6)
			if got6 != want || m6 != want || n6 != want {
				w.Fail(containClass(a.E, b.E, want)+"+doubled", func() (rt.Case, string, string) {
					return pairCase("contains", a.E, b.E, ident, "doubled"), fmt.Sprint(want), fmt.Sprintf("%v / %v / %v", got6, m6, n6)
				})
			}
			w.Evals += 3
		}
		if got4 := libContains(a.G4, b.G4); got4 != got {
			w.Fail("scale-dependence", func() (rt.Case, string, string) {
				return pairCase("contains", a.E, b.E, ident, "tiny"), fmt.Sprint(want), fmt.Sprint(got4)
			})
		}
		w.Evals++
		got3 := libContains(a.G3, b.G3)
		w.Evals++
		if got3 != got {
			w.Fail("move-dependence", func() (rt.Case, string, string) {
				return pairCase("contains", a.E, b.E, ident, "moved"), fmt.Sprint(want), fmt.Sprint(got3)
			})
		}
	}
	allPairs(r, p, func(a, b *shp, w *rt.Worker) {
		one(a, b, w)
		if a != b {
			one(b, a, w)
		}
	})
	// shapes on the values that mean something on a map (x = +-180, +-179,
	// y = +-90): the predicates are planar, 180 and -180 are 360 apart
	{
		var gs []*shp
		xs, ys := []int64{-360, -358, 358, 360}, []int64{-180, 0, 20, 180} // half units
		for _, x := range xs {
			for _, y := range ys {
				gs = append(gs, mkShp(&exact.Shape{Kind: exact.KPoint, Pt: exact.P{X: x, Y: y}}, nil))
				for _, x2 := range xs {
					if x2 > x {
						gs = append(gs, mkShp(&exact.Shape{Kind: exact.KLine, Line: []exact.P{{X: x, Y: y}, {X: x2, Y: y}}}, nil))
						if y < 180 {
							gs = append(gs, mkShp(&exact.Shape{Kind: exact.KRect, Min: exact.P{X: x, Y: y}, Max: exact.P{X: x2, Y: y + 20}}, nil))
							gs = append(gs, mkShp(&exact.Shape{Kind: exact.KPoly, Ext: []exact.P{{X: x, Y: y}, {X: x2, Y: y}, {X: x2, Y: y + 20}, {X: x, Y: y}}}, nil))
						}
					}
				}
			}
		}
		r.Bounds["map_edge_shapes"] = len(gs)
		r.ParFor(len(gs), func(i int, w *rt.Worker) {
			for _, b := range gs {
				one(gs[i], b, w)
			}
		})
	}
	retracedLines(r)
	sharedRings(r, p, "shared-ring-object")
	bboxObjects(r, p, "bbox-changes-answer")
	r.Sample(pairCase("contains", p.polys[7].E, p.lines[100].E, ident, ""))
	r.Sample(pairCase("contains", p.holed[3].E, p.hPolys[5].E, ident, ""))
}
