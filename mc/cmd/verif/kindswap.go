package main

import (
	"strconv"
	"strings"

	"verif/mc/refdoc"
)

// kindSwaps: "wrong JSON kinds at every level". For every node of the seed's
// JSON tree (every member value, array element, nested object) one document
// per replacement: null, true, 0, "s", [], {}, the node wrapped in an array, the node's own text as a string,
// and — the structural look-alikes — an array written as an object with the
// same values (keys k0, k1, ...) and an object written as the array of its
// values. The seed itself is not included.
func kindSwaps(seed string) []string {
	root, err := refdoc.ParseJSON(seed)
	if err != nil {
		return nil
	}
	var nodes []*refdoc.JV
	var walk func(v *refdoc.JV)
	walk = func(v *refdoc.JV) {
		nodes = append(nodes, v)
		for _, e := range v.Arr {
			walk(e)
		}
		for _, e := range v.Vals {
			walk(e)
		}
	}
	walk(root)
	var write func(sb *strings.Builder, v, at *refdoc.JV, repl string)
	write = func(sb *strings.Builder, v, at *refdoc.JV, repl string) {
		if v == at {
			sb.WriteString(repl)
			return
		}
		switch v.Kind {
		case 'o':
			sb.WriteByte('{')
			for i, k := range v.Keys {
				if i > 0 {
					sb.WriteByte(',')
				}
				sb.WriteString(strconv.Quote(k))
				sb.WriteByte(':')
				write(sb, v.Vals[i], at, repl)
			}
			sb.WriteByte('}')
		case 'a':
			sb.WriteByte('[')
			for i, e := range v.Arr {
				if i > 0 {
					sb.WriteByte(',')
				}
				write(sb, e, at, repl)
			}
			sb.WriteByte(']')
		default:
			sb.WriteString(v.Canon())
		}
	}
	text := func(v *refdoc.JV) string {
		var sb strings.Builder
		write(&sb, v, nil, "")
		return sb.String()
	}
	var out []string
	for _, n := range nodes[1:] { // not the root itself (covered by the byte / token families)
		own := text(n)
		repls := []string{"null", "true", "0", `"s"`, "[]", "{}", "[" + own + "]", strconv.Quote(own)} // the last: the node's own text as a JSON string
		switch n.Kind {
		case 'a':
			var sb strings.Builder
			sb.WriteByte('{')
			for i, e := range n.Arr {
				if i > 0 {
					sb.WriteByte(',')
				}
				sb.WriteString(`"k` + strconv.Itoa(i) + `":` + text(e))
			}
			sb.WriteByte('}')
			repls = append(repls, sb.String())
		case 'o':
			var sb strings.Builder
			sb.WriteByte('[')
			for i, e := range n.Vals {
				if i > 0 {
					sb.WriteByte(',')
				}
				sb.WriteString(text(e))
			}
			sb.WriteByte(']')
			repls = append(repls, sb.String())
		}
		for _, rp := range repls {
			if rp == own {
				continue
			}
			var sb strings.Builder
			write(&sb, root, n, rp)
			out = append(out, sb.String())
		}
	}
	return out
}
