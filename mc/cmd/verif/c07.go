package main

import (
	"fmt"

	"verif/mc/docgen"
	"verif/mc/refdoc"
	"verif/mc/rt"
)

// C07 — Parse decodes exactly what the document says, or rejects it.

func init() { register("C07", runC07, evalDoc) }

var rawAlphabet = []string{"{", "}", "[", "]", ",", ":", `"type"`, `"Point"`, `"coordinates"`, "1", "null", " ", `"a"`, "x"}

func runC07(r *rt.Run) {
	seeds := docgen.Seeds()
	k := 1
	r.Bounds["seeds"] = len(seeds)
	r.Bounds["token_alphabet"] = len(docgen.Alphabet)
	r.Rule = "grammar seeds (9 types x list lengths x dimensionalities x member sets, nested collections) and every document within k token deviations (delete / insert / substitute over a 24-token alphabet, truncate, swap members, duplicate member); every seed with each node of its JSON tree replaced by null / true / 0 / a string / [] / {} / itself in an array / (array) an object with the same values / (object) the array of its values; all token strings up to a length over a 14-token alphabet; all byte strings of length <= 2 after '{'; each under 2 option sets; non-trivial = reference verdict is must-accept or must-reject for a structural (not JSON-syntax) reason"
	r.Assume = []string{"reference reader on encoding/json (verif/mc/refdoc) written from the statement; documents the statement does not describe (5+ ordinates, null geometry, null ordinates, overflowing numbers) are not judged"}
	type job struct {
		seed string
		k    int
	}
	var jobs []job
	for _, s := range seeds {
		kk := k
		if n := len(docgen.T(s)); n <= 26 || (r.Thorough() && n <= 64) {
			kk = 2
		}
		jobs = append(jobs, job{s, kk})
	}
	r.Bounds["deviations"] = "1 for every seed; 2 for seeds of <= 26 tokens (thorough: <= 64 tokens)"
	check := func(text string, w *rt.Worker) {
		for _, os := range []optSet{optDefault, optAlt, optNoCircle} {
			v, _ := c07One(text, os, func(class string, c rt.Case, exp, got string) {
				w.Fail(class, func() (rt.Case, string, string) { return c, exp, got })
			})
			w.Evals++
			if os.O == nil {
				w.Outcome(v.String())
			}
		}
	}
	r.ParFor(len(jobs), func(i int, w *rt.Worker) {
		n := neighbourhood(jobs[i].seed, jobs[i].k, func(text string, dev int) {
			w.Trans++
			v, _, why := refdoc.Classify(text)
			if v == refdoc.MustAccept || (v == refdoc.MustReject && why != "not valid JSON") {
				w.Nontriv++
			}
			check(text, w)
		})
		w.States += n
	})
	// wrong JSON kind at every node of every seed
	r.ParFor(len(seeds), func(i int, w *rt.Worker) {
		for _, text := range kindSwaps(seeds[i]) {
			w.States++
			w.Trans++
			if v, _, why := refdoc.Classify(text); v == refdoc.MustAccept || (v == refdoc.MustReject && why != "not valid JSON") {
				w.Nontriv++
			}
			check(text, w)
		}
	})
	// one extra member of every name the library's sources spell, in every position
	snd := sourceNameDocs()
	r.Bounds["source_derived_member_documents"] = len(snd)
	r.ParFor(len(snd), func(i int, w *rt.Worker) {
		w.States++
		w.Trans++
		w.Nontriv++
		check(snd[i], w)
	})
	// large documents, as they are, and with their last byte removed / one byte appended
	large := docgen.LargeDocs()
	r.Bounds["large_documents"] = len(large)
	large = append(large, docgen.ExtraDocs()...)
	r.Bounds["number_spelling_member_text_and_string_alphabet_documents"] = len(large) - r.Bounds["large_documents"].(int)
	r.ParFor(len(large), func(i int, w *rt.Worker) {
		for vi, text := range []string{large[i], large[i][:len(large[i])-1], large[i] + "x", " \n" + large[i] + "\t "} {
			w.States++
			w.Nontriv++
			for _, os := range []optSet{optDefault, optAlt, optNoCircle, optNoCircleSimple} {
				w.Evals++
				c07One(text, os, func(class string, c rt.Case, exp, got string) {
					c.Doc = fmt.Sprintf("large#%d/variant%d", i, vi)
					w.Fail(class+"-large", func() (rt.Case, string, string) { return c, trunc(exp), trunc(got) })
				})
			}
		}
	})
	// all token strings
	depth := 5
	if r.Thorough() {
		depth = 6
	}
	r.Bounds["raw_token_depth"] = depth
	A := rawAlphabet
	r.ParFor(len(A)*len(A), func(i int, w *rt.Worker) {
		var rec func(prefix string, d int)
		rec = func(prefix string, d int) {
			w.States++
			w.Trans++
			check(prefix, w)
			if d == depth {
				return
			}
			for _, a := range A {
				rec(prefix+a, d+1)
			}
		}
		rec(A[i/len(A)]+A[i%len(A)], 2)
	})
	w0 := r.Worker()
	check("", w0)
	for _, a := range A {
		check(a, w0)
	}
	// byte strings: '{' followed by up to 2 arbitrary bytes, and any 2 bytes
	for b1 := 0; b1 < 256; b1++ {
		check(string([]byte{byte(b1)}), w0)
		for b2 := 0; b2 < 256; b2++ {
			check(string([]byte{byte(b1), byte(b2)}), w0)
			check(string([]byte{'{', byte(b1), byte(b2)}), w0)
			check(string([]byte{'{', byte(b1), byte(b2), '}'}), w0)
			w0.States += 3
		}
	}
	w0.Flush()
	r.Sample(map[string]any{"seed": seeds[20], "one_deviation": "delete / insert / substitute any token, truncate, swap, duplicate"})
	r.Sample(rt.Case{Kind: "doc", Op: "parse", Doc: `{"type":"LineString","coordinates":[[0,0],[1,1,5]]}`, Cfg: "default"})
	_ = fmt.Sprint
}
