package main

import (
	"fmt"

	"github.com/tidwall/geojson/geometry"
	"verif/mc/exact"
	"verif/mc/lat"
	"verif/mc/rt"
)

// C19 — segment-level kernels are exact and symmetric.
//
// State space: every segment (ordered endpoint pair, zero length included)
// over the k x k lattice; probes: every point of the half-step refinement,
// every ordered pair of segments. Repeated under power-of-two scalings and
// large translations (float arithmetic must stay exact there).

func init() { register("C19", runC19, evalC19) }

var c19Xfs = []Xf{
	ident,
	{Scale: 131072, Tx: 0, Ty: 0},           // 2^17: coordinates up to 2^20
	{Scale: 1.0 / 1024, Tx: 0, Ty: 0},       // 2^-10
	{Scale: 0.5, Tx: 1048570, Ty: -1048570}, // near +-2^20
	{Scale: 0.25, Tx: -0.75, Ty: 0.25},      // dyadic offset across 0
	{Scale: 1.0 / (1 << 30)},                // tiny: products of differences around 2^-56, where an absolute epsilon would bite
	{Scale: 1.0 / (1 << 45), Tx: 0, Ty: 0},  // 2^-45
	farFineXf,                               // step 2^-12 at 2^19
	{Scale: 0x1p-300},                       // products of two determinants underflow here, the kernels' own arithmetic does not
	{Scale: 1.0 / 8192, Tx: -1048575, Ty: 1048575 - 1.0/256},
}

func segG(a, b geometry.Point) *rt.G {
	return &rt.G{K: "line", P: [][2]float64{{a.X, a.Y}, {b.X, b.Y}}}
}
func ptG(p geometry.Point) *rt.G { return &rt.G{K: "point", P: [][2]float64{{p.X, p.Y}}} }

func runC19(r *rt.Run) {
	k, off := 5, -2
	if r.Thorough() {
		k, off = 7, -3
	}
	L := lat.Lattice(k, off)
	H := lat.Half(k, off)
	r.Bounds["lattice"] = fmt.Sprintf("%dx%d", k, k)
	r.Bounds["segments"] = len(L) * len(L)
	r.Bounds["probe_points"] = len(H)
	r.Bounds["transforms"] = len(c19Xfs)
	r.Rule = "all ordered endpoint pairs over the lattice (zero-length included) x all half-step points (raycast/contains-point/collinear) and x all segments (intersects both orders, contains), under each float transform; long anchored segments (span 32/64, also shifted to +-2^20) x every lattice point on or next to them; near-miss/near-hit pairs up to 2^20 in 8 orientations; near-parallel family: directions M*(P,Q)+e1 and M*(P,Q)+e2 (12 primitive (P,Q), lengths M up to 2^20 (segments up to 2^21 long), e1,e2 over [-2,2]^2) crossing at / ending at / starting next to a common point with every offset in [-1,1]^2, both operand orders; probes and endpoints written with negative zero; mixed scale: segments between points of the 2^17 grid (to +-2^20) against their own grid points moved by 1, 2, 4 units of 2^-34 (exact big-integer oracle); ulp grid: x = +-(2^20-1) + k 2^-33, y = 0..6, every (segment, point) triple over 7x7 and every segment pair over 4x4; non-trivial = probe inside the segment's y-range (point cases) / bounding boxes meet (segment cases)"
	r.Assume = []string{"coordinates are dyadic with magnitude <= 2^20 (the property's own domain)", "exact oracle: integer orientation predicates (verif/mc/exact)"}
	type seg struct{ a, b exact.P }
	segs := make([]seg, 0, len(L)*len(L))
	for _, a := range L {
		for _, b := range L {
			segs = append(segs, seg{a, b})
		}
	}
	for ti, t := range c19Xfs {
		t := t
		fl := make([]geometry.Segment, len(segs))
		for i, s := range segs {
			fl[i] = geometry.Segment{A: t.pt(s.a), B: t.pt(s.b)}
		}
		fh := t.pts(H)
		r.States.Add(int64(len(segs)))
		r.Trans.Add(int64(2 * len(segs)))
		r.ParFor(len(segs), func(i int, w *rt.Worker) {
			s, fsg := segs[i], fl[i]
			for j, p := range H {
				fp := fh[j]
				w.Evals += 3
				on := exact.OnSeg(p, s.a, s.b)
				in := !on && exact.RayCross(p.R(), s.a, s.b)
				if p.Y >= min(s.a.Y, s.b.Y) && p.Y <= max(s.a.Y, s.b.Y) {
					w.Nontriv++
				}
				res := fsg.Raycast(fp)
				if res.On != on || res.In != in {
					w.Fail("raycast", func() (rt.Case, string, string) {
						return rt.Case{Kind: "seg-point", Op: "raycast", A: segG(fsg.A, fsg.B), B: ptG(fp), X: t.x()},
							fmt.Sprintf("on=%v in=%v", on, in), fmt.Sprintf("on=%v in=%v", res.On, res.In)
					})
				}
				if ti == 0 {
					w.Outcome(fmt.Sprintf("raycast on=%v in=%v", on, in))
				}
				if got := fsg.ContainsPoint(fp); got != on {
					w.Fail("containspoint", func() (rt.Case, string, string) {
						return rt.Case{Kind: "seg-point", Op: "containspoint", A: segG(fsg.A, fsg.B), B: ptG(fp), X: t.x()},
							fmt.Sprint(on), fmt.Sprint(got)
					})
				}
				col := exact.Collinear(p, s.a, s.b)
				if got := fsg.CollinearPoint(fp); got != col {
					w.Fail("collinear", func() (rt.Case, string, string) {
						return rt.Case{Kind: "seg-point", Op: "collinear", A: segG(fsg.A, fsg.B), B: ptG(fp), X: t.x()},
							fmt.Sprint(col), fmt.Sprint(got)
					})
				}
			}
			for j, o := range segs {
				fo := fl[j]
				w.Evals += 2
				want := exact.SegsIntersect(s.a, s.b, o.a, o.b)
				if ti == 0 {
					if want2 := exact.SegsIntersect2(s.a, s.b, o.a, o.b); want2 != want {
						r.HarnessError(fmt.Sprintf("oracle formulations disagree on %v %v", s, o))
					}
				}
				if max(min(s.a.X, s.b.X), min(o.a.X, o.b.X)) <= min(max(s.a.X, s.b.X), max(o.a.X, o.b.X)) &&
					max(min(s.a.Y, s.b.Y), min(o.a.Y, o.b.Y)) <= min(max(s.a.Y, s.b.Y), max(o.a.Y, o.b.Y)) {
					w.Nontriv++
				}
				got := fsg.IntersectsSegment(fo)
				if got != want {
					w.Fail("intersects", func() (rt.Case, string, string) {
						return rt.Case{Kind: "seg-seg", Op: "intersects", A: segG(fsg.A, fsg.B), B: segG(fo.A, fo.B), X: t.x()},
							fmt.Sprint(want), fmt.Sprint(got)
					})
				}
				if ti == 0 {
					w.Outcome(fmt.Sprintf("intersects=%v", want))
				}
				if j > i {
					if rev := fo.IntersectsSegment(fsg); rev != got {
						w.Fail("asymmetric", func() (rt.Case, string, string) {
							return rt.Case{Kind: "seg-seg", Op: "symmetry", A: segG(fsg.A, fsg.B), B: segG(fo.A, fo.B), X: t.x()},
								"A.intersects(B) == B.intersects(A)", fmt.Sprintf("%v vs %v", got, rev)
						})
					}
				}
				wc := exact.SegContainsSeg(s.a, s.b, o.a, o.b)
				if gc := fsg.ContainsSegment(fo); gc != wc {
					w.Fail("contains", func() (rt.Case, string, string) {
						return rt.Case{Kind: "seg-seg", Op: "contains", A: segG(fsg.A, fsg.B), B: segG(fo.A, fo.B), X: t.x()},
							fmt.Sprint(wc), fmt.Sprint(gc)
					})
				}
			}
		})
		if ti == 0 {
			r.Sample(map[string]any{"segment": segG(fl[7].A, fl[7].B), "probe": ptG(fh[3]), "transform": t.String()})
		}
	}
	c19Long(r)
	c19NearParallel(r)
	c19UlpGrid(r)
	c19NegZero(r)
	c19MixedScale(r)
	c19LevelWithEnd(r)
	r.Sample(map[string]any{"segment_pair": []any{segG(geometry.Point{X: 0, Y: 1}, geometry.Point{X: 0, Y: 2}), segG(geometry.Point{X: 0, Y: 0}, geometry.Point{X: 0, Y: 3})}, "note": "nested collinear pair (needs 4 collinear lattice points)"})
}

func evalC19(c *rt.Case) (bool, string, string, error) {
	if c.Kind == "level-with-end" {
		if len(c.Nums) != 7 {
			return false, "", "", fmt.Errorf("malformed case")
		}
		n := c.Nums
		bad, exp, got := c19LevelEval(int64(n[0]), int64(n[1]), int64(n[2]), int64(n[3]), int(n[4]), int(n[5]), int64(n[6]))
		return bad, exp, got, nil
	}
	if c.Kind == "mixed-scale" {
		return evalC19MixedScale(c)
	}
	if c.Kind == "negzero" {
		return evalC19NegZero(c)
	}
	if c.Kind == "ulp-grid" {
		return evalC19UlpGrid(c)
	}
	if c.Kind != "seg-point" && c.Kind != "seg-seg" {
		return false, "", "", fmt.Errorf("not mine")
	}
	t := xfOf(c.X)
	ea, ok1 := exactOf(c.A, t)
	eb, ok2 := exactOf(c.B, t)
	if !ok1 || !ok2 || len(c.A.P) != 2 {
		return false, "", "", fmt.Errorf("coordinates outside the exact domain")
	}
	sa := geometry.Segment{A: g2(c.A.P)[0], B: g2(c.A.P)[1]}
	a, b := ea.Line[0], ea.Line[1]
	if c.Kind == "seg-point" {
		p, fp := eb.Pt, g2(c.B.P)[0]
		switch c.Op {
		case "raycast":
			on := exact.OnSeg(p, a, b)
			in := !on && exact.RayCross(p.R(), a, b)
			res := sa.Raycast(fp)
			return res.On != on || res.In != in, fmt.Sprintf("on=%v in=%v", on, in), fmt.Sprintf("on=%v in=%v", res.On, res.In), nil
		case "containspoint":
			on := exact.OnSeg(p, a, b)
			got := sa.ContainsPoint(fp)
			return got != on, fmt.Sprint(on), fmt.Sprint(got), nil
		case "collinear":
			col := exact.Collinear(p, a, b)
			got := sa.CollinearPoint(fp)
			return got != col, fmt.Sprint(col), fmt.Sprint(got), nil
		}
		return false, "", "", fmt.Errorf("unknown op")
	}
	sb := geometry.Segment{A: g2(c.B.P)[0], B: g2(c.B.P)[1]}
	cc, d := eb.Line[0], eb.Line[1]
	switch c.Op {
	case "intersects":
		want := exact.SegsIntersect(a, b, cc, d)
		got := sa.IntersectsSegment(sb)
		return got != want, fmt.Sprint(want), fmt.Sprint(got), nil
	case "symmetry":
		g1, g2 := sa.IntersectsSegment(sb), sb.IntersectsSegment(sa)
		return g1 != g2, "A.intersects(B) == B.intersects(A)", fmt.Sprintf("%v vs %v", g1, g2), nil
	case "contains":
		want := exact.SegContainsSeg(a, b, cc, d)
		got := sa.ContainsSegment(sb)
		return got != want, fmt.Sprint(want), fmt.Sprint(got), nil
	}
	return false, "", "", fmt.Errorf("unknown op")
}

// c19Long widens the envelope beyond the small lattice: the decisions of the
// kernels depend only on order types, but a reformulated kernel can round
// differently once coordinate differences have large odd factors, and a
// tolerance can only show on long segments. (1) Segments anchored at a few
// origins with far endpoints over a 65x65 (thorough 129x129) grid against
// every lattice point of their bounding box, at unit scale and shifted to
// +-2^20; (2) anchored segment pairs; (3) near-miss / near-hit pairs with
// coordinates up to 2^20 (a segment passing an endpoint of another at a
// distance of 1/N), in all 8 orientations and both operand orders.
func c19Long(r *rt.Run) {
	span := int64(32)
	if r.Thorough() {
		span = 64
	}
	r.Bounds["long_segment_span"] = span
	anchors := []exact.P{{X: 0, Y: 0}, {X: -3, Y: 2}, {X: 1, Y: -1}}
	unit := []Xf{{Scale: 1}, {Scale: 1, Tx: 1048576 - 70, Ty: -1048576 + 70}, {Scale: 0.5}}
	var ends []exact.P
	for y := -span; y <= span; y++ {
		for x := -span; x <= span; x++ {
			ends = append(ends, exact.P{X: x, Y: y})
		}
	}
	r.States.Add(int64(len(anchors) * len(ends)))
	r.ParFor(len(ends), func(i int, w *rt.Worker) {
		b := ends[i]
		for _, a := range anchors {
			for ti, t := range unit {
				for _, sg := range [][2]exact.P{{a, b}, {b, a}} {
					fsg := geometry.Segment{A: t.pt(sg[0]), B: t.pt(sg[1])}
					x0, x1 := min(a.X, b.X), max(a.X, b.X)
					y0, y1 := min(a.Y, b.Y), max(a.Y, b.Y)
					for y := y0; y <= y1; y++ {
						for x := x0; x <= x1; x++ {
							p := exact.P{X: x, Y: y}
							on := exact.OnSeg(p, sg[0], sg[1])
							// only points on the segment and their neighbours: that is where formulas can differ
							if !on && exact.Orient(sg[0], sg[1], p) != 0 && !nearSeg(p, sg[0], sg[1]) {
								continue
							}
							fp := t.pt(p)
							w.Evals++
							if on {
								w.Nontriv++
							}
							in := !on && exact.RayCross(p.R(), sg[0], sg[1])
							res := fsg.Raycast(fp)
							if res.On != on || res.In != in {
								w.Fail("raycast-long", func() (rt.Case, string, string) {
									return rt.Case{Kind: "seg-point", Op: "raycast", A: segG(fsg.A, fsg.B), B: ptG(fp), X: t.x()},
										fmt.Sprintf("on=%v in=%v", on, in), fmt.Sprintf("on=%v in=%v", res.On, res.In)
								})
							}
							if got := fsg.CollinearPoint(fp); got != exact.Collinear(p, sg[0], sg[1]) {
								w.Fail("collinear-long", func() (rt.Case, string, string) {
									return rt.Case{Kind: "seg-point", Op: "collinear", A: segG(fsg.A, fsg.B), B: ptG(fp), X: t.x()}, fmt.Sprint(!got), fmt.Sprint(got)
								})
							}
						}
					}
				}
				_ = ti
			}
		}
		// pairs: (0,0)-b against (-3,2)-d for d on a coarser grid
		if i%1 == 0 {
			a, c := anchors[0], anchors[1]
			fs := geometry.Segment{A: unit[0].pt(a), B: unit[0].pt(b)}
			for j := 0; j < len(ends); j += 7 {
				d := ends[j]
				fo := geometry.Segment{A: unit[0].pt(c), B: unit[0].pt(d)}
				want := exact.SegsIntersect(a, b, c, d)
				w.Evals += 2
				g1, g2 := fs.IntersectsSegment(fo), fo.IntersectsSegment(fs)
				if g1 != want || g2 != want {
					w.Fail("intersects-long", func() (rt.Case, string, string) {
						return rt.Case{Kind: "seg-seg", Op: "intersects", A: segG(fs.A, fs.B), B: segG(fo.A, fo.B), X: unit[0].x()}, fmt.Sprint(want), fmt.Sprintf("%v / swapped %v", g1, g2)
					})
				}
			}
		}
	})
	// near misses and near hits on long segments
	w := r.Worker()
	for _, n := range []int64{12, 100, 4097, 65537, 1000000, 1048570} {
		for _, da := range []int64{-1, 0, 1, 2} {
			for _, db := range []int64{-1, 0, 1, 2} {
				for _, top := range []int64{n, 1, 7} {
					for sym := 0; sym < 8; sym++ {
						q := func(x, y int64) exact.P { sx, sy := symApply(sym, x, y); return exact.P{X: sx, Y: sy} }
						a, b := q(0, 0), q(n, 0)
						c, d := q(n+da, top), q(n+db, -1)
						if abs64i(c.X) > 1<<20 || abs64i(c.Y) > 1<<20 || abs64i(d.X) > 1<<20 || abs64i(d.Y) > 1<<20 {
							continue
						}
						want := exact.SegsIntersect(a, b, c, d)
						t := Xf{Scale: 1}
						fs := geometry.Segment{A: t.pt(a), B: t.pt(b)}
						fo := geometry.Segment{A: t.pt(c), B: t.pt(d)}
						w.Evals += 2
						w.Nontriv++
						w.States += 2
						g1, g2 := fs.IntersectsSegment(fo), fo.IntersectsSegment(fs)
						if g1 != want || g2 != want {
							w.Fail("intersects-near-miss", func() (rt.Case, string, string) {
								return rt.Case{Kind: "seg-seg", Op: "intersects", A: segG(fs.A, fs.B), B: segG(fo.A, fo.B), X: t.x()}, fmt.Sprint(want), fmt.Sprintf("%v / swapped %v", g1, g2)
							})
						}
					}
				}
			}
		}
	}
	w.Flush()
}

// nearSeg: p is one lattice step away from a lattice point of the segment's supporting strip.
func nearSeg(p, a, b exact.P) bool {
	for dy := int64(-1); dy <= 1; dy++ {
		for dx := int64(-1); dx <= 1; dx++ {
			if exact.OnSeg(exact.P{X: p.X + dx, Y: p.Y + dy}, a, b) {
				return true
			}
		}
	}
	return false
}
