package main

import (
	"fmt"

	"github.com/tidwall/geojson/geometry"
	"verif/mc/exact"
	"verif/mc/lat"
	"verif/mc/rt"
)

// C19 — segment-level kernels are exact and symmetric.
//
// State space: every segment (ordered endpoint pair, zero length included)
// over the k x k lattice; probes: every point of the half-step refinement,
// every ordered pair of segments. Repeated under power-of-two scalings and
// large translations (float arithmetic must stay exact there).

func init() { register("C19", runC19, evalC19) }

var c19Xfs = []Xf{
	ident,
	{Scale: 131072, Tx: 0, Ty: 0},           // 2^17: coordinates up to 2^20
	{Scale: 1.0 / 1024, Tx: 0, Ty: 0},       // 2^-10
	{Scale: 0.5, Tx: 1048570, Ty: -1048570}, // near +-2^20
	{Scale: 0.25, Tx: -0.75, Ty: 0.25},      // dyadic offset across 0
}

func segG(a, b geometry.Point) *rt.G {
	return &rt.G{K: "line", P: [][2]float64{{a.X, a.Y}, {b.X, b.Y}}}
}
func ptG(p geometry.Point) *rt.G { return &rt.G{K: "point", P: [][2]float64{{p.X, p.Y}}} }

func runC19(r *rt.Run) {
	k, off := 5, -2
	if r.Thorough() {
		k, off = 7, -3
	}
	L := lat.Lattice(k, off)
	H := lat.Half(k, off)
	r.Bounds["lattice"] = fmt.Sprintf("%dx%d", k, k)
	r.Bounds["segments"] = len(L) * len(L)
	r.Bounds["probe_points"] = len(H)
	r.Bounds["transforms"] = len(c19Xfs)
	r.Rule = "all ordered endpoint pairs over the lattice (zero-length included) x all half-step points (raycast/contains-point/collinear) and x all segments (intersects both orders, contains), under each float transform; non-trivial = probe inside the segment's y-range (point cases) / bounding boxes meet (segment cases)"
	r.Assume = []string{"coordinates are dyadic with magnitude <= 2^20 (the property's own domain)", "exact oracle: integer orientation predicates (verif/mc/exact)"}
	type seg struct{ a, b exact.P }
	segs := make([]seg, 0, len(L)*len(L))
	for _, a := range L {
		for _, b := range L {
			segs = append(segs, seg{a, b})
		}
	}
	for ti, t := range c19Xfs {
		t := t
		fl := make([]geometry.Segment, len(segs))
		for i, s := range segs {
			fl[i] = geometry.Segment{A: t.pt(s.a), B: t.pt(s.b)}
		}
		fh := t.pts(H)
		r.States.Add(int64(len(segs)))
		r.Trans.Add(int64(2 * len(segs)))
		r.ParFor(len(segs), func(i int, w *rt.Worker) {
			s, fsg := segs[i], fl[i]
			for j, p := range H {
				fp := fh[j]
				w.Evals += 3
				on := exact.OnSeg(p, s.a, s.b)
				in := !on && exact.RayCross(p.R(), s.a, s.b)
				if p.Y >= min(s.a.Y, s.b.Y) && p.Y <= max(s.a.Y, s.b.Y) {
					w.Nontriv++
				}
				res := fsg.Raycast(fp)
				if res.On != on || res.In != in {
					w.Fail("raycast", func() (rt.Case, string, string) {
						return rt.Case{Kind: "seg-point", Op: "raycast", A: segG(fsg.A, fsg.B), B: ptG(fp), X: t.x()},
							fmt.Sprintf("on=%v in=%v", on, in), fmt.Sprintf("on=%v in=%v", res.On, res.In)
					})
				}
				if ti == 0 {
					w.Outcome(fmt.Sprintf("raycast on=%v in=%v", on, in))
				}
				if got := fsg.ContainsPoint(fp); got != on {
					w.Fail("containspoint", func() (rt.Case, string, string) {
						return rt.Case{Kind: "seg-point", Op: "containspoint", A: segG(fsg.A, fsg.B), B: ptG(fp), X: t.x()},
							fmt.Sprint(on), fmt.Sprint(got)
					})
				}
				col := exact.Collinear(p, s.a, s.b)
				if got := fsg.CollinearPoint(fp); got != col {
					w.Fail("collinear", func() (rt.Case, string, string) {
						return rt.Case{Kind: "seg-point", Op: "collinear", A: segG(fsg.A, fsg.B), B: ptG(fp), X: t.x()},
							fmt.Sprint(col), fmt.Sprint(got)
					})
				}
			}
			for j, o := range segs {
				fo := fl[j]
				w.Evals += 2
				want := exact.SegsIntersect(s.a, s.b, o.a, o.b)
				if ti == 0 {
					if want2 := exact.SegsIntersect2(s.a, s.b, o.a, o.b); want2 != want {
						r.HarnessError(fmt.Sprintf("oracle formulations disagree on %v %v", s, o))
					}
				}
				if max(min(s.a.X, s.b.X), min(o.a.X, o.b.X)) <= min(max(s.a.X, s.b.X), max(o.a.X, o.b.X)) &&
					max(min(s.a.Y, s.b.Y), min(o.a.Y, o.b.Y)) <= min(max(s.a.Y, s.b.Y), max(o.a.Y, o.b.Y)) {
					w.Nontriv++
				}
				got := fsg.IntersectsSegment(fo)
				if got != want {
					w.Fail("intersects", func() (rt.Case, string, string) {
						return rt.Case{Kind: "seg-seg", Op: "intersects", A: segG(fsg.A, fsg.B), B: segG(fo.A, fo.B), X: t.x()},
							fmt.Sprint(want), fmt.Sprint(got)
					})
				}
				if ti == 0 {
					w.Outcome(fmt.Sprintf("intersects=%v", want))
				}
				if j > i {
					if rev := fo.IntersectsSegment(fsg); rev != got {
						w.Fail("asymmetric", func() (rt.Case, string, string) {
							return rt.Case{Kind: "seg-seg", Op: "symmetry", A: segG(fsg.A, fsg.B), B: segG(fo.A, fo.B), X: t.x()},
								"A.intersects(B) == B.intersects(A)", fmt.Sprintf("%v vs %v", got, rev)
						})
					}
				}
				wc := exact.SegContainsSeg(s.a, s.b, o.a, o.b)
				if gc := fsg.ContainsSegment(fo); gc != wc {
					w.Fail("contains", func() (rt.Case, string, string) {
						return rt.Case{Kind: "seg-seg", Op: "contains", A: segG(fsg.A, fsg.B), B: segG(fo.A, fo.B), X: t.x()},
							fmt.Sprint(wc), fmt.Sprint(gc)
					})
				}
			}
		})
		if ti == 0 {
			r.Sample(map[string]any{"segment": segG(fl[7].A, fl[7].B), "probe": ptG(fh[3]), "transform": t.String()})
		}
	}
	r.Sample(map[string]any{"segment_pair": []any{segG(geometry.Point{X: 0, Y: 1}, geometry.Point{X: 0, Y: 2}), segG(geometry.Point{X: 0, Y: 0}, geometry.Point{X: 0, Y: 3})}, "note": "nested collinear pair (needs 4 collinear lattice points)"})
}

func evalC19(c *rt.Case) (bool, string, string, error) {
	if c.Kind != "seg-point" && c.Kind != "seg-seg" {
		return false, "", "", fmt.Errorf("not mine")
	}
	t := xfOf(c.X)
	ea, ok1 := exactOf(c.A, t)
	eb, ok2 := exactOf(c.B, t)
	if !ok1 || !ok2 || len(c.A.P) != 2 {
		return false, "", "", fmt.Errorf("coordinates outside the exact domain")
	}
	sa := geometry.Segment{A: g2(c.A.P)[0], B: g2(c.A.P)[1]}
	a, b := ea.Line[0], ea.Line[1]
	if c.Kind == "seg-point" {
		p, fp := eb.Pt, g2(c.B.P)[0]
		switch c.Op {
		case "raycast":
			on := exact.OnSeg(p, a, b)
			in := !on && exact.RayCross(p.R(), a, b)
			res := sa.Raycast(fp)
			return res.On != on || res.In != in, fmt.Sprintf("on=%v in=%v", on, in), fmt.Sprintf("on=%v in=%v", res.On, res.In), nil
		case "containspoint":
			on := exact.OnSeg(p, a, b)
			got := sa.ContainsPoint(fp)
			return got != on, fmt.Sprint(on), fmt.Sprint(got), nil
		case "collinear":
			col := exact.Collinear(p, a, b)
			got := sa.CollinearPoint(fp)
			return got != col, fmt.Sprint(col), fmt.Sprint(got), nil
		}
		return false, "", "", fmt.Errorf("unknown op")
	}
	sb := geometry.Segment{A: g2(c.B.P)[0], B: g2(c.B.P)[1]}
	cc, d := eb.Line[0], eb.Line[1]
	switch c.Op {
	case "intersects":
		want := exact.SegsIntersect(a, b, cc, d)
		got := sa.IntersectsSegment(sb)
		return got != want, fmt.Sprint(want), fmt.Sprint(got), nil
	case "symmetry":
		g1, g2 := sa.IntersectsSegment(sb), sb.IntersectsSegment(sa)
		return g1 != g2, "A.intersects(B) == B.intersects(A)", fmt.Sprintf("%v vs %v", g1, g2), nil
	case "contains":
		want := exact.SegContainsSeg(a, b, cc, d)
		got := sa.ContainsSegment(sb)
		return got != want, fmt.Sprint(want), fmt.Sprint(got), nil
	}
	return false, "", "", fmt.Errorf("unknown op")
}
