package main

import (
	"fmt"
	"math"
	"math/big"
	"strings"

	"github.com/tidwall/geojson"
	"github.com/tidwall/geojson/geometry"
	"verif/mc/rt"
)

// C11 — bounding rectangle, centre, validity and emptiness are exact
// functions of the coordinates.

func init() { register("C11", runC11, evalC11) }

var c11Alphabet = func() []float64 {
	up := func(f float64) float64 { return math.Nextafter(f, math.Inf(1)) }
	dn := func(f float64) float64 { return math.Nextafter(f, math.Inf(-1)) }
	base := []float64{0, 5e-324, 1, 90, up(90), dn(90), 180, up(180), dn(180), 1e308, math.MaxFloat64}
	out := []float64{math.Copysign(0, -1)}
	for _, b := range base {
		out = append(out, b)
		if b != 0 {
			out = append(out, -b)
		}
	}
	return out
}()

// positions walks an object and returns every position of it, and every
// position of its non-empty parts (the ones the rectangle is made of).
func positions(o geojson.Object) (all, occupied []geometry.Point, ok bool) {
	ok = true
	series := func(s geometry.Series) []geometry.Point {
		var ps []geometry.Point
		if s == nil {
			return nil
		}
		for i := 0; i < s.NumPoints(); i++ {
			ps = append(ps, s.PointAt(i))
		}
		return ps
	}
	switch v := o.(type) {
	case *geojson.Point:
		all = []geometry.Point{v.Base()}
		occupied = all
	case *geojson.SimplePoint:
		all = []geometry.Point{v.Base()}
		occupied = all
	case *geojson.LineString:
		all = series(v.Base())
		if len(all) >= 2 {
			occupied = all
		}
	case *geojson.Polygon:
		p := v.Base()
		ext := series(p.Exterior)
		all = append(all, ext...)
		if len(ext) >= 3 {
			occupied = append(occupied, ext...)
		}
		for _, h := range p.Holes {
			hp := series(h)
			all = append(all, hp...)
			// a ring of fewer than three positions is not a part that occupies
			// space: its positions count for validity, not for the rectangle
			if len(ext) >= 3 && len(hp) >= 3 {
				occupied = append(occupied, hp...)
			}
		}
	case *geojson.Rect:
		r := v.Base()
		all = []geometry.Point{r.Min, r.Max}
		occupied = all
	case *geojson.Feature:
		return positions(v.Base())
	case geojson.Collection:
		for _, c := range v.Children() {
			a, oc, k := positions(c)
			all = append(all, a...)
			occupied = append(occupied, oc...)
			ok = ok && k
		}
	default:
		ok = false // Circle: governed by C13
	}
	return
}

func exactMid(a, b float64) float64 {
	x := new(big.Float).SetPrec(2200).SetFloat64(a)
	y := new(big.Float).SetPrec(2200).SetFloat64(b)
	x.Add(x, y)
	x.Quo(x, big.NewFloat(2))
	f, _ := x.Float64()
	return f
}

func feq(a, b float64) bool {
	return a == b || (math.IsNaN(a) && math.IsNaN(b))
}

// c11Check returns the first attribute of o that differs from the definition.
// c11Check returns the first mismatch (replay), c11CheckAll every one: a
// listed finding on one accessor must not hide another accessor.
func c11Check(o geojson.Object) (what, exp, got string) {
	if f := c11CheckAll(o); len(f) > 0 {
		return f[0][0], f[0][1], f[0][2]
	}
	return
}

func c11CheckAll(o geojson.Object) (fails [][3]string) {
	defer func() {
		if r := recover(); r != nil {
			fails = append(fails, [3]string{"panic", "no panic", fmt.Sprint(r)})
		}
	}()
	all, occ, ok := positions(o)
	if !ok {
		return
	}
	return c11CheckPositions(o, all, occ)
}

// c11CheckPositions: the accessors of o against the given positions (all of
// them, and those of the parts that occupy space).
func c11CheckPositions(o geojson.Object, all, occ []geometry.Point) (fails [][3]string) {
	defer func() {
		if r := recover(); r != nil {
			fails = append(fails, [3]string{"panic", "no panic", fmt.Sprint(r)})
		}
	}()
	empty := len(occ) == 0
	if o.Empty() != empty {
		fails = append(fails, [3]string{"empty", fmt.Sprint(empty), fmt.Sprint(o.Empty())})
	}
	valid := true
	for _, p := range all {
		if !(p.X >= -180 && p.X <= 180 && p.Y >= -90 && p.Y <= 90) {
			valid = false
		}
	}
	if o.Valid() != valid {
		fails = append(fails, [3]string{"valid", fmt.Sprint(valid), fmt.Sprint(o.Valid())})
	}
	if empty {
		return
	}
	r := geometry.Rect{Min: occ[0], Max: occ[0]}
	for _, p := range occ[1:] {
		r.Min.X, r.Min.Y = math.Min(r.Min.X, p.X), math.Min(r.Min.Y, p.Y)
		r.Max.X, r.Max.Y = math.Max(r.Max.X, p.X), math.Max(r.Max.Y, p.Y)
	}
	g := o.Rect()
	if !(feq(g.Min.X, r.Min.X) && feq(g.Min.Y, r.Min.Y) && feq(g.Max.X, r.Max.X) && feq(g.Max.Y, r.Max.Y)) {
		fails = append(fails, [3]string{"rect", fmt.Sprint(r), fmt.Sprint(g)})
	}
	var c geometry.Point
	switch v := o.(type) {
	case *geojson.Point:
		c = v.Base()
	case *geojson.SimplePoint:
		c = v.Base()
	default:
		if f, isF := o.(*geojson.Feature); isF {
			if pt, isP := f.Base().(*geojson.Point); isP {
				c = pt.Base()
				break
			}
			if pt, isP := f.Base().(*geojson.SimplePoint); isP {
				c = pt.Base()
				break
			}
		}
		c = geometry.Point{X: exactMid(r.Min.X, r.Max.X), Y: exactMid(r.Min.Y, r.Max.Y)}
	}
	gc := o.Center()
	if !(feq(gc.X, c.X) && feq(gc.Y, c.Y)) {
		fails = append(fails, [3]string{"center", fmt.Sprint(c), fmt.Sprint(gc)})
	}
	return
}

// c11Objects builds every kind from one position sequence.
func c11Objects(ps []geometry.Point) []geojson.Object {
	var out, forced []geojson.Object
	if len(ps) == 1 {
		out = append(out, geojson.NewPoint(ps[0]), geojson.NewSimplePoint(ps[0]), geojson.NewPointZ(ps[0], 1), geojson.NewFeature(geojson.NewPoint(ps[0]), ""))
	}
	ls := geojson.NewLineString(newLineScribbled(ps, nil))
	pg := geojson.NewPolygon(newPolyScribbled(ps, nil, nil))
	out = append(out, ls, pg, geojson.NewMultiPoint(ps), geojson.NewFeature(ls, `{"id":1}`))
	if len(ps) == 2 {
		r := geometry.Rect{Min: geometry.Point{X: math.Min(ps[0].X, ps[1].X), Y: math.Min(ps[0].Y, ps[1].Y)}, Max: geometry.Point{X: math.Max(ps[0].X, ps[1].X), Y: math.Max(ps[0].Y, ps[1].Y)}}
		out = append(out, geojson.NewRect(r))
	}
	if len(ps) >= 2 {
		var pts []geojson.Object
		for _, p := range ps {
			pts = append(pts, geojson.NewPoint(p))
		}
		out = append(out, geojson.NewGeometryCollection(pts))
		// empties mixed with non-empties; the leading child is empty and carries the first position
		head := geojson.NewLineString(newLineScribbled(ps[:1], nil))
		rest := geojson.NewLineString(newLineScribbled(ps[1:], nil))
		out = append(out, geojson.NewGeometryCollection([]geojson.Object{head, rest, geojson.NewPoint(ps[len(ps)-1])}))
		out = append(out, geojson.NewFeatureCollection([]geojson.Object{geojson.NewFeature(rest, ""), geojson.NewGeometryCollection(nil), geojson.NewPoint(ps[0])}))
		out = append(out, geojson.NewMultiLineString([]*geometry.Line{newLineScribbled(ps[:1], nil), newLineScribbled(ps, nil)}))
		out = append(out, geojson.NewMultiPolygon([]*geometry.Poly{newPolyScribbled(ps, nil, nil), newPolyScribbled(ps[1:], nil, nil)}))
		// a later child whose box extends the running union on both sides of an axis
		all := geojson.NewLineString(newLineScribbled(ps, nil))
		out = append(out, geojson.NewGeometryCollection([]geojson.Object{geojson.NewPoint(ps[0]), all}))
		out = append(out, geojson.NewFeatureCollection([]geojson.Object{geojson.NewFeature(geojson.NewPoint(ps[len(ps)-1]), ""), geojson.NewPoint(ps[0]), geojson.NewFeature(all, "")}))
		out = append(out, geojson.NewMultiLineString([]*geometry.Line{newLineScribbled(ps[:2], nil), newLineScribbled(ps, nil)}))
		if len(ps) >= 3 {
			out = append(out, geojson.NewMultiPolygon([]*geometry.Poly{newPolyScribbled(ps[:3], nil, nil), newPolyScribbled(ps, nil, nil)}))
		}
	}
	// series that occupy no space under a forced index (appended after the
	// existing objects: known findings refer to objects by index)
	if len(ps) >= 1 {
		for _, k := range []geometry.IndexKind{geometry.RTree, geometry.QuadTree} {
			fo := &geometry.IndexOptions{Kind: k, MinPoints: 1}
			forced = append(forced, geojson.NewLineString(newLineScribbled(ps[:1], fo)))
			if len(ps) >= 2 {
				forced = append(forced, geojson.NewPolygon(newPolyScribbled(ps[:2], nil, fo)))
				forced = append(forced, geojson.NewMultiLineString([]*geometry.Line{newLineScribbled(ps[1:2], fo), newLineScribbled(ps, fo)}))
			}
		}
	}
	// polygons with holes of one and two positions (they cut nothing out, but their positions count)
	if len(ps) >= 2 {
		sq := []geometry.Point{{X: -1, Y: -1}, {X: 1, Y: -1}, {X: 1, Y: 1}, {X: -1, Y: 1}, {X: -1, Y: -1}}
		forced = append(forced, geojson.NewPolygon(newPolyScribbled(sq, [][]geometry.Point{ps[:1]}, nil)))
		forced = append(forced, geojson.NewPolygon(newPolyScribbled(sq, [][]geometry.Point{ps[:2], ps[len(ps)-1:]}, nil)))
		forced = append(forced, geojson.NewMultiPolygon([]*geometry.Poly{newPolyScribbled(sq, [][]geometry.Point{ps[1:2]}, nil)}))
	}
	// objects derived from other objects: translated copies (appended last:
	// known findings refer to objects by index)
	for _, d := range [][2]float64{{0, 0}, {1, -2}, {0.1, 0.3}} {
		out = append(out, geojson.NewLineString(newLineScribbled(ps, nil).Move(d[0], d[1])))
		out = append(out, geojson.NewPolygon(newPolyScribbled(ps, nil, nil).Move(d[0], d[1])))
		if len(ps) >= 2 {
			hole := newPolyScribbled(ps, [][]geometry.Point{ps[1:]}, nil).Move(d[0], d[1])
			out = append(out, geojson.NewMultiPolygon([]*geometry.Poly{hole}))
		}
	}
	return append(out, forced...)
}

func runC11(r *rt.Run) {
	A := c11Alphabet
	depth := 3
	if r.Thorough() {
		depth = 4
	}
	r.Bounds["float_alphabet"] = len(A)
	r.Bounds["sequence_depth_per_axis"] = depth
	r.Rule = "every sequence of length 1..depth over a 22-value special-float alphabet (-0, +-5e-324, +-1, +-90 and +-180 with their 1-ulp neighbours, +-1e308, +-MaxFloat64) on one axis with the other fixed, on the other axis, and on both (second axis reversed); each realised as Point/SimplePoint/PointZ/Feature, LineString, Polygon, MultiPoint, Rect, GeometryCollection (incl. empties mixed with non-empties), FeatureCollection, MultiLineString, MultiPolygon, and as LineString / Polygon / MultiPolygon obtained through Move by (0,0), (1,-2), (0.1,0.3); plus every object of the C09 pool; rect = direct min/max over non-empty parts, centre = exactly rounded midpoint, valid = every position in range, empty = no part occupies space; non-trivial = non-empty object"
	r.Assume = []string{"Circle objects are excluded (their rect/validity are the polygon's; C13)", "midpoint reference computed in 2200-bit arithmetic and rounded once"}
	n := len(A)
	r.ParFor(n*3, func(i int, w *rt.Worker) {
		first, mode := i%n, i/n
		var rec func(seq []float64)
		rec = func(seq []float64) {
			ps := make([]geometry.Point, len(seq))
			for k, v := range seq {
				switch mode {
				case 0:
					ps[k] = geometry.Point{X: v, Y: 0}
				case 1:
					ps[k] = geometry.Point{X: 0, Y: v}
				default:
					ps[k] = geometry.Point{X: v, Y: seq[len(seq)-1-k]}
				}
			}
			w.Trans++
			for oi, o := range c11Objects(ps) {
				w.States++
				w.Evals += 4
				if !o.Empty() {
					w.Nontriv++
				}
				for _, f := range c11CheckAll(o) {
					oi, what, exp, got := oi, f[0], f[1], f[2]
					w.Fail(fmt.Sprintf("%s-%T", what, o), func() (rt.Case, string, string) {
						return rt.Case{Kind: "attrs", Op: what, Nums: append([]float64(nil), seq...), X: map[string]string{"mode": fmt.Sprint(mode), "obj": fmt.Sprint(oi)}}, exp, got
					})
				}
				if len(seq) == 2 && mode == 0 {
					w.Outcome(fmt.Sprintf("%T valid=%v empty=%v", o, o.Valid(), o.Empty()))
				}
			}
			if len(seq) == depth {
				return
			}
			for _, v := range A {
				rec(append(seq, v))
			}
		}
		rec([]float64{A[first]})
	})
	// polygons read from documents under AllowRects (whatever kind Parse builds
	// for them): the accessors are functions of the document's positions
	L := c11RingLattice
	r.Bounds["parsed_ring_lattice"] = fmt.Sprintf("%d positions, every closed ring of 4 and 5 positions, 3 wrappings, AllowRects on/off", len(L))
	r.ParFor(len(L)*len(L), func(i int, w *rt.Worker) {
		for k := 0; k < len(L); k++ {
			for l := -1; l < len(L); l++ {
				idx := []int{i / len(L), i % len(L), k}
				if l >= 0 {
					idx = append(idx, l)
				}
				w.Trans++
				for variant := 0; variant < 6; variant++ {
					w.States++
					w.Nontriv++
					w.Evals += 4
					for _, f := range c11RingDoc(idx, variant) {
						what, exp, got := f[0], f[1], f[2]
						nums := make([]float64, len(idx))
						for j, v := range idx {
							nums[j] = float64(v)
						}
						w.Fail("parsed-ring-"+what, func() (rt.Case, string, string) {
							return rt.Case{Kind: "attrs", Op: what, Nums: nums, X: map[string]string{"ringdoc": fmt.Sprint(variant)}}, exp, got
						})
					}
				}
			}
		}
	})
	// the object pool
	size := 0
	if r.Thorough() {
		size = 1
	}
	pool := buildObjPool(size)
	r.Bounds["pool"] = len(pool.objs)
	w := r.Worker()
	for _, p := range pool.objs {
		w.States++
		w.Evals += 4
		for _, f := range c11CheckAll(p.O) {
			p, what, exp, got := p, f[0], f[1], f[2]
			w.Fail(fmt.Sprintf("pool-%s-%s", what, p.Kind), func() (rt.Case, string, string) {
				return rt.Case{Kind: "attrs", Op: what, X: map[string]string{"pool": p.Desc}}, exp, got
			})
		}
	}
	w.Flush()
	r.Sample(rt.Case{Kind: "attrs", Op: "center", Nums: []float64{1e308, 1e308}, X: map[string]string{"mode": "0", "obj": "0"}})
	r.Sample(rt.Case{Kind: "attrs", Op: "rect", Nums: []float64{180, math.Nextafter(180, 181), -5e-324}, X: map[string]string{"mode": "2", "obj": "4"}})
}

var c11RingLattice = func() []geometry.Point {
	var out []geometry.Point
	for _, x := range []float64{-200, -2, 0, 4} {
		for _, y := range []float64{-100, 0, 3} {
			out = append(out, geometry.Point{X: x, Y: y})
		}
	}
	return out
}()

// c11RingDoc: the closed ring through the lattice positions idx as a Polygon
// document: variant&1 = AllowRects, variant/2 = bare / Feature / member of a
// GeometryCollection next to a point.
func c11RingDoc(idx []int, variant int) [][3]string {
	var ps []geometry.Point
	for _, i := range idx {
		if i < 0 || i >= len(c11RingLattice) {
			return [][3]string{{"harness", "index in range", fmt.Sprint(i)}}
		}
		ps = append(ps, c11RingLattice[i])
	}
	ps = append(ps, ps[0])
	var sb strings.Builder
	sb.WriteString(`{"type":"Polygon","coordinates":[[`)
	for i, p := range ps {
		if i > 0 {
			sb.WriteByte(',')
		}
		fmt.Fprintf(&sb, "[%v,%v]", p.X, p.Y)
	}
	sb.WriteString(`]]}`)
	doc := sb.String()
	all := ps
	switch variant / 2 {
	case 1:
		doc = `{"type":"Feature","geometry":` + doc + `,"properties":{}}`
	case 2:
		doc = `{"type":"GeometryCollection","geometries":[{"type":"Point","coordinates":[1,1]},` + doc + `]}`
		all = append([]geometry.Point{{X: 1, Y: 1}}, ps...)
	}
	o, err := geojson.Parse(doc, &geojson.ParseOptions{AllowRects: variant&1 == 1, IndexChildren: 64, IndexGeometry: 64})
	if err != nil {
		return [][3]string{{"parse", "accepted", err.Error()}}
	}
	return c11CheckPositions(o, all, all)
}

func evalC11(c *rt.Case) (bool, string, string, error) {
	if c.Kind != "attrs" {
		return false, "", "", fmt.Errorf("not mine")
	}
	if v, ok := c.X["ringdoc"]; ok {
		var variant int
		fmt.Sscan(v, &variant)
		var idx []int
		for _, f := range c.Nums {
			idx = append(idx, int(f))
		}
		if len(idx) < 3 || variant < 0 || variant > 5 {
			return false, "", "", fmt.Errorf("malformed case")
		}
		for _, f := range c11RingDoc(idx, variant) {
			if f[0] == c.Op {
				return true, f[1], f[0] + ": " + f[2], nil
			}
		}
		return false, "", "", nil
	}
	if d, ok := c.X["pool"]; ok {
		for size := 0; size < 2; size++ {
			pool := buildObjPool(size)
			if i, ok := pool.index[d]; ok {
				for _, f := range c11CheckAll(pool.objs[i].O) {
					if f[0] == c.Op {
						return true, f[1], f[0] + ": " + f[2], nil
					}
				}
				return false, "", "", nil
			}
		}
		return false, "", "", fmt.Errorf("object not in pool")
	}
	var mode, oi int
	fmt.Sscan(c.X["mode"], &mode)
	fmt.Sscan(c.X["obj"], &oi)
	seq := c.Nums
	ps := make([]geometry.Point, len(seq))
	for k, v := range seq {
		switch mode {
		case 0:
			ps[k] = geometry.Point{X: v, Y: 0}
		case 1:
			ps[k] = geometry.Point{X: 0, Y: v}
		default:
			ps[k] = geometry.Point{X: v, Y: seq[len(seq)-1-k]}
		}
	}
	objs := c11Objects(ps)
	if oi >= len(objs) {
		return false, "", "", fmt.Errorf("bad object index")
	}
	for _, f := range c11CheckAll(objs[oi]) {
		if f[0] == c.Op {
			return true, f[1], f[0] + ": " + f[2], nil
		}
	}
	return false, "", "", nil
}
