package main

import (
	"fmt"
	"github.com/tidwall/geojson/geo"
	"math"
	"strconv"

	"github.com/tidwall/geojson"
	"github.com/tidwall/geojson/geometry"
	"verif/mc/exact"
	"verif/mc/lat"
)

// Object pool shared by C09, C10, C11, C05, C16: all 12 kinds with
// discriminating contents built exhaustively from small lattice alphabets.

type pobj struct {
	O     geojson.Object
	Desc  string
	Kind  string
	Geom  geometry.Geometry // base geometry of leaf kinds (point/line/rect/poly), else nil
	Equiv []int             // pool indexes of alternative representations that must answer identically
}

type objPool struct {
	objs  []*pobj
	index map[string]int
}

func (p *objPool) add(o geojson.Object, kind string, g geometry.Geometry) int {
	desc := fmt.Sprintf("%s|%T|%s", kind, o, o.JSON())
	if i, ok := p.index[desc]; ok {
		return i
	}
	p.objs = append(p.objs, &pobj{O: o, Desc: desc, Kind: kind, Geom: g})
	p.index[desc] = len(p.objs) - 1
	return len(p.objs) - 1
}

func (p *objPool) equiv(a, b int) {
	if a == b {
		return
	}
	p.objs[a].Equiv = append(p.objs[a].Equiv, b)
}

func gp(p exact.P) geometry.Point { return ident.pt(p) }

// buildObjPool: size 0 = quick, 1 = thorough.
func buildObjPool(size int) *objPool {
	p := &objPool{index: map[string]int{}}
	L3 := lat.Lattice(3, -1)
	step := func(q, t int) int { // keep every q-th (quick) / t-th (thorough)
		if size == 0 {
			return q
		}
		return t
	}
	// points: Point, SimplePoint, Feature(Point)
	var ptIdx []int
	for _, e := range L3 {
		g := gp(e)
		a := p.add(geojson.NewPoint(g), "Point", g)
		b := p.add(geojson.NewSimplePoint(g), "SimplePoint", g)
		c := p.add(geojson.NewFeature(geojson.NewPoint(g), ""), "Feature", nil)
		p.equiv(b, a)
		p.equiv(c, a)
		ptIdx = append(ptIdx, a)
	}
	p.add(geojson.NewPointZ(gp(L3[4]), 7), "Point", gp(L3[4]))
	// half-step points (on edges / inside)
	for i, e := range lat.Half(3, -1) {
		if (e.X%2 != 0 || e.Y%2 != 0) && i%step(3, 1) == 0 {
			p.add(geojson.NewPoint(gp(e)), "Point", gp(e))
		}
	}
	// rects and their five-point polygons
	for i, s := range poolRects(3, -1) {
		if i%step(2, 1) != 0 {
			continue
		}
		r := ident.rect(s.E)
		a := p.add(geojson.NewRect(r), "Rect", r)
		ring := []geometry.Point{{X: r.Min.X, Y: r.Min.Y}, {X: r.Max.X, Y: r.Min.Y}, {X: r.Max.X, Y: r.Max.Y}, {X: r.Min.X, Y: r.Max.Y}, {X: r.Min.X, Y: r.Min.Y}}
		poly := geometry.NewPoly(ring, nil, nil)
		b := p.add(geojson.NewPolygon(poly), "Polygon", poly)
		p.equiv(a, b)
		if i%8 == 0 {
			c := p.add(geojson.NewFeature(geojson.NewRect(r), `{"id":1}`), "Feature", nil)
			p.equiv(c, a)
		}
	}
	// lines: every 2-position line, a slice of the 3-position lines
	var lineIdx []int
	li := 0
	lat.Seqs(L3, 2, 3, -1, func(seq []exact.P) {
		li++
		if len(seq) == 3 && li%step(9, 2) != 0 {
			return
		}
		if len(seq) == 2 && li%step(2, 1) != 0 {
			return
		}
		l := geometry.NewLine(ident.pts(seq), nil)
		a := p.add(geojson.NewLineString(l), "LineString", l)
		lineIdx = append(lineIdx, a)
		if li%10 == 0 {
			c := p.add(geojson.NewFeature(geojson.NewLineString(l), ""), "Feature", nil)
			p.equiv(c, a)
		}
	})
	// polygons: simple rings <= 4 (quick: one rotation per ring, both directions)
	var polyIdx []int
	var polyGeoms []*geometry.Poly
	for i, rg := range lat.SimpleRings(L3, 4) {
		mi := 0
		for k, q := range rg {
			if q.Y < rg[mi].Y || (q.Y == rg[mi].Y && q.X < rg[mi].X) {
				mi = k
			}
		}
		if size == 0 && mi != 0 {
			continue
		}
		if size == 1 && i%2 != 0 && mi != 0 {
			continue
		}
		poly := geometry.NewPoly(ident.pts(lat.Close(rg)), nil, nil)
		a := p.add(geojson.NewPolygon(poly), "Polygon", poly)
		polyIdx = append(polyIdx, a)
		polyGeoms = append(polyGeoms, poly)
		if len(polyIdx)%7 == 0 {
			c := p.add(geojson.NewFeature(geojson.NewPolygon(poly), `{"properties":{"n":1}}`), "Feature", nil)
			p.equiv(c, a)
		}
	}
	// polygons with a hole (5x5 lattice scaled into the 3x3 range: half units)
	holedT := Xf{Scale: 0.25, Tx: -1, Ty: -1}
	for _, h := range [][]exact.P{P2(1, 1, 3, 1, 3, 3, 1, 3, 1, 1), P2(1, 1, 2, 1, 1, 2, 1, 1), P2(0, 0, 2, 1, 1, 2, 0, 0)} {
		poly := geometry.NewPoly(holedT.pts(curatedExteriors["square"]), [][]geometry.Point{holedT.pts(h)}, nil)
		p.add(geojson.NewPolygon(poly), "Polygon", poly)
	}
	// empties
	emptyLine := geojson.NewLineString(geometry.NewLine(nil, nil))
	p.add(emptyLine, "LineString", nil)
	p.add(geojson.NewPolygon(geometry.NewPoly(nil, nil, nil)), "Polygon", nil)
	emptyGC := geojson.NewGeometryCollection(nil)
	p.add(emptyGC, "GeometryCollection", nil)
	p.add(geojson.NewMultiPoint(nil), "MultiPoint", nil)
	p.add(geojson.NewFeatureCollection(nil), "FeatureCollection", nil)
	p.add(geojson.NewFeature(emptyGC, ""), "Feature", nil)
	// multi geometries and collections over pairs of leaves
	obj := func(i int) geojson.Object { return p.objs[i].O }
	for i := 0; i < len(ptIdx); i += step(2, 1) {
		for j := 0; j < len(ptIdx); j += step(3, 2) {
			a, b := p.objs[ptIdx[i]].Geom.(geometry.Point), p.objs[ptIdx[j]].Geom.(geometry.Point)
			p.add(geojson.NewMultiPoint([]geometry.Point{a, b}), "MultiPoint", nil)
		}
		m := p.add(geojson.NewMultiPoint([]geometry.Point{p.objs[ptIdx[i]].Geom.(geometry.Point)}), "MultiPoint", nil)
		g1 := p.add(geojson.NewGeometryCollection([]geojson.Object{obj(ptIdx[i])}), "GeometryCollection", nil)
		_ = m
		_ = g1
	}
	for i := 0; i < len(lineIdx); i += step(11, 5) {
		j := (i*7 + 3) % len(lineIdx)
		la, lb := p.objs[lineIdx[i]].Geom.(*geometry.Line), p.objs[lineIdx[j]].Geom.(*geometry.Line)
		p.add(geojson.NewMultiLineString([]*geometry.Line{la, lb}), "MultiLineString", nil)
		p.add(geojson.NewMultiLineString([]*geometry.Line{la}), "MultiLineString", nil)
		p.add(geojson.NewGeometryCollection([]geojson.Object{obj(lineIdx[i]), emptyLine, obj(ptIdx[i%len(ptIdx)])}), "GeometryCollection", nil)
	}
	for i := 0; i < len(polyIdx); i += step(9, 4) {
		j := (i*5 + 1) % len(polyIdx)
		p.add(geojson.NewMultiPolygon([]*geometry.Poly{polyGeoms[i], polyGeoms[j]}), "MultiPolygon", nil)
		p.add(geojson.NewMultiPolygon([]*geometry.Poly{polyGeoms[i]}), "MultiPolygon", nil)
		gc := geojson.NewGeometryCollection([]geojson.Object{obj(polyIdx[i]), obj(lineIdx[i%len(lineIdx)])})
		p.add(gc, "GeometryCollection", nil)
		fc := geojson.NewFeatureCollection([]geojson.Object{geojson.NewFeature(obj(polyIdx[i]), ""), geojson.NewFeature(obj(ptIdx[i%len(ptIdx)]), `{"id":2}`)})
		p.add(fc, "FeatureCollection", nil)
		if i%3 == 0 {
			gi := p.add(gc, "GeometryCollection", nil)
			fi := p.add(geojson.NewFeature(gc, ""), "Feature", nil)
			p.equiv(fi, gi)
			p.add(geojson.NewGeometryCollection([]geojson.Object{gc, emptyGC}), "GeometryCollection", nil)
			p.add(geojson.NewFeatureCollection([]geojson.Object{fc}), "FeatureCollection", nil)
		}
	}
	// circles: radii around one lattice step (1 degree ~ 111.19 km)
	for _, c := range []geometry.Point{{X: 0, Y: 0}, {X: 1, Y: 1}, {X: -1, Y: 0}} {
		for _, m := range []float64{0, 50000, 111000, 111400, 158000, 250000} {
			p.add(geojson.NewCircle(c, m, 64), "Circle", nil)
		}
	}
	p.add(geojson.NewCircle(geometry.Point{X: 0, Y: 0}, 111400, 8), "Circle", nil)
	// a high-latitude circle: the disc is much wider in longitude than the
	// 64-gon built from the due-east destination point
	p.add(geojson.NewCircle(geometry.Point{X: 0, Y: 60}, 2000000, 64), "Circle", nil)
	for _, q := range []geometry.Point{{X: 33.25, Y: 60}, {X: 20, Y: 60}, {X: 40, Y: 60}} {
		p.add(geojson.NewPoint(q), "Point", q)
		p.add(geojson.NewMultiPoint([]geometry.Point{q}), "MultiPoint", nil)
		p.add(geojson.NewFeature(geojson.NewPoint(q), ""), "Feature", nil)
	}
	// pairs of circles whose rims touch to the last bits: the second radius is
	// the library's own centre distance minus the first radius, and its
	// neighbouring floats
	for _, pr := range [][5]float64{{0, 0, 1, 0, 100.1}, {10, 20, 11, 21, 3000.7}, {2, 48, 3, 49, 0.3}} {
		dl := geo.DistanceTo(pr[1], pr[0], pr[3], pr[2])
		p.add(geojson.NewCircle(geometry.Point{X: pr[0], Y: pr[1]}, pr[4], 64), "Circle", nil)
		rb := math.Nextafter(math.Nextafter(dl-pr[4], 0), 0)
		for k := -2; k <= 2; k++ {
			p.add(geojson.NewCircle(geometry.Point{X: pr[2], Y: pr[3]}, rb, 64), "Circle", nil)
			rb = math.Nextafter(rb, math.Inf(1))
		}
	}
	// probes that discriminate the great-circle disc from its 64-gon: between
	// two polygon vertices, just inside / just outside the disc of radius
	// 111,400 m around (0,0) and around (1,1); as every point-like kind
	for _, c := range []geometry.Point{{X: 0, Y: 0}, {X: 1, Y: 1}} {
		for _, f := range []float64{0.9994, 1.0006, 0.9975} {
			th := (360.0 / 128) * math.Pi / 180
			deg := 111400.0 / (6371e3 * math.Pi / 180) * f
			q := geometry.Point{X: c.X + deg*math.Cos(th)/math.Cos(c.Y*math.Pi/180), Y: c.Y + deg*math.Sin(th)}
			a := p.add(geojson.NewPoint(q), "Point", q)
			b := p.add(geojson.NewSimplePoint(q), "SimplePoint", q)
			f1 := p.add(geojson.NewFeature(geojson.NewPoint(q), ""), "Feature", nil)
			p.equiv(b, a)
			p.equiv(f1, a)
			// wrappers stacked on the argument side: a Feature of a Feature, and a
			// parsed Feature whose "geometry" is a Feature of a Feature
			f2 := p.add(geojson.NewFeature(geojson.NewFeature(geojson.NewPoint(q), ""), `{"id":2}`), "Feature", nil)
			p.equiv(f2, a)
			f3d := fmt.Sprintf(`{"type":"Feature","geometry":{"type":"Feature","geometry":{"type":"Feature","geometry":{"type":"Point","coordinates":[%s,%s]},"properties":{}},"properties":null},"id":3}`,
				strconv.FormatFloat(q.X, 'g', -1, 64), strconv.FormatFloat(q.Y, 'g', -1, 64))
			f3o, err := geojson.Parse(f3d, &geojson.ParseOptions{AllowSimplePoints: true})
			if err != nil {
				panic(err)
			}
			f3 := p.add(f3o, "Feature", nil)
			p.equiv(f3, a)
			p.add(geojson.NewMultiPoint([]geometry.Point{q}), "MultiPoint", nil)
			p.add(geojson.NewGeometryCollection([]geojson.Object{geojson.NewPoint(q)}), "GeometryCollection", nil)
			p.add(geojson.NewFeatureCollection([]geojson.Object{geojson.NewFeature(geojson.NewSimplePoint(q), "")}), "FeatureCollection", nil)
			// the same place as a tiny rectangle, as the equivalent five-point polygon and as a short line
			rc := geometry.Rect{Min: geometry.Point{X: q.X - 1e-5, Y: q.Y - 1e-5}, Max: geometry.Point{X: q.X + 1e-5, Y: q.Y + 1e-5}}
			ri := p.add(geojson.NewRect(rc), "Rect", rc)
			ring := []geometry.Point{rc.Min, {X: rc.Max.X, Y: rc.Min.Y}, rc.Max, {X: rc.Min.X, Y: rc.Max.Y}, rc.Min}
			pg := geometry.NewPoly(ring, nil, nil)
			pi := p.add(geojson.NewPolygon(pg), "Polygon", pg)
			p.equiv(ri, pi)
			p.equiv(pi, ri)
			fr := p.add(geojson.NewFeature(geojson.NewRect(rc), ""), "Feature", nil)
			p.equiv(fr, ri)
			ln := geometry.NewLine([]geometry.Point{rc.Min, rc.Max}, nil)
			p.add(geojson.NewLineString(ln), "LineString", ln)
		}
	}
	// objects read from documents with "bbox" members (the six-number 3D form, a
	// box that is too small, one that is elsewhere) and third ordinates: as far
	// as geometry goes a foreign member; each answers as the plain object.
	// Also Features built by NewFeature whose members happen to look like the
	// Circle convention: a constructor-built Feature answers as its geometry.
	{
		must := func(doc string, opts *geojson.ParseOptions) geojson.Object {
			o, err := geojson.Parse(doc, opts)
			if err != nil {
				panic(err)
			}
			return o
		}
		sqc, sqz := `[[[-1,-1],[1,-1],[1,1],[-1,1],[-1,-1]]]`, `[[[-1,-1,2],[1,-1,4],[1,1,8],[-1,1,4],[-1,-1,2]]]`
		lnc, lnz := `[[-1,-1],[1,1]]`, `[[-1,-1,2],[1,1,8]]`
		plainSq := p.add(must(`{"type":"Polygon","coordinates":`+sqc+`}`, nil), "Polygon", nil)
		plainLn := p.add(must(`{"type":"LineString","coordinates":`+lnc+`}`, nil), "LineString", nil)
		for _, b := range []string{`[-1,-1,2,1,1,8]`, `[-1,-1,0,0]`, `[100,100,101,101]`, `[1,-1,-1,1]`} {
			a := p.add(must(`{"type":"Polygon","bbox":`+b+`,"coordinates":`+sqz+`}`, nil), "Polygon", nil)
			p.equiv(a, plainSq)
			fa := p.add(must(`{"type":"Feature","bbox":`+b+`,"geometry":{"type":"Polygon","coordinates":`+sqz+`},"properties":{}}`, nil), "Feature", nil)
			p.equiv(fa, plainSq)
			l := p.add(must(`{"type":"LineString","bbox":`+b+`,"coordinates":`+lnz+`}`, nil), "LineString", nil)
			p.equiv(l, plainLn)
			fc := must(`{"type":"FeatureCollection","bbox":`+b+`,"features":[{"type":"Feature","bbox":`+b+`,"geometry":{"type":"Polygon","coordinates":`+sqz+`},"properties":{}}]}`, &geojson.ParseOptions{IndexChildren: 1, IndexGeometry: 64, IndexGeometryKind: geometry.QuadTree})
			fci := p.add(fc, "FeatureCollection", nil)
			plainFC := p.add(must(`{"type":"FeatureCollection","features":[{"type":"Feature","geometry":{"type":"Polygon","coordinates":`+sqc+`},"properties":{}}]}`, nil), "FeatureCollection", nil)
			p.equiv(fci, plainFC)
		}
		for _, q := range []geometry.Point{{X: 0, Y: 0}, {X: 1, Y: 1}} {
			base := p.add(geojson.NewPoint(q), "Point", q)
			for _, m := range []string{`{"properties":{"type":"Circle","radius":150000,"radius_units":"m"}}`, `{"id":7,"properties":{"type":"Circle","radius":150,"radius_units":"km"}}`} {
				f1 := p.add(geojson.NewFeature(geojson.NewPoint(q), m), "Feature", nil)
				p.equiv(f1, base)
				f2 := p.add(geojson.NewFeature(geojson.NewSimplePoint(q), m), "Feature", nil)
				p.equiv(f2, base)
			}
		}
	}
	// points carrying more than x,y: a third ordinate (two different values at
	// the same position), a parsed position with z and m, a point with a
	// foreign member. Predicates are planar: each answers as the plain point.
	for _, q := range []geometry.Point{{X: 0, Y: 0}, {X: 1, Y: 1}, {X: 0.5, Y: 0.5}} {
		base := p.add(geojson.NewPoint(q), "Point", q)
		for _, mk := range []func() geojson.Object{
			func() geojson.Object { return geojson.NewPointZ(q, 3) },
			func() geojson.Object { return geojson.NewPointZ(q, 4) },
			func() geojson.Object {
				o, err := geojson.Parse(fmt.Sprintf(`{"type":"Point","coordinates":[%v,%v,12,7]}`, q.X, q.Y), nil)
				if err != nil {
					panic(err)
				}
				return o
			},
			func() geojson.Object {
				o, err := geojson.Parse(fmt.Sprintf(`{"type":"Point","coordinates":[%v,%v],"id":7}`, q.X, q.Y), nil)
				if err != nil {
					panic(err)
				}
				return o
			},
		} {
			z := p.add(mk(), "Point", q)
			p.equiv(z, base)
			p.add(geojson.NewFeature(mk(), ""), "Feature", nil)
			p.add(geojson.NewGeometryCollection([]geojson.Object{mk()}), "GeometryCollection", nil)
		}
	}
	return p
}
