package main

import (
	"bufio"
	"encoding/json"
	"fmt"
	"os"
	"os/exec"
	"path/filepath"
	"runtime"
	"strings"
	"sync"
	"time"

	"verif/mc/rt"
)

// C05 — every operation terminates normally on every input.
//
// The check instruments a scratch copy of /repo's working tree (fuel ticks at
// every function entry and loop iteration, see cmd/instr), builds this same
// program against it (tag verifinstr, go build -overlay) and runs the cases
// in worker subprocesses: a call that panics, exhausts its fuel budget
// (deterministic non-termination oracle) or kills its worker (stack
// overflow, out of memory, uninstrumented dependency loop caught by a
// generous no-progress timeout) is a violation.

func init() { register("C05", runC05, evalCall) }

// instrBuild instruments /repo and builds the instrumented driver; returns
// the scratch directory (caller removes it) and the binary path.
func instrBuild(r *rt.Run) (scratch, bin string, err error) {
	base := os.Getenv("VERIF_SCRATCH")
	if base == "" {
		base = "/var/tmp"
	}
	// sweep stale scratch directories of dead runs
	if old, _ := filepath.Glob(filepath.Join(base, "verif-instr-*")); len(old) > 0 {
		for _, o := range old {
			if st, e := os.Stat(o); e == nil && time.Since(st.ModTime()) > 6*time.Hour {
				os.RemoveAll(o)
			}
		}
	}
	scratch, err = os.MkdirTemp(base, "verif-instr-")
	if err != nil {
		return
	}
	instr := filepath.Join(rt.Root, ".bin", "instr")
	mc := filepath.Join(rt.Root, "mc")
	run := func(dir string, name string, args ...string) error {
		cmd := exec.Command(name, args...)
		cmd.Dir = dir
		out, e := cmd.CombinedOutput()
		if e != nil {
			return fmt.Errorf("%s %v: %v\n%s", name, args, e, out)
		}
		return nil
	}
	if err = run(mc, "go", rt.GoBuild("-o", instr, "./cmd/instr")...); err != nil {
		return
	}
	if err = run(mc, instr, "-repo", rt.RepoDir, "-out", scratch, "-rt", filepath.Join(mc, "instr")); err != nil {
		return
	}
	bin = filepath.Join(scratch, "verif-instr")
	err = run(mc, "go", rt.GoBuild("-tags", "verifinstr", "-overlay", filepath.Join(scratch, "overlay.json"), "-o", bin, "./cmd/verif")...)
	return
}

type workerMsg struct {
	Class string  `json:"class"`
	Case  rt.Case `json:"case"`
	Exp   string  `json:"exp"`
	Got   string  `json:"got"`
}

// runWorkers runs `bin sub <shard> <n>` for every shard, merging counters and
// failures; a worker that dies or stalls is re-run in slow mode (a marker
// before every call) to pin the call down.
func runWorkers(r *rt.Run, bin, sub string, stall time.Duration) {
	n := runtime.GOMAXPROCS(0)
	var wg sync.WaitGroup
	for s := 0; s < n; s++ {
		wg.Add(1)
		go func(s int) {
			defer wg.Done()
			died, last := runOneWorker(r, bin, sub, s, n, false, stall)
			if died != "" {
				// pin down the call
				died2, last2 := runOneWorker(r, bin, sub, s, n, true, stall)
				if died2 == "" {
					died2, last2 = died, last
					r.HarnessError(fmt.Sprintf("worker %d died (%s) but not when re-run; last marker %s", s, died, last))
					return
				}
				c := rt.Case{Kind: "call", Op: "worker-died", X: map[string]string{"marker": last2}}
				var m workerMsg
				if json.Unmarshal([]byte(last2), &m) == nil && m.Case.Kind != "" {
					c = m.Case
				}
				r.Fail("call-kills-or-stalls-process", func() (rt.Case, string, string) {
					return c, "the call returns normally", died2
				})
			}
		}(s)
	}
	wg.Wait()
}

func runOneWorker(r *rt.Run, bin, sub string, shard, n int, slow bool, stall time.Duration) (died, last string) {
	cmd := exec.Command(bin, sub, fmt.Sprint(shard), fmt.Sprint(n))
	procs := "GOMAXPROCS=1"
	if sub == "c05mp" {
		procs = "GOMAXPROCS=4" // the pass that gives the library more than one processor to use
	}
	cmd.Env = append(os.Environ(), "VERIF_TIER="+r.Tier, procs, "GOTRACEBACK=single")
	if slow {
		cmd.Env = append(cmd.Env, "VERIF_SLOW=1")
	}
	stdout, _ := cmd.StdoutPipe()
	var stderr strings.Builder
	cmd.Stderr = &limitedWriter{w: &stderr, n: 4000}
	if err := cmd.Start(); err != nil {
		r.HarnessError("cannot start worker: " + err.Error())
		return "", ""
	}
	lastBeat := time.Now()
	var mu sync.Mutex
	done := make(chan struct{})
	stalled := false
	go func() {
		for {
			select {
			case <-done:
				return
			case <-time.After(2 * time.Second):
				mu.Lock()
				idle := time.Since(lastBeat)
				mu.Unlock()
				if idle > stall {
					stalled = true
					cmd.Process.Kill()
					return
				}
			}
		}
	}()
	sc := bufio.NewScanner(stdout)
	sc.Buffer(make([]byte, 1<<20), 1<<26)
	w := r.Worker()
	for sc.Scan() {
		line := sc.Text()
		mu.Lock()
		lastBeat = time.Now()
		mu.Unlock()
		if len(line) < 2 {
			continue
		}
		switch line[0] {
		case 'B':
			last = line[2:]
		case 'F':
			if slow {
				continue // already reported by the fast run
			}
			var m workerMsg
			if err := json.Unmarshal([]byte(line[2:]), &m); err == nil {
				w.Fail(m.Class, func() (rt.Case, string, string) { return m.Case, m.Exp, m.Got })
			}
		case 'E':
			if slow {
				continue
			}
			var ev, st, tr, nt, maxUsed int64
			fmt.Sscanf(line[2:], "%d %d %d %d %d", &ev, &st, &tr, &nt, &maxUsed)
			w.Evals += ev
			w.States += st
			w.Trans += tr
			w.Nontriv += nt
			r.NoteMax("max_ticks_per_call", maxUsed)
		case 'O':
			if !slow {
				w.Outcome(line[2:])
			}
		}
	}
	err := cmd.Wait()
	close(done)
	w.Flush()
	if stalled {
		return fmt.Sprintf("no progress for %v (killed)", stall), last
	}
	if err != nil {
		msg := stderr.String()
		if i := strings.Index(msg, "\n\n"); i > 0 {
			msg = msg[:i]
		}
		return "worker exited: " + err.Error() + ": " + strings.TrimSpace(msg), last
	}
	return "", last
}

type limitedWriter struct {
	w *strings.Builder
	n int
}

func (l *limitedWriter) Write(p []byte) (int, error) {
	if l.w.Len() < l.n {
		l.w.Write(p)
	}
	return len(p), nil
}

func runC05(r *rt.Run) {
	r.Rule = "object pool of all 12 kinds (C09 pool plus constructor-only degenerates: nil polygon, 0/1-position lines, short rings, empty and 3-deep nested collections) x every Object / Spatial / Collection / geometry method with every pool object as argument; Parse on all byte strings <= 3, all token strings <= 5 (thorough 6), every document within 1-2 deviations of the grammar seeds, nesting families, under 4 option sets; each call under a deterministic fuel budget (10^6 + 2000 (n+m+1)^2 instrumented steps); non-trivial = call on non-empty operands / text starting with '{'"
	r.Assume = []string{"loops inside gjson/pretty/sjson/rtree are not fuel-instrumented: covered by a 300 s no-progress kill of the worker", "nil Object arguments are outside the property (not objects)"}
	scratch, bin, err := instrBuild(r)
	if scratch != "" {
		defer os.RemoveAll(scratch)
	}
	if err != nil {
		r.HarnessError("instrumented build failed: " + err.Error())
		return
	}
	runWorkers(r, bin, "c05worker", 300*time.Second)
	// the documents with many members once more in processes that have four
	// processors (work the library hands to goroutines of its own must come back)
	runWorkers(r, bin, "c05mp", 300*time.Second)
	r.Bounds["workers"] = runtime.GOMAXPROCS(0)
	r.Sample(rt.Case{Kind: "call", Op: "Contains", X: map[string]string{"recv": "LineString [(0,0),(1,0),(2,0)]", "arg": "LineString [(2,0),(1,0),(1,1)]"}})
	r.Sample(rt.Case{Kind: "parsecall", Doc: `{"type":"Polygon","coordinates":[[[0,0],[1,1]]]}`, Cfg: "default"})
}
