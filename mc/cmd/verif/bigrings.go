package main

import (
	"math"

	"github.com/tidwall/geojson/geometry"
	"verif/mc/exact"
)

// Rings with 40-100 vertices (integer half-unit coordinates within +-60):
// beyond the reach of the exhaustive small-ring enumeration, they exercise
// the default segment index (>= 64 points), node splits, the >= 16-point
// containment shortcut and long boundary walks, still against the exact model.

type namedRing struct {
	name string
	ring []exact.P // closed
}

func bigRings() []namedRing {
	var out []namedRing
	add := func(name string, r []exact.P) {
		if r[len(r)-1] != r[0] {
			r = append(r, r[0])
		}
		for _, p := range r {
			if p.X > exact.MaxCoord || p.X < -exact.MaxCoord || p.Y > exact.MaxCoord || p.Y < -exact.MaxCoord {
				panic("big ring outside the exact domain: " + name)
			}
		}
		if !exact.Simple(r) {
			panic("big ring not simple: " + name)
		}
		out = append(out, namedRing{name, r})
	}
	// comb: 15 teeth pointing up
	{
		k := int64(15)
		r := []exact.P{{X: -30, Y: -10}, {X: 4*k - 32, Y: -10}}
		for i := k - 1; i >= 0; i-- {
			x := 4*i - 30
			r = append(r, exact.P{X: x + 2, Y: 10}, exact.P{X: x, Y: 10})
			if i > 0 {
				r = append(r, exact.P{X: x, Y: -6}, exact.P{X: x - 2, Y: -6})
			}
		}
		add("comb15", r)
	}
	// staircase
	{
		r := []exact.P{{X: -40, Y: -40}, {X: 40, Y: -40}}
		for i := int64(0); i < 20; i++ {
			r = append(r, exact.P{X: 40 - 4*i, Y: -40 + 4*i + 4}, exact.P{X: 40 - 4*i - 4, Y: -40 + 4*i + 4})
		}
		add("staircase", r[:len(r)-1]) // last point would repeat x=-40,y=40 then close
	}
	// star with irregular, non-axis-parallel edges (48 vertices)
	{
		var r []exact.P
		x := uint64(7)
		for i := 0; i < 48; i++ {
			x = x*6364136223846793005 + 1442695040888963407
			rad := 18.0 + float64((x>>33)%30)
			if i%2 == 1 {
				rad = 9.0 + float64((x>>33)%7)
			}
			a := 2 * math.Pi * float64(i) / 48
			r = append(r, exact.P{X: int64(math.Round(rad * math.Cos(a))), Y: int64(math.Round(rad * math.Sin(a)))})
		}
		add("star48", r)
	}
	// sawtooth band (slopes 7/3)
	{
		r := []exact.P{{X: -45, Y: -8}, {X: 45, Y: -8}, {X: 45, Y: 2}}
		for x := int64(42); x >= -42; x -= 6 {
			r = append(r, exact.P{X: x, Y: 9}, exact.P{X: x - 3, Y: 2})
		}
		add("sawtooth", r)
	}
	// rectilinear spiral corridor of width 4
	{
		outer := []exact.P{{X: -40, Y: -40}, {X: 40, Y: -40}, {X: 40, Y: 40}, {X: -32, Y: 40}, {X: -32, Y: -24}, {X: 24, Y: -24}, {X: 24, Y: 24}, {X: -16, Y: 24}, {X: -16, Y: -8}, {X: 8, Y: -8}, {X: 8, Y: 8}}
		inner := []exact.P{{X: 4, Y: 8}, {X: 4, Y: -4}, {X: -12, Y: -4}, {X: -12, Y: 20}, {X: 20, Y: 20}, {X: 20, Y: -20}, {X: -28, Y: -20}, {X: -28, Y: 36}, {X: 36, Y: 36}, {X: 36, Y: -36}, {X: -40, Y: -36}}
		add("spiral", append(append([]exact.P{}, outer...), inner...))
	}
	return out
}

// densify inserts the midpoints of long edges so that the ring has at least
// 64 positions (default index threshold) without changing its point set.
func densify(r []exact.P, min int) []exact.P {
	for len(r) < min {
		var out []exact.P
		for i := 0; i+1 < len(r); i++ {
			a, b := r[i], r[i+1]
			out = append(out, a)
			if (a.X+b.X)%2 == 0 && (a.Y+b.Y)%2 == 0 && (abs64i(a.X-b.X) > 2 || abs64i(a.Y-b.Y) > 2) {
				out = append(out, exact.P{X: (a.X + b.X) / 2, Y: (a.Y + b.Y) / 2})
			}
		}
		out = append(out, r[len(r)-1])
		if len(out) == len(r) {
			break
		}
		r = out
	}
	return r
}

// bigRingShapes: every big ring as a polygon, densified to >= 64 positions
// (default index), and as the hole of a large square.
func bigRingShapes(cfg2 *geometry.IndexOptions) []*shp {
	var out []*shp
	frame := []exact.P{{X: -60, Y: -60}, {X: 60, Y: -60}, {X: 60, Y: 60}, {X: -60, Y: 60}, {X: -60, Y: -60}}
	for _, br := range bigRings() {
		a := mkShp(&exact.Shape{Kind: exact.KPoly, Ext: br.ring}, cfg2)
		a.tag = br.name
		out = append(out, a)
		d := &shp{E: &exact.Shape{Kind: exact.KPoly, Ext: densify(br.ring, 70)}}
		d.G = geomOf(d.E, ident, nil) // default options: quadtree at >= 64 points
		d.G2 = geomOf(d.E, ident, idxCfgs[1].Opts)
		d.G3 = movedBack(d.E)
		d.G4 = geomOf(d.E, tinyXf, idxNone)
		d.G5 = geomOf(d.E, farFineXf, idxNone)
		d.G6 = doubled(d.E)
		d.tag = br.name + "-dense"
		out = append(out, d)
		h := mkShp(&exact.Shape{Kind: exact.KPoly, Ext: frame, Holes: [][]exact.P{br.ring}}, cfg2)
		h.tag = br.name + "-as-hole"
		out = append(out, h)
	}
	return out
}

// bigRingPartners: segments, rectangles and triangles on a coarse grid, and 16-gon discs.
func bigRingPartners() []*shp {
	var grid []exact.P
	for y := int64(-50); y <= 50; y += 10 {
		for x := int64(-50); x <= 50; x += 10 {
			grid = append(grid, exact.P{X: x, Y: y})
		}
	}
	// off-grid points (odd coordinates) so that segments are not axis/diagonal aligned only
	fine := []exact.P{{X: -29, Y: -7}, {X: -27, Y: 9}, {X: 3, Y: -9}, {X: 17, Y: 5}, {X: 41, Y: 3}, {X: -13, Y: 23}, {X: 7, Y: -33}, {X: 33, Y: 37}, {X: -37, Y: -37}, {X: 1, Y: 1}, {X: 19, Y: -21}, {X: -31, Y: 38}}
	pts := append(append([]exact.P{}, grid...), fine...)
	var out []*shp
	for _, a := range pts {
		for _, b := range pts {
			out = append(out, mkShp(&exact.Shape{Kind: exact.KLine, Line: []exact.P{a, b}}, nil))
		}
	}
	xs := []int64{-50, -30, -10, 0, 10, 30, 50}
	for i, x0 := range xs {
		for _, x1 := range xs[i:] {
			for j, y0 := range xs {
				for _, y1 := range xs[j:] {
					out = append(out, mkShp(&exact.Shape{Kind: exact.KRect, Min: exact.P{X: x0, Y: y0}, Max: exact.P{X: x1, Y: y1}}, nil))
				}
			}
		}
	}
	for i := 0; i+2 < len(fine); i++ {
		tri := []exact.P{fine[i], fine[i+1], fine[i+2], fine[i]}
		if exact.Simple(tri) {
			out = append(out, mkShp(&exact.Shape{Kind: exact.KPoly, Ext: tri}, idxCfgs[2].Opts))
		}
	}
	for _, p := range pts {
		out = append(out, mkShp(&exact.Shape{Kind: exact.KPoint, Pt: p}, nil))
	}
	return out
}

// slantPairs: right triangles whose hypotenuse has coordinate differences
// with large odd factors (11, 21, 25, 49, 55 ...), paired with shapes that
// touch the hypotenuse exactly at its interior lattice points: a point, a
// line ending there, a rectangle with a corner there, a small triangle with
// a vertex there. On-edge detection is where a reformulated kernel rounds
// differently; small lattices (differences <= 9) cannot show it.
func slantPairs() (tris []*shp, pairs [][2]*shp) {
	dims := [][2]int64{{22, 22}, {55, 11}, {42, 14}, {49, 49}, {25, 25}, {33, 11}, {44, 33}, {21, 35}, {57, 19}}
	gcd := func(a, b int64) int64 {
		for b != 0 {
			a, b = b, a%b
		}
		return a
	}
	for _, d := range dims {
		dx, dy := d[0], d[1]
		for variant := 0; variant < 4; variant++ {
			// the four placements: hypotenuse from the origin, mirrored in x, in y, in both
			sx, sy := int64(1), int64(1)
			if variant&1 != 0 {
				sx = -1
			}
			if variant&2 != 0 {
				sy = -1
			}
			P := func(x, y int64) exact.P { return exact.P{X: sx * x, Y: sy * y} }
			ring := []exact.P{P(0, 0), P(dx, dy), P(dx, 0), P(0, 0)}
			T := mkShp(&exact.Shape{Kind: exact.KPoly, Ext: ring}, idxCfgs[2].Opts)
			T.tag = "slant"
			tris = append(tris, T)
			g := gcd(dx, dy)
			for k := int64(1); k < g; k++ {
				px, py := dx/g*k, dy/g*k
				p := P(px, py)
				in := P(dx-1, 1) // strictly inside near the right angle (dx, dy >= 11)
				add := func(e *exact.Shape) { pairs = append(pairs, [2]*shp{T, mkShp(e, idxCfgs[1].Opts)}) }
				add(&exact.Shape{Kind: exact.KPoint, Pt: p})
				add(&exact.Shape{Kind: exact.KLine, Line: []exact.P{p, in}})
				add(&exact.Shape{Kind: exact.KLine, Line: []exact.P{in, p, P(dx, 0)}})
				a, b := P(px, 0), P(dx, py)
				add(&exact.Shape{Kind: exact.KRect, Min: exact.P{X: min(a.X, b.X), Y: min(a.Y, b.Y)}, Max: exact.P{X: max(a.X, b.X), Y: max(a.Y, b.Y)}})
				tri := []exact.P{p, in, P(dx, 0), p}
				if exact.Simple(tri) {
					add(&exact.Shape{Kind: exact.KPoly, Ext: tri})
				}
				// a triangle touching the hypotenuse from outside at p
				out := []exact.P{p, P(px-3, py+5), P(px-6, py+4), p}
				if exact.Simple(out) {
					add(&exact.Shape{Kind: exact.KPoly, Ext: out})
				}
				add(&exact.Shape{Kind: exact.KLine, Line: []exact.P{p, P(px-3, py+5)}})
			}
		}
	}
	return
}
