package main

import (
	"fmt"

	"github.com/tidwall/geojson"
	"github.com/tidwall/geojson/geometry"
	"verif/mc/rt"
)

// C09 — object-level predicates form a consistent algebra across all kinds.

func init() { register("C09", runC09, evalC09) }

type tri struct{ c, w, i, ok bool }

func predicates(a, b geojson.Object) (t tri) {
	defer func() {
		if r := recover(); r != nil {
			t.ok = false
		}
	}()
	t.c, t.w, t.i = a.Contains(b), a.Within(b), a.Intersects(b)
	t.ok = true
	return
}

func rectCovers(a, b geometry.Rect) bool {
	return a.Min.X <= b.Min.X && a.Min.Y <= b.Min.Y && a.Max.X >= b.Max.X && a.Max.Y >= b.Max.Y
}

type objCur struct{ a, b *pobj }

func objCase(op string, a, b *pobj) rt.Case {
	return rt.Case{Kind: "objpair", Op: op, X: map[string]string{"a": a.Desc, "b": b.Desc}}
}

func isCircle(p *pobj) bool { return p.Kind == "Circle" }

func c09Class(op string, a, b *pobj) string {
	k := op + ":" + a.Kind + "-" + b.Kind
	return k
}

func runC09(r *rt.Run) {
	size := 0
	if r.Thorough() {
		size = 1
	}
	pool := buildObjPool(size)
	n := len(pool.objs)
	r.Bounds["pool"] = n
	kinds := map[string]int{}
	for _, o := range pool.objs {
		kinds[fmt.Sprintf("%T", o.O)]++
	}
	r.Bounds["pool_kinds"] = kinds
	r.Rule = "every ordered pair of a pool of all 12 kinds (lattice points as Point/SimplePoint/Feature, all rectangles and their 5-point polygons, all 2-position and a slice of 3-position lines, simple rings <= 4, polygons with holes, empties, Multi*/GeometryCollection/FeatureCollection/Feature wraps incl. nested, circles with radii around one lattice step): duality, symmetry, contains => intersects and rect cover, intersects => rects meet, reflexivity, and transparency of Feature / Rect / SimplePoint / leaf-vs-geometry level; the Spatial interface of every object given the base geometry of every leaf object answers as the object-level predicate; plus big objects: zigzag LineStrings and Polygons with 33..65538 segments (either side of the index thresholds and of the 1/2/4-byte segment-number boundaries) under QuadTree / RTree / no index x 10 probe objects at each of ~25 first / last / boundary-numbered segments: the same laws, independence of the index kind, exact point membership; and the same zigzags (33..4,097 segments) translated through Move by 4 offsets (inexact in binary, and beyond the own extent) probed at their own positions; non-trivial = rectangles of the two objects meet"
	r.Assume = []string{"laws are checked on the real answers only (no geometry oracle); a violated law whose exact pair is listed as a consequence of a listed leaf defect is a known finding"}
	r.Describe = func(cur any) (rt.Case, bool) {
		c, ok := cur.(*objCur)
		if !ok || c.a == nil {
			return rt.Case{}, false
		}
		return objCase("call", c.a, c.b), true
	}
	r.States.Add(int64(n))
	for _, o := range pool.objs {
		r.Trans.Add(int64(o.O.NumPoints()))
	}
	mat := make([][]tri, n)
	r.ParFor(n, func(i int, w *rt.Worker) {
		row := make([]tri, n)
		cur := &objCur{}
		w.Cur = cur
		for j := 0; j < n; j++ {
			cur.a, cur.b = pool.objs[i], pool.objs[j]
			row[j] = predicates(pool.objs[i].O, pool.objs[j].O)
			w.Evals += 3
			if !row[j].ok {
				a, b := pool.objs[i], pool.objs[j]
				w.Fail("panic:"+a.Kind+"-"+b.Kind, func() (rt.Case, string, string) {
					return objCase("call", a, b), "no panic", "panic"
				})
			}
		}
		mat[i] = row
	})
	r.ParFor(n, func(i int, w *rt.Worker) {
		A := pool.objs[i]
		ra := A.O.Rect()
		fail := func(op string, a, b *pobj, exp, got string) {
			w.Fail(c09Class(op, a, b), func() (rt.Case, string, string) { return objCase(op, a, b), exp, got })
		}
		for j := 0; j < n; j++ {
			B := pool.objs[j]
			ab, ba := mat[i][j], mat[j][i]
			if !ab.ok || !ba.ok {
				continue
			}
			rb := B.O.Rect()
			if ra.IntersectsRect(rb) {
				w.Nontriv++
			}
			w.Evals += 6
			w.Outcome(fmt.Sprintf("c=%v w=%v i=%v", ab.c, ab.w, ab.i))
			if ab.w != ba.c {
				fail("duality", A, B, "A.Within(B) == B.Contains(A)", fmt.Sprintf("%v vs %v", ab.w, ba.c))
			}
			if j > i && ab.i != ba.i {
				fail("symmetry", A, B, "A.Intersects(B) == B.Intersects(A)", fmt.Sprintf("%v vs %v", ab.i, ba.i))
			}
			if ab.c && !B.O.Empty() {
				if !ab.i {
					fail("contains=>intersects", A, B, "intersects", "contains but does not intersect")
				}
				if !rectCovers(ra, rb) {
					fail("contains=>rect-covers", A, B, "A.Rect covers B.Rect", fmt.Sprintf("%v %v", ra, rb))
				}
			}
			if ab.i && !ra.IntersectsRect(rb) {
				fail("intersects=>rects-meet", A, B, "rectangles intersect", fmt.Sprintf("%v %v", ra, rb))
			}
			// leaf object == geometry level
			if A.Geom != nil && B.Geom != nil {
				gc, gi := libContains(A.Geom, B.Geom), libIntersects(A.Geom, B.Geom)
				if gc != ab.c {
					fail("leaf-contains-vs-geometry", A, B, fmt.Sprint(gc), fmt.Sprint(ab.c))
				}
				if gi != ab.i {
					fail("leaf-intersects-vs-geometry", A, B, fmt.Sprint(gi), fmt.Sprint(ab.i))
				}
			}
			// the Spatial interface (the double-dispatch target that callers such as
			// Tile38 also use directly): given B's base geometry it answers as the
			// object-level predicate given B
			if B.Geom != nil {
				sw, si, ok := spatialAnswers(A.O, B.Geom)
				w.Evals += 2
				if ok && (sw != ab.w || si != ab.i) {
					fail("spatial-interface", A, B, fmt.Sprintf("within=%v intersects=%v (object level)", ab.w, ab.i), fmt.Sprintf("Spatial(): within=%v intersects=%v", sw, si))
				}
			}
			// transparency: every alternative representation of A answers as A
			for _, e := range A.Equiv {
				E := pool.objs[e]
				eb, be := mat[e][j], mat[j][e]
				if !eb.ok || !be.ok {
					continue
				}
				if eb.c != ab.c || eb.w != ab.w || eb.i != ab.i {
					fail("transparency-receiver", A, B, fmt.Sprintf("as %s: c=%v w=%v i=%v", E.Kind, eb.c, eb.w, eb.i), fmt.Sprintf("c=%v w=%v i=%v", ab.c, ab.w, ab.i))
				}
				if be.c != ba.c || be.w != ba.w || be.i != ba.i {
					fail("transparency-argument", B, A, fmt.Sprintf("with %s: c=%v w=%v i=%v", E.Kind, be.c, be.w, be.i), fmt.Sprintf("c=%v w=%v i=%v", ba.c, ba.w, ba.i))
				}
			}
		}
		if self := mat[i][i]; self.ok && !A.O.Empty() && A.O.Valid() {
			if !self.c {
				fail("reflexive-contains", A, A, "contains itself", "false")
			}
			if !self.i {
				fail("reflexive-intersects", A, A, "intersects itself", "false")
			}
		}
	})
	c09Big(r)
	c09BigMoved(r)
	r.Sample(objCase("duality", pool.objs[3], pool.objs[n/2]))
	r.Sample(objCase("transparency-receiver", pool.objs[1], pool.objs[n-3]))
}

// spatialAnswers asks a's Spatial interface about the raw geometry g.
func spatialAnswers(a geojson.Object, g geometry.Geometry) (within, intersects, ok bool) {
	defer func() {
		if r := recover(); r != nil {
			ok = false
		}
	}()
	s := a.Spatial()
	switch v := g.(type) {
	case geometry.Point:
		return s.WithinPoint(v), s.IntersectsPoint(v), true
	case geometry.Rect:
		return s.WithinRect(v), s.IntersectsRect(v), true
	case *geometry.Line:
		return s.WithinLine(v), s.IntersectsLine(v), true
	case *geometry.Poly:
		return s.WithinPoly(v), s.IntersectsPoly(v), true
	}
	return false, false, false
}

func evalC09(c *rt.Case) (bool, string, string, error) {
	if c.Kind == "bigobj" {
		return evalC09Big(c)
	}
	if c.Kind == "bigmoved" {
		return evalC09BigMoved(c)
	}
	if c.Kind != "objpair" {
		return false, "", "", fmt.Errorf("not mine")
	}
	for size := 0; size < 2; size++ {
		pool := buildObjPool(size)
		ia, ok1 := pool.index[c.X["a"]]
		ib, ok2 := pool.index[c.X["b"]]
		if !ok1 || !ok2 {
			continue
		}
		A, B := pool.objs[ia], pool.objs[ib]
		ab, ba := predicates(A.O, B.O), predicates(B.O, A.O)
		ra, rb := A.O.Rect(), B.O.Rect()
		switch c.Op {
		case "call":
			return !ab.ok, "no panic", fmt.Sprint(ab.ok), nil
		case "duality":
			return ab.w != ba.c, "A.Within(B) == B.Contains(A)", fmt.Sprintf("%v vs %v", ab.w, ba.c), nil
		case "symmetry":
			return ab.i != ba.i, "A.Intersects(B) == B.Intersects(A)", fmt.Sprintf("%v vs %v", ab.i, ba.i), nil
		case "contains=>intersects":
			return ab.c && !B.O.Empty() && !ab.i, "intersects", fmt.Sprintf("c=%v i=%v", ab.c, ab.i), nil
		case "contains=>rect-covers":
			return ab.c && !B.O.Empty() && !rectCovers(ra, rb), "A.Rect covers B.Rect", fmt.Sprintf("%v %v", ra, rb), nil
		case "intersects=>rects-meet":
			return ab.i && !ra.IntersectsRect(rb), "rectangles intersect", fmt.Sprintf("%v %v", ra, rb), nil
		case "spatial-interface":
			sw, si, ok := spatialAnswers(A.O, B.Geom)
			return ok && (sw != ab.w || si != ab.i), fmt.Sprintf("within=%v intersects=%v", ab.w, ab.i), fmt.Sprintf("Spatial(): within=%v intersects=%v", sw, si), nil
		case "leaf-contains-vs-geometry":
			gc := libContains(A.Geom, B.Geom)
			return gc != ab.c, fmt.Sprint(gc), fmt.Sprint(ab.c), nil
		case "leaf-intersects-vs-geometry":
			gi := libIntersects(A.Geom, B.Geom)
			return gi != ab.i, fmt.Sprint(gi), fmt.Sprint(ab.i), nil
		case "reflexive-contains":
			return !ab.c, "contains itself", fmt.Sprint(ab.c), nil
		case "reflexive-intersects":
			return !ab.i, "intersects itself", fmt.Sprint(ab.i), nil
		case "transparency-receiver":
			for _, e := range A.Equiv {
				eb := predicates(pool.objs[e].O, B.O)
				if eb != ab {
					return true, fmt.Sprintf("as %s: %v", pool.objs[e].Kind, eb), fmt.Sprint(ab), nil
				}
			}
			return false, "", "", nil
		case "transparency-argument":
			// here A is the argument whose representation varies, B the receiver (roles as recorded)
			for _, e := range B.Equiv {
				be := predicates(A.O, pool.objs[e].O)
				if be != ab {
					return true, fmt.Sprintf("with %s: %v", pool.objs[e].Kind, be), fmt.Sprint(ab), nil
				}
			}
			return false, "", "", nil
		}
		return false, "", "", fmt.Errorf("unknown op")
	}
	return false, "", "", fmt.Errorf("objects not in the pool")
}
