package main

import (
	"bufio"
	"fmt"
	"github.com/tidwall/geojson"
	"github.com/tidwall/geojson/geometry"
	"os"
	"strings"
	"sync"
)

// c16race: free-running pass, meant to be built with -race. Every scenario,
// real goroutines released from a barrier, several rounds; results are also
// compared with the solo results.

func init() { subcommands["c16race"] = c16Race }

func bufioStdout() *bufio.Writer { return bufio.NewWriterSize(os.Stdout, 1<<16) }

func c16Race(args []string) {
	thorough := os.Getenv("VERIF_TIER") == "thorough"
	scs := c16Scenarios(thorough)
	rounds := 20
	if thorough {
		rounds = 100
	}
	for _, sc := range scs {
		fmt.Printf("SCENARIO %s\n", strings.Join(sc.ops(), " || "))
		solo := make([]string, len(sc.Calls))
		for i, c := range sc.Calls {
			solo[i] = c.run(c16Fresh(sc))
		}
		for r := 0; r < rounds; r++ {
			pool := c16Fresh(sc) // fresh objects: first-use effects are raced in every round
			var start, done sync.WaitGroup
			start.Add(1)
			outs := make([]string, len(sc.Calls))
			for i := range sc.Calls {
				done.Add(1)
				go func(i int) {
					defer done.Done()
					start.Wait()
					outs[i] = sc.Calls[i].run(pool)
				}(i)
			}
			start.Done()
			done.Wait()
			for i := range outs {
				if outs[i] != solo[i] {
					fmt.Printf("MISMATCH %s: concurrent result differs from solo result\n  solo: %.300s\n  got:  %.300s\n", sc.Calls[i], solo[i], outs[i])
					os.Exit(67)
				}
			}
		}
	}
	// many distinct objects at once: package-level tables keyed by an object's
	// parameters only go wrong when different objects meet in one slot. 1024
	// circles and 256 long lines, every goroutine walking the whole pool with
	// polygon-path / index-path calls; each answer must be the run-alone one.
	{
		fmt.Printf("SCENARIO many-objects storm\n")
		type ent struct {
			o, probe geojson.Object
			solo     string
		}
		mk := func() []ent {
			var es []ent
			for i := 0; i < 1024; i++ {
				c := geometry.Point{X: -160 + 10.25*float64(i%32), Y: -62 + 3.875*float64(i/32)}
				es = append(es, ent{o: geojson.NewCircle(c, 1000*float64(1+i%9), 64),
					probe: geojson.NewRect(geometry.Rect{Min: geometry.Point{X: c.X - 0.0025, Y: c.Y - 0.0025}, Max: geometry.Point{X: c.X + 0.0025, Y: c.Y + 0.0025}})})
			}
			for i := 0; i < 256; i++ {
				var ps []geometry.Point
				for k := 0; k < 70; k++ {
					ps = append(ps, geometry.Point{X: float64(i) + float64(k%10)*0.01, Y: float64(k/10)*0.01 + float64(k%2)*0.003})
				}
				es = append(es, ent{o: geojson.NewLineString(geometry.NewLine(ps, nil)), probe: geojson.NewPoint(ps[35])})
			}
			// parsed objects whose positions carry third / fourth ordinates (serialisers walk side tables)
			for i := 0; i < 64; i++ {
				var ps []string
				for k := 0; k < 40; k++ {
					ps = append(ps, fmt.Sprintf("[%d,%d,%d,%d]", i+k%7, k/7, 100+k, k%5))
				}
				doc := `{"type":"LineString","coordinates":[` + strings.Join(ps, ",") + `]}`
				if i%2 == 1 {
					doc = `{"type":"Feature","geometry":{"type":"Polygon","coordinates":[[[0,0,1],[8,0,2],[8,8,3],[0,8,4],[0,0,5]],[[2,2,6],[2,4,7],[4,4,8],[4,2,9],[2,2,10]]]},"properties":{"i":` + fmt.Sprint(i) + `}}`
				}
				o, err := geojson.Parse(doc, nil)
				if err != nil {
					panic(err)
				}
				es = append(es, ent{o: o, probe: geojson.NewPoint(geometry.Point{X: 1, Y: 1})})
			}
			return es
		}
		ask := func(e ent) string {
			js := ""
			if _, isCircle := e.o.(*geojson.Circle); !isCircle {
				js = e.o.JSON()
				if len(js) > 3000 {
					js = js[:3000]
				}
			}
			return fmt.Sprint(e.o.Rect(), e.o.Contains(e.probe), e.o.Intersects(e.probe), e.probe.Within(e.o), e.o.Valid(), js)
		}
		ref := mk()
		for i := range ref {
			ref[i].solo = ask(ref[i])
		}
		passes := 3
		if thorough {
			passes = 8
		}
		for pass := 0; pass < passes; pass++ {
			pool := mk() // fresh objects in every pass
			var wg sync.WaitGroup
			bad := make(chan string, 64)
			for g := 0; g < 16; g++ {
				wg.Add(1)
				go func(g int) {
					defer wg.Done()
					for k := range pool {
						i := (k*7 + g*61) % len(pool)
						if got := ask(pool[i]); got != ref[i].solo {
							select {
							case bad <- fmt.Sprintf("object %d: solo %.200s got %.200s", i, ref[i].solo, got):
							default:
							}
						}
					}
				}(g)
			}
			wg.Wait()
			close(bad)
			for b := range bad {
				fmt.Printf("MISMATCH many-objects storm: concurrent result differs from solo result\n  %s\n", b)
				os.Exit(67)
			}
		}
	}
	fmt.Printf("RACEPASS %d %d\n", len(scs), rounds)
}
