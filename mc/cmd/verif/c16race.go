package main

import (
	"bufio"
	"fmt"
	"os"
	"strings"
	"sync"
)

// c16race: free-running pass, meant to be built with -race. Every scenario,
// real goroutines released from a barrier, several rounds; results are also
// compared with the solo results.

func init() { subcommands["c16race"] = c16Race }

func bufioStdout() *bufio.Writer { return bufio.NewWriterSize(os.Stdout, 1<<16) }

func c16Race(args []string) {
	thorough := os.Getenv("VERIF_TIER") == "thorough"
	scs := c16Scenarios(thorough)
	rounds := 20
	if thorough {
		rounds = 100
	}
	for _, sc := range scs {
		fmt.Printf("SCENARIO %s\n", strings.Join(sc.ops(), " || "))
		solo := make([]string, len(sc.Calls))
		for i, c := range sc.Calls {
			solo[i] = c.run(c16Fresh(sc))
		}
		for r := 0; r < rounds; r++ {
			pool := c16Fresh(sc) // fresh objects: first-use effects are raced in every round
			var start, done sync.WaitGroup
			start.Add(1)
			outs := make([]string, len(sc.Calls))
			for i := range sc.Calls {
				done.Add(1)
				go func(i int) {
					defer done.Done()
					start.Wait()
					outs[i] = sc.Calls[i].run(pool)
				}(i)
			}
			start.Done()
			done.Wait()
			for i := range outs {
				if outs[i] != solo[i] {
					fmt.Printf("MISMATCH %s: concurrent result differs from solo result\n  solo: %.300s\n  got:  %.300s\n", sc.Calls[i], solo[i], outs[i])
					os.Exit(67)
				}
			}
		}
	}
	fmt.Printf("RACEPASS %d %d\n", len(scs), rounds)
}
