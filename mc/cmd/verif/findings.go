package main

import (
	"encoding/json"
	"fmt"
	"os"
	"path/filepath"
	"sort"
	"strings"

	"verif/mc/rt"
)

// Known-finding definitions. `verif mkknown` (run by hand, never by a check)
// merges the failing-input key sets written by VERIF_REGEN=1 runs into one
// key file per finding and rewrites known_findings.json. A regen class that
// matches no definition is an error: every class of failure has to be
// reviewed and attributed to a described defect before it can be listed.
type findingDef struct {
	ID       string
	Summary  string
	Prefixes []string // regen class prefixes "<prop>:<class-prefix>"
}

var findingDefs = []findingDef{
	{"KF-CENTER-OVERFLOW", "Rect.Center() computes (Max+Min)/2, which overflows to +-Inf when |Max+Min| exceeds MaxFloat64 (coordinates around +-1e308); Center() of every kind that derives it from the rectangle is affected, including a Feature wrapping a single point, whose centre should be the position itself",
		[]string{"C11:center-", "C11:pool-center-"}},
	{"KF-COLLECTION-VALID-RECT-ONLY", "collection.Valid() (GeometryCollection, FeatureCollection, MultiPoint) looks only at the collection's rectangle, which is built from non-empty children: an out-of-range position carried by an empty child (a constructor-built LineString of one position) is not seen and the collection reports itself valid",
		[]string{"C11:valid-", "C11:pool-valid-"}},
	{"KF-FEATURE-OF-COLLECTION", "a Feature wrapping a collection is iterated as a single part (Feature.ForEach yields the Feature itself), so collection.Contains / Intersects ask each child to contain the whole wrapped collection: Feature(GeometryCollection[polygon, line]) does not contain itself and does not answer as the GeometryCollection it wraps when it is the argument of a collection predicate",
		[]string{"C09:transparency-", "C09:reflexive-contains:Feature-Feature", "C10:feature-part"}},
	{"KF-CIRCLE-RECT", "a Circle is a great-circle disc for points but its Rect() is the box of the 64-gon whose half-width is the longitude reached by heading due east, which does not cover the disc away from the equator: Circle((0,60), 2000 km) contains / intersects the point (33.25,60) (1,829 km away) although the rectangles are disjoint, and MultiPoint.Intersects(Circle) is false while Circle.Intersects(MultiPoint) is true; a collection, which finds candidate children by rectangle, does not intersect a point that its Circle child (few steps: triangle / hexagon) does intersect",
		[]string{"C09:contains=>rect-covers:Circle-", "C09:intersects=>rects-meet:Circle-", "C09:intersects=>rects-meet:Feature-Circle", "C09:intersects=>rects-meet:Point-Circle", "C09:intersects=>rects-meet:SimplePoint-Circle", "C09:symmetry:Circle-", "C09:symmetry:MultiPoint-Circle", "C13:rect-", "C10:compose-GeometryCollection-intersects(probe 3)", "C10:compose-FeatureCollection-intersects(probe 3)", "C10:compose-GeometryCollection-contains(probe 3)", "C10:compose-FeatureCollection-contains(probe 3)"}},
	{"KF-CIRCLE-SPATIAL-POLYGON", "Circle.Spatial() returns the Spatial of the circle's polygon approximation, so the interface methods on a raw point (Spatial().IntersectsPoint / WithinPoint, as Tile38-style callers use them) answer by the 64-gon while Circle.Intersects / Contains of the Point object answer by the great-circle distance: a point between the polygon and the rim of the disc gets opposite answers, e.g. Circle((1,1), 111.4 km) and its rim probes",
		[]string{"C09:spatial-interface:Circle-", "C10:compose-GeometryCollection-spatial-interface(probe", "C10:compose-FeatureCollection-spatial-interface(probe"}},
	{"KF-NONFINITE-INDEX", "a document with ordinates that overflow to +Inf / -Inf (1e999; accepted unless RequireValid) gets different predicate answers under different geometry-index options: with infinite ordinates on both axes the series rectangle is all-infinite, quadtree midlines and r-tree boxes are NaN / infinite and the indexed search no longer reports the segments an index-free scan visits; e.g. a 20-position Polygon with [1e999,1e999] and [-1e999,-1e999] among its positions contains / intersects the probes with no index and not with IndexGeometry <= 21",
		[]string{"C08:answers-differ-overflow"}},
	{"KF-CIRCLE-DROPS-MEMBERS", "a Feature in the Circle convention keeps only the centre's x,y and the radius: id, bbox, other members of the feature or of its properties, members of the point geometry and z/m ordinates are dropped by Parse and absent from JSON()",
		[]string{"*:circle-drops-members"}},
	{"KF-MIXED-DIMS-REJECTED", "a LineString / Polygon / Multi* coordinate member whose first position has two ordinates and a later one three or four is rejected ('invalid coordinates') although every position is an array of two to four numbers; deliberate in the parser (dimensionality is fixed by the first position)",
		[]string{"*:must-accept-rejected-mixed-dims"}},
	{"KF-ORDER-DEPENDENT-CONTAINS", "polygon-contains-line/rect answers depend on the order in which the segment search reports hits (ringContainsSegment keeps the index of the first boundary segment the endpoint lies on, and its case analysis branches on it), so for self-touching rings with >= 17/33 points the answer differs between no index, r-tree and quadtree although the search itself reports exactly the same set; e.g. the 33-point 'comb' ring and the line (0,4)-(10,0)",
		[]string{"C04:predicate-index-dependence", "C04:predicate-move-dependence"}},
	{"KF-LINE-CONTAINS", "Line.ContainsLine (also reached by Line.ContainsRect/ContainsPoly for zero-area shapes) walks the receiver's segments and is wrong both ways: true when a later segment of the other line leaves the receiver mid-segment, false when a segment spans two collinear receiver segments or the receiver starts with a repeated vertex",
		[]string{"*:contains-line-line", "*:contains-line-rect", "*:contains-line-poly", "C09:reflexive-contains:", "C09:contains=>rect-covers:"}},
	{"KF-RING-CONTAINS-SEGMENT", "ringContainsSegment on a concave ring: returns true without a crossing test when a segment endpoint coincides with a ring vertex (false positives, e.g. across the mouth of a U), and false for a contained segment that touches a reflex vertex from inside or runs along an edge and continues inside (false negatives); propagates to polygon-contains-line/rect/polygon",
		[]string{"*:contains-poly-line-false-positive-concaveA", "*:contains-poly-line-false-negative-concaveA", "*:contains-poly-poly-false-positive-concaveA", "*:contains-poly-poly-false-negative-concaveA", "*:contains-poly-rect-false-positive-concaveA", "*:contains-poly-rect-false-negative-concaveA"}},
	{"KF-HOLE-RULES", "polygon-with-hole containment: a shape that only touches a hole's boundary (at a vertex or along an edge) is reported as not contained, a line through a concave hole's interior or a polygon equal to / filling the hole is reported as contained (hole tests use the strict-interior ring predicates, which miss or over-count boundary contacts)",
		[]string{"*:contains-poly-line-false-positive-convexA-holes", "*:contains-poly-line-false-negative-convexA-holes", "*:contains-poly-poly-false-positive-convexA-holes", "*:contains-poly-poly-false-negative-convexA-holes", "*:contains-poly-rect-false-positive-convexA-holes", "*:contains-poly-rect-false-negative-convexA-holes"}},
}

func init() {
	// concave exteriors with holes inherit both defects; list them under the hole finding
	for i := range findingDefs {
		if findingDefs[i].ID == "KF-HOLE-RULES" {
			findingDefs[i].Prefixes = append(findingDefs[i].Prefixes, "*:contains-poly-line-false-positive-concaveA-holes", "*:contains-poly-line-false-negative-concaveA-holes",
				"*:contains-poly-poly-false-positive-concaveA-holes", "*:contains-poly-poly-false-negative-concaveA-holes",
				"*:contains-poly-rect-false-positive-concaveA-holes", "*:contains-poly-rect-false-negative-concaveA-holes")
		}
	}
}

func matchFinding(prop, class string) (string, bool) {
	best, bestLen := "", -1
	for _, d := range findingDefs {
		for _, p := range d.Prefixes {
			pp := strings.SplitN(p, ":", 2)
			if pp[0] != prop && pp[0] != "*" {
				continue
			}
			if strings.HasPrefix(class, pp[1]) && len(pp[1]) > bestLen {
				best, bestLen = d.ID, len(pp[1])
			}
		}
	}
	return best, bestLen >= 0
}

func mkknown() {
	dir := filepath.Join(rt.Root, "known", "regen")
	sums, _ := filepath.Glob(filepath.Join(dir, "*-summary.json"))
	keys := map[string][]uint64{}
	props := map[string]map[string]bool{}
	wits := map[string][]rt.Case{}
	bad := false
	for _, sf := range sums {
		base := strings.TrimSuffix(filepath.Base(sf), "-summary.json") // <prop>-<tier>
		prop := strings.SplitN(base, "-", 2)[0]
		var sum map[string]struct {
			Count     int            `json:"count"`
			Witnesses []rt.Violation `json:"witnesses"`
		}
		b, _ := os.ReadFile(sf)
		if err := json.Unmarshal(b, &sum); err != nil {
			fmt.Println(sf, err)
			os.Exit(2)
		}
		classes := make([]string, 0, len(sum))
		for c := range sum {
			classes = append(classes, c)
		}
		sort.Strings(classes)
		for _, class := range classes {
			id, ok := matchFinding(prop, class)
			if !ok {
				fmt.Printf("UNATTRIBUTED regen class %s:%s (%d inputs) -- review it, then add it to a finding definition or fix the defect/harness\n", prop, class, sum[class].Count)
				bad = true
				continue
			}
			ks, err := rt.ReadKeys(filepath.Join(dir, base+"-"+class+".keys"))
			if err != nil {
				fmt.Println(err)
				os.Exit(2)
			}
			keys[id] = append(keys[id], ks...)
			if props[id] == nil {
				props[id] = map[string]bool{}
			}
			props[id][prop] = true
			for i, w := range sum[class].Witnesses {
				if i < 2 && len(wits[id]) < 14 {
					wits[id] = append(wits[id], w.Case)
				}
			}
		}
	}
	if bad {
		os.Exit(1)
	}
	var ff rt.FindingsFile
	b, _ := os.ReadFile(filepath.Join(rt.Root, "known_findings.json"))
	json.Unmarshal(b, &ff)
	old := map[string]rt.Finding{}
	for _, f := range ff.Findings {
		old[f.ID] = f
	}
	ff.Findings = nil
	for _, d := range findingDefs {
		ks := keys[d.ID]
		if len(ks) == 0 {
			if o, ok := old[d.ID]; ok && o.KeysFile == "" {
				ff.Findings = append(ff.Findings, o) // hand-written entry without a key set
			}
			continue
		}
		kf := filepath.Join("known", d.ID+".keys")
		if err := rt.WriteKeys(filepath.Join(rt.Root, kf), ks); err != nil {
			fmt.Println(err)
			os.Exit(2)
		}
		uniq, _ := rt.ReadKeys(filepath.Join(rt.Root, kf))
		var ps []string
		for p := range props[d.ID] {
			ps = append(ps, p)
		}
		sort.Strings(ps)
		ff.Findings = append(ff.Findings, rt.Finding{ID: d.ID, Properties: ps, Summary: d.Summary, Witnesses: wits[d.ID], KeysFile: kf, Keys: len(uniq)})
		fmt.Printf("%s: %d failing inputs listed (%v)\n", d.ID, len(uniq), ps)
	}
	// keep hand-written entries that have no definition here
	for _, f := range old {
		found := false
		for _, d := range findingDefs {
			if d.ID == f.ID {
				found = true
			}
		}
		if !found {
			ff.Findings = append(ff.Findings, f)
		}
	}
	out, _ := json.MarshalIndent(ff, "", " ")
	os.WriteFile(filepath.Join(rt.Root, "known_findings.json"), out, 0o644)
}
