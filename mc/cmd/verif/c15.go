package main

import (
	"fmt"
	"math"

	"github.com/tidwall/geojson/geo"
	"verif/mc/rt"
	"verif/mc/sphere"
)

// C15 — great-circle primitives are mutually consistent.

func init() { register("C15", runC15, evalGeo) }

const piR = math.Pi * sphere.R

func tolDist(d float64) float64 { return math.Max(1e-3, 1e-6*math.Abs(d)) }

func geoLats(thorough bool) []float64 {
	l := []float64{-90, -89.999999, -89.999, -60, -1e-9, 0, 1e-9, 33, 60, 89.999, 89.999999, 90,
		// millimetres from a pole
		90 - 1e-8, 90 - 2.5e-8, 90 - 4e-8, -90 + 3e-8, -90 + 5e-8, -90 + 1e-7}
	if thorough {
		l = append(l, -89.99999999, -89.9, -75, -45, -30, -10, 10, 30, 45, 75, 85, 89.9, 89.99999999, 1e-300)
	}
	return l
}

func geoLons(thorough bool) []float64 {
	l := []float64{-180, -179.999, -90, 0, 90, 179.999, 180}
	if thorough {
		l = append(l, -179.9999999, -179.9, -135, -45, -1e-9, 1e-9, 45, 135, 179.9, 179.9999999)
	}
	return l
}

func geoCase(op string, nums ...float64) rt.Case { return rt.Case{Kind: "geo", Op: op, Nums: nums} }

// geoChecks: each op re-evaluates one tuple; shared by the explorer and replay.
func geoCheck(op string, v []float64) (fails bool, exp, got string) {
	switch op {
	case "distance-pair":
		latA, lonA, latB, lonB := v[0], v[1], v[2], v[3]
		d1, d2 := geo.DistanceTo(latA, lonA, latB, lonB), geo.DistanceTo(latB, lonB, latA, lonA)
		ref := sphere.Dist(latA, lonA, latB, lonB)
		switch {
		case math.IsNaN(d1) || d1 < 0 || d1 > piR+tolDist(piR):
			return true, "0 <= distance <= half circumference", fmt.Sprint(d1)
		case !(math.Abs(d1-d2) <= tolDist(ref)): // (also true for NaN)
			return true, "symmetric", fmt.Sprintf("%v vs %v", d1, d2)
		case !(math.Abs(d1-ref) <= tolDist(ref)):
			return true, fmt.Sprintf("%.6f (vector formulation)", ref), fmt.Sprintf("%.6f", d1)
		case latA == latB && lonA == lonB && d1 != 0:
			return true, "0 for identical locations", fmt.Sprint(d1)
		}
	case "bearing-pair":
		// A, B: travelling DistanceTo(A,B) along BearingTo(A,B) from A ends at B
		latA, lonA, latB, lonB := v[0], v[1], v[2], v[3]
		d := geo.DistanceTo(latA, lonA, latB, lonB)
		brg := geo.BearingTo(latA, lonA, latB, lonB)
		if math.IsNaN(brg) || brg < 0 || brg >= 360.0000001 {
			return true, "bearing in [0,360)", fmt.Sprint(brg)
		}
		la, lo := geo.DestinationPoint(latA, lonA, d, brg)
		miss := sphere.Dist(la, lo, latB, lonB)
		tol := 2*tolDist(d) + 0.25
		if miss > tol {
			return true, fmt.Sprintf("destination of %.3f m along BearingTo = %.9f deg within %.3f m of B", d, brg, tol), fmt.Sprintf("(%v,%v), %.3f m from B", la, lo, miss)
		}
	case "destination":
		lat, lon, d, brg := v[0], v[1], v[2], v[3]
		la, lo := geo.DestinationPoint(lat, lon, d, brg)
		if math.IsNaN(la) || math.IsNaN(lo) || la < -90 || la > 90 || lo < -180 || lo > 180 {
			return true, "latitude in [-90,90], longitude in [-180,180]", fmt.Sprintf("(%v,%v)", la, lo)
		}
		back := sphere.Dist(lat, lon, la, lo)
		if !(math.Abs(back-d) <= tolDist(d)) {
			return true, fmt.Sprintf("distance back to the start = %v", d), fmt.Sprintf("%.6f (dest %v,%v)", back, la, lo)
		}
		if lib := geo.DistanceTo(lat, lon, la, lo); !(math.Abs(lib-d) <= tolDist(d)) { // NaN fails too
			return true, fmt.Sprintf("DistanceTo(start, dest) = %v", d), fmt.Sprintf("%.6f", lib)
		}
		// bearing: d >= 1 m, away from the poles and the antipode
		if d >= 1 && math.Abs(lat) <= 89.9 && d <= piR-1000 {
			δ := d / sphere.R
			tol := 1e-6 / math.Max(1e-12, math.Sin(δ)) / math.Cos(lat*math.Pi/180)
			tol = math.Max(tol, 1e-6)
			b := geo.BearingTo(lat, lon, la, lo)
			if math.IsNaN(b) || b < 0 || b >= 360+1e-9 || sphere.AngDiff(b, brg) > tol {
				return true, fmt.Sprintf("initial bearing %v (+-%.3g)", brg, tol), fmt.Sprint(b)
			}
		}
	case "haversine-monotone":
		d1, d2 := v[0], v[1] // d1 < d2
		h1, h2 := geo.DistanceToHaversine(d1), geo.DistanceToHaversine(d2)
		// true gap sin^2(x2) - sin^2(x1) = sin(x2-x1) sin(x2+x1); below the
		// resolution of float64 near 1 only "not decreasing" can be demanded
		x1, x2 := d1/(2*sphere.R), d2/(2*sphere.R)
		if gap := math.Sin(x2-x1) * math.Sin(x2+x1); gap < 1e-15 {
			if h1 > h2 {
				return true, fmt.Sprintf("haversine(%v) <= haversine(%v)", d1, d2), fmt.Sprintf("%v vs %v", h1, h2)
			}
			return false, "", ""
		}
		if !(h1 < h2) {
			return true, fmt.Sprintf("haversine(%v) < haversine(%v)", d1, d2), fmt.Sprintf("%v vs %v", h1, h2)
		}
	case "haversine-roundtrip":
		d := v[0]
		back := geo.DistanceFromHaversine(geo.DistanceToHaversine(d))
		if math.IsNaN(back) || math.Abs(back-d) > tolDist(d) {
			return true, fmt.Sprint(d), fmt.Sprint(back)
		}
	case "normalize":
		d := v[0]
		n1 := geo.NormalizeDistance(d)
		n2 := geo.NormalizeDistance(n1)
		if n1 != n2 {
			return true, "idempotent", fmt.Sprintf("%v then %v", n1, n2)
		}
		h, hn := geo.DistanceToHaversine(d), geo.DistanceToHaversine(n1)
		if !(math.Abs(h-hn) <= 1e-9) {
			return true, fmt.Sprintf("haversine unchanged (%v)", h), fmt.Sprint(hn)
		}
	case "semicircle":
		x := v[0]
		back := geo.SemiToDegs(geo.DegsToSemi(x))
		if err := sphere.LonDiff(back, x) * math.Pi / 180 * sphere.R; err > 0.02 {
			return true, fmt.Sprintf("%v within 2 cm", x), fmt.Sprintf("%v (%.4f m)", back, err)
		}
	default:
		return geoCheck2(op, v)
	}
	return false, "", ""
}

func evalGeo(c *rt.Case) (bool, string, string, error) {
	if c.Kind != "geo" {
		return false, "", "", fmt.Errorf("not mine")
	}
	f, e, g := geoCheck(c.Op, c.Nums)
	return f, e, g, nil
}

func geoRun(w *rt.Worker, op string, v ...float64) {
	w.Evals++
	if f, e, g := geoCheck(op, v); f {
		w.Fail(op, func() (rt.Case, string, string) { return geoCase(op, v...), e, g })
	}
}

func runC15(r *rt.Run) {
	th := r.Thorough()
	lats, lons := geoLats(th), geoLons(th)
	bstep := 15.0
	if th {
		bstep = 1
	}
	var brgs []float64
	for b := 0.0; b < 360; b += bstep {
		brgs = append(brgs, b)
	}
	brgs = append(brgs, 1e-9, 359.999999)
	// next to the cardinal directions (where sin or cos of the bearing is tiny but not zero)
	for _, c := range []float64{0, 90, 180, 270} {
		for _, e := range []float64{1e-7, 1e-6, 2e-5, 5e-5, 1e-4, 1e-3} {
			brgs = append(brgs, math.Mod(c+e, 360), math.Mod(c-e+360, 360))
		}
	}
	// the floats next to every multiple of 7.5 degrees (where a reduction of the
	// bearing to a quadrant or an octant changes branch)
	for b := 0.0; b < 360; b += 7.5 {
		if b > 0 {
			brgs = append(brgs, math.Nextafter(b, 0))
		}
		brgs = append(brgs, math.Nextafter(b, 360))
	}
	brgs = append(brgs, math.Nextafter(360, 0))
	dists := []float64{0, 1e-3, 1, 10, 1e3, 1e5, 1e6, 5e6, 1e7, 1.5e7, 2e7, piR - 1}
	// hops below and around a millimetre (the result must still be a location:
	// started on the antimeridian they have to wrap)
	dists = append(dists, 1e-9, 1e-6, 1e-4, 3e-4, 5e-4, 6e-4, 7e-4, 2e-3, 0.01, 0.1)
	if th {
		dists = append(dists, 0.5, 5, 100, 12345.678, 5e4, 5e5, 3e6, 8e6, piR/2, 1.2e7, 1.8e7, piR-1000, piR-0.001)
	}
	r.Bounds["latitudes"] = lats
	r.Bounds["longitudes"] = lons
	r.Bounds["bearings"] = len(brgs)
	r.Bounds["distances"] = dists
	r.Rule = "full product of the listed alphabets: every ordered pair of locations (plus the exact antipode of every location, and exact antipodal pairs at every thousandth of a degree of latitude x 6 longitudes, journeys ending a millimetre short of the antipode from every hundredth of a degree x 24 bearings) for distance, and, away from the poles and the antipode, for the round trip (travelling DistanceTo along BearingTo from A ends at B); every location x bearing x distance for destination / distance back / initial bearing; pole approach: 9 start latitudes on both hemispheres x 5 longitudes x travel along (and within 1e-6..1e-3 degree of) the meridian ending from 10 m short of to 10 m beyond the pole in 17 steps; haversine monotone along the sorted distance alphabet and metre round trip; normalisation on multiples and offsets of the circumference; semicircle round trip on a 2^16-point grid plus +-180, +-90; non-trivial = distinct locations / positive distance"
	r.Assume = []string{"sphere radius 6371e3 m (the library's constant)", "reference: unit vectors + atan2 (verif/mc/sphere); tolerances as stated in C15", "decided on the numeric lattice only"}
	type loc struct{ lat, lon float64 }
	var locs []loc
	for _, la := range lats {
		for _, lo := range lons {
			locs = append(locs, loc{la, lo})
		}
	}
	n := len(locs)
	r.States.Add(int64(n))
	r.ParFor(n, func(i int, w *rt.Worker) {
		a := locs[i]
		for _, b := range locs {
			geoRun(w, "distance-pair", a.lat, a.lon, b.lat, b.lon)
			if a != b {
				w.Nontriv++
			}
			if math.Abs(a.lat) <= 89 && math.Abs(b.lat) <= 89 {
				if d := sphere.Dist(a.lat, a.lon, b.lat, b.lon); d >= 1 && d <= piR-100000 {
					geoRun(w, "bearing-pair", a.lat, a.lon, b.lat, b.lon)
				}
			}
		}
		alon := a.lon + 180
		if alon > 180 {
			alon -= 360
		}
		geoRun(w, "distance-pair", a.lat, a.lon, -a.lat, alon)
		w.Outcome("pairs")
		for _, br := range brgs {
			for _, d := range dists {
				w.Trans++
				if d > 0 {
					w.Nontriv++
				}
				geoRun(w, "destination", a.lat, a.lon, d, br)
			}
		}
		w.Outcome("destinations")
	})
	// travel that ends on, just short of and just beyond a pole (the
	// latitude formula's singular place), from starts up to a hemisphere away
	{
		w := r.Worker()
		plats := []float64{89.9, 89.5, 89.2, 88.75, 87, 80, 60, 33, 0}
		plons := []float64{30, -47.3, 101.7, 0, 180}
		deltas := []float64{-10, -1, -0.5, -0.27, -0.2, -0.1, -0.05, -0.01, 0, 0.01, 0.05, 0.1, 0.2, 0.27, 0.5, 1, 10}
		pb := []float64{0, 1e-6, 359.999999, 1e-3}
		if th {
			plats = append(plats, 89.99, 89.7, 89, 88, 85, 75, 45, 10, -30)
			deltas = append(deltas, -100, -5, -2, -0.3, -0.25, -0.15, 0.15, 0.25, 0.3, 2, 5, 100)
		}
		r.Bounds["pole_approach"] = map[string]any{"start_latitudes(+-)": plats, "start_longitudes": plons, "metres_short_of_or_beyond_the_pole": deltas, "bearing_offsets_from_the_meridian": pb}
		for _, pl := range plats {
			for _, sgn := range []float64{1, -1} {
				for _, lo := range plons {
					for _, dl := range deltas {
						for _, bo := range pb {
							lat := sgn * pl
							D := (90 - pl) * math.Pi / 180 * sphere.R // to the pole on this side
							brg := bo
							if sgn < 0 {
								brg = math.Mod(180+bo, 360)
							}
							w.Trans++
							w.Nontriv++
							geoRun(w, "destination", lat, lo, D+dl, brg)
						}
					}
				}
			}
		}
		w.Flush()
	}
	// exact antipodes at every thousandth of a degree of latitude (the place
	// where the haversine is 1 up to rounding)
	r.ParFor(90001, func(i int, w *rt.Worker) {
		lat := float64(i) / 1000
		if i%10 == 0 {
			// journeys that end a millimetre short of the antipode, every 15 degrees of bearing
			for b := 0.0; b < 360; b += 15 {
				w.Trans++
				geoRun(w, "destination", lat, 20, piR-0.001, b)
				geoRun(w, "destination", -lat, -160.5, piR-0.001, b)
			}
		}
		for _, lon := range []float64{0, 10.5, -77.03, 151.2, 179.99, -180} {
			alon := lon + 180
			if alon > 180 {
				alon -= 360
			}
			for _, sg := range []float64{1, -1} {
				w.Trans++
				w.Nontriv++
				geoRun(w, "distance-pair", sg*lat, lon, -sg*lat, alon)
			}
		}
	})
	w := r.Worker()
	sd := append([]float64(nil), dists...)
	sd = append(sd, piR)
	for i := range sd {
		for j := range sd {
			if sd[i] < sd[j] {
				geoRun(w, "haversine-monotone", sd[i], sd[j])
			}
		}
		geoRun(w, "haversine-roundtrip", sd[i])
	}
	// order across round values of every internal quantity (metres, the angle
	// metres/R, the half angle metres/2R: powers of ten and of two, fractions of
	// the half circumference): pairs straddling each value from an ulp to a
	// ten-thousandth apart
	{
		var ths []float64
		for k := -12; k <= 0; k++ {
			p10 := math.Pow(10, float64(k))
			ths = append(ths, 2*sphere.R*p10, sphere.R*p10, 2*sphere.R*p10*math.Pi/180, 5*2*sphere.R*p10, 2*2*sphere.R*p10)
		}
		for k := -40; k <= 1; k++ {
			p2 := math.Ldexp(1, k)
			ths = append(ths, 2*sphere.R*p2, sphere.R*p2, 3*sphere.R*p2)
		}
		for k := -3; k <= 7; k++ {
			ths = append(ths, math.Pow(10, float64(k)))
		}
		for k := -10; k <= 24; k++ {
			ths = append(ths, math.Ldexp(1, k))
		}
		for _, f := range []float64{2, 3, 4, 6, 8, 1.5, 1.0001} {
			ths = append(ths, piR/f)
		}
		n := 0
		for _, t := range ths {
			if !(t > 0 && t < piR) {
				continue
			}
			for _, e := range []float64{0, 1e-15, 1e-13, 1e-12, 1e-11, 1e-10, 3e-10, 1e-9, 3e-9, 1e-8, 1e-7, 1e-6, 1e-4} {
				lo, hi := t*(1-e), t*(1+e)
				if e == 0 {
					lo, hi = math.Nextafter(t, 0), math.Nextafter(t, piR)
				}
				for _, pr := range [][2]float64{{lo, hi}, {lo, t}, {t, hi}} {
					if pr[0] < pr[1] && pr[1] <= piR {
						n++
						w.Trans++
						w.Nontriv++
						geoRun(w, "haversine-monotone", pr[0], pr[1])
					}
				}
			}
		}
		r.Bounds["haversine_straddling_pairs"] = n
	}
	for _, d := range dists {
		for _, k := range []float64{0, 1, 2, 3.5} {
			geoRun(w, "normalize", d+k*2*piR)
			geoRun(w, "normalize", k*2*piR)
			geoRun(w, "normalize", k*2*piR-1)
		}
	}
	for i := 0; i <= 1<<16; i++ {
		geoRun(w, "semicircle", -180+360*float64(i)/(1<<16))
	}
	for _, x := range []float64{-180, 180, -90, 90, 179.99999999, -179.99999999, 1e-9} {
		geoRun(w, "semicircle", x)
	}
	w.Flush()
	r.Sample(geoCase("destination", 33, -112, 1e6, 45))
	r.Sample(geoCase("distance-pair", 60, 179.999, -60, -0.001))
}
