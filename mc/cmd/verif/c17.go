package main

import (
	"bytes"
	"fmt"
	"math"
	"strings"

	"github.com/tidwall/geojson"
	"github.com/tidwall/geojson/geometry"
	"verif/mc/docgen"
	"verif/mc/refdoc"
	"verif/mc/rt"
)

// C17 — every constructible object serialises to well-formed GeoJSON, by appending.

func init() { register("C17", runC17, evalC17) }

var c17Floats = []float64{math.NaN(), math.Inf(1), math.Inf(-1), math.Copysign(0, -1), 0, 1.5, -1e-7, 1e21, 5e-324, math.MaxFloat64,
	// the other NaNs: signalling (quiet bit clear) with the smallest and a middle
	// payload, negative, quiet with a payload
	math.Float64frombits(0x7FF0000000000001), math.Float64frombits(0xFFF4000000000000), math.Float64frombits(0xFFF8000000000000), math.Float64frombits(0x7FFFFFFFFFFFFFFF)}

var c17Members = []string{
	"", "{}", `{"id":1,"properties":{"a":[1,{"b":"c"}]}}`, `{"properties":null}`, " { \"id\" : \"x\" ,\n \"properties\" : { } } ",
	`{"feature":1,"id":2}`, `{"a\"b\\":1,"é":"é"}`, `[1,2]`, `not json`, `{"id":1`, `"str"`, `{"properties":{"type":"Circle","radius":5}}`,
	`{"bbox":[1,2,3,4],"bbox":[5,6,7,8]}`, `{"id":1e999}`, `null`, `{"properties":1,"x":{"type":"Point"}}`,
	"{ }", " {} ", "{\n}", `{"feature":1}`, `{"feature":{"a":[1]}}`, `{"feature":1,"feature":2}`, `{"a":1,"feature":2}`, `[]`, `{"":0}`, `{"properties":{}}`, `{"id":"\u0000\"\\"}`,
}

// template: a constructor taking a flat ordinate vector
type c17Template struct {
	name  string
	typ   string // expected "type"
	depth int    // nesting depth of "coordinates" (0: no coordinates member)
	nOrd  int
	build func(v []float64) geojson.Object
}

func pts(v []float64) []geometry.Point {
	out := make([]geometry.Point, len(v)/2)
	for i := range out {
		out[i] = geometry.Point{X: v[2*i], Y: v[2*i+1]}
	}
	return out
}

var c17Templates = []c17Template{
	{"NewPoint", "Point", 1, 2, func(v []float64) geojson.Object { return geojson.NewPoint(pts(v)[0]) }},
	{"NewPointZ", "Point", 1, 3, func(v []float64) geojson.Object { return geojson.NewPointZ(pts(v[:2])[0], v[2]) }},
	{"NewSimplePoint", "Point", 1, 2, func(v []float64) geojson.Object { return geojson.NewSimplePoint(pts(v)[0]) }},
	{"NewLineString", "LineString", 2, 6, func(v []float64) geojson.Object { return geojson.NewLineString(geometry.NewLine(pts(v), nil)) }},
	{"NewPolygon", "Polygon", 3, 16, func(v []float64) geojson.Object {
		return geojson.NewPolygon(geometry.NewPoly(pts(v[:8]), [][]geometry.Point{pts(v[8:16])}, nil))
	}},
	{"NewRect", "Polygon", 3, 4, func(v []float64) geojson.Object {
		return geojson.NewRect(geometry.Rect{Min: pts(v[:2])[0], Max: pts(v[2:])[0]})
	}},
	{"NewCircle", "Feature", 0, 3, func(v []float64) geojson.Object { return geojson.NewCircle(pts(v[:2])[0], v[2], 8) }},
	{"NewMultiPoint", "MultiPoint", 2, 4, func(v []float64) geojson.Object { return geojson.NewMultiPoint(pts(v)) }},
	{"NewMultiLineString", "MultiLineString", 3, 8, func(v []float64) geojson.Object {
		return geojson.NewMultiLineString([]*geometry.Line{geometry.NewLine(pts(v[:4]), nil), geometry.NewLine(pts(v[4:]), nil)})
	}},
	{"NewMultiPolygon", "MultiPolygon", 4, 12, func(v []float64) geojson.Object {
		return geojson.NewMultiPolygon([]*geometry.Poly{geometry.NewPoly(pts(v[:6]), nil, nil), geometry.NewPoly(pts(v[6:]), nil, nil)})
	}},
	{"NewGeometryCollection", "GeometryCollection", 0, 6, func(v []float64) geojson.Object {
		return geojson.NewGeometryCollection([]geojson.Object{geojson.NewPoint(pts(v[:2])[0]), geojson.NewLineString(geometry.NewLine(pts(v[2:]), nil))})
	}},
	{"NewFeatureCollection", "FeatureCollection", 0, 5, func(v []float64) geojson.Object {
		return geojson.NewFeatureCollection([]geojson.Object{geojson.NewFeature(geojson.NewPointZ(pts(v[:2])[0], v[2]), `{"id":1}`), geojson.NewSimplePoint(pts(v[3:])[0])})
	}},
	{"NewFeature", "Feature", 0, 4, func(v []float64) geojson.Object {
		return geojson.NewFeature(geojson.NewMultiPoint(pts(v)), `{"properties":{"k":1}}`)
	}},
}

var c17Degenerate = []struct {
	name  string
	typ   string
	depth int
	o     func() geojson.Object
}{
	{"NewPolygon(nil)", "Polygon", 3, func() geojson.Object { return geojson.NewPolygon(nil) }},
	{"NewLineString(empty)", "LineString", 2, func() geojson.Object { return geojson.NewLineString(geometry.NewLine(nil, nil)) }},
	{"NewLineString(1pt)", "LineString", 2, func() geojson.Object {
		return geojson.NewLineString(geometry.NewLine([]geometry.Point{{X: 1, Y: 2}}, nil))
	}},
	{"NewPolygon(2pts)", "Polygon", 3, func() geojson.Object {
		return geojson.NewPolygon(geometry.NewPoly([]geometry.Point{{X: 1, Y: 2}, {X: 3, Y: 4}}, nil, nil))
	}},
	{"NewMultiPoint(nil)", "MultiPoint", 2, func() geojson.Object { return geojson.NewMultiPoint(nil) }},
	{"NewMultiLineString(nil)", "MultiLineString", 3, func() geojson.Object { return geojson.NewMultiLineString(nil) }},
	{"NewMultiPolygon(nil)", "MultiPolygon", 4, func() geojson.Object { return geojson.NewMultiPolygon(nil) }},
	{"NewGeometryCollection(nil)", "GeometryCollection", 0, func() geojson.Object { return geojson.NewGeometryCollection(nil) }},
	{"NewFeatureCollection(nil)", "FeatureCollection", 0, func() geojson.Object { return geojson.NewFeatureCollection(nil) }},
	{"NewCircle(steps=-1,r=-1)", "Feature", 0, func() geojson.Object { return geojson.NewCircle(geometry.Point{X: 1, Y: 2}, -1, -1) }},
}

func init() {
	// hand-assembled geometry values handed to the constructors
	for _, h := range handAssembled() {
		c17Degenerate = append(c17Degenerate, struct {
			name  string
			typ   string
			depth int
			o     func() geojson.Object
		}{h.name, h.typ, h.depth, h.o})
	}
}

func coordDepthOK(v *refdoc.JV, d int) bool {
	if v == nil || v.Kind != 'a' {
		return false
	}
	for _, e := range v.Arr {
		if d == 1 {
			if e.Kind != 'n' && e.Kind != 'z' {
				return false
			}
		} else if !coordDepthOK(e, d-1) {
			return false
		}
	}
	return d > 1 || len(v.Arr) >= 2
}

var sentinel = byte(0xA5)

// checkSerial verifies the four serialisers, appending, prefix integrity and
// well-formedness of one object. Returns the first discrepancy.
func checkSerial(o geojson.Object, typ string, depth int) (what, exp, got string) {
	defer func() {
		if r := recover(); r != nil {
			what, exp, got = "panic", "no panic", fmt.Sprint(r)
		}
	}()
	// the first serialisation goes into a buffer the caller keeps and re-uses:
	// the object must not hold on to any part of it
	first := o.AppendJSON(make([]byte, 0, 96))
	ref := append([]byte(nil), first...)
	poison := func(b []byte) {
		b = b[:cap(b)]
		for i := range b {
			b[i] = 0xEE
		}
	}
	poison(first)
	if r2 := o.AppendJSON(nil); !bytes.Equal(r2, ref) {
		return "changed-after-buffer-reuse", string(ref), string(r2)
	}
	if s := o.JSON(); s != string(ref) {
		return "JSON!=AppendJSON(nil)", string(ref), s
	}
	if s := o.String(); s != string(ref) {
		return "String!=AppendJSON(nil)", string(ref), s
	}
	if m, err := o.MarshalJSON(); err != nil || !bytes.Equal(m, ref) {
		return "MarshalJSON!=AppendJSON(nil)", string(ref), fmt.Sprintf("%s err=%v", m, err)
	} else {
		poison(m) // the returned slice is the caller's
	}
	prefixes := [][]byte{nil, {}, []byte("x"), bytes.Repeat([]byte("0123456789"), 10)}
	for _, p := range prefixes {
		for _, spare := range []int{0, 1, len(ref), len(ref) + 17} {
			buf := make([]byte, len(p), len(p)+spare)
			copy(buf, p)
			full := buf[:cap(buf)]
			for i := len(p); i < len(full); i++ {
				full[i] = sentinel
			}
			out := o.AppendJSON(buf)
			if !bytes.Equal(buf[:len(p)], p) {
				return "prefix-modified", string(p), string(buf[:len(p)])
			}
			if len(out) != len(p)+len(ref) || !bytes.Equal(out[:len(p)], p) || !bytes.Equal(out[len(p):], ref) {
				return fmt.Sprintf("append(prefix=%d,spare=%d)", len(p), spare), string(p) + string(ref), string(out)
			}
			poison(out)
		}
	}
	if s := o.JSON(); s != string(ref) {
		return "changed-after-buffer-reuse", string(ref), s
	}
	if ok, d := refdoc.WellFormed(string(ref)); d > 9000 {
		// at or beyond encoding/json's nesting limit: judged by the harness's
		// own validator (which agrees with encoding/json on every shallower
		// text either of them has seen); the leading member names the type
		if !ok {
			return "not-json", "one valid JSON value", trunc(string(ref))
		}
		if !strings.HasPrefix(string(ref), `{"type":"`+typ+`"`) {
			return "wrong-type", typ, trunc(string(ref))
		}
		return "", "", ""
	}
	jv, err := refdoc.ParseJSON(string(ref))
	if err != nil {
		return "not-json", "one valid JSON value", string(ref) + " (" + err.Error() + ")"
	}
	if jv.Kind != 'o' {
		return "not-an-object", "a JSON object", string(ref)
	}
	if t := jv.Get("type"); t == nil || t.Kind != 's' || t.Str != typ {
		return "wrong-type", typ, string(ref)
	}
	if depth > 0 && !coordDepthOK(jv.Get("coordinates"), depth) {
		return "coordinates-depth", fmt.Sprintf("coordinates nested %d deep", depth), string(ref)
	}
	switch typ {
	case "Feature":
		if g := jv.Get("geometry"); g == nil || g.Kind != 'o' {
			return "feature-geometry", "geometry object", string(ref)
		}
		if jv.Get("properties") == nil {
			return "feature-properties", "a properties member", string(ref)
		}
	case "GeometryCollection":
		if g := jv.Get("geometries"); g == nil || g.Kind != 'a' {
			return "geometries", "geometries array", string(ref)
		}
	case "FeatureCollection":
		if g := jv.Get("features"); g == nil || g.Kind != 'a' {
			return "features", "features array", string(ref)
		}
	}
	return "", "", ""
}

func c17Base(n int) []float64 {
	// a ring-friendly base vector: (0,0),(4,0),(4,4),(0,0) repeated
	b := []float64{0, 0, 4, 0, 4, 4, 0, 0, 1, 1, 2, 1, 2, 2, 1, 1}
	out := make([]float64, n)
	for i := range out {
		out[i] = b[i%len(b)]
	}
	return out
}

func runC17(r *rt.Run) {
	r.Rule = "every public constructor x float alphabet {NaN, +-Inf, -0, 0, 1.5, -1e-7, 1e21, 5e-324, MaxFloat64} at every ordinate position (<= 2 special values per object, every pair of positions) ; NewFeature x 16 member texts x 13 geometries, nested 3 deep; degenerate constructor arguments; parsed seed documents; each x 4 prefixes x 4 spare capacities with a sentinel-filled spare region, every buffer handed out or filled by the object overwritten afterwards (the first serialisation goes into a caller-owned buffer) and the object serialised again; non-trivial = object with at least one special float or non-empty member text"
	r.Assume = []string{"well-formedness judged by verif/mc/refdoc (encoding/json)"}
	r.Bounds["floats"] = len(c17Floats)
	r.Bounds["member_texts"] = len(c17Members)
	r.Bounds["templates"] = len(c17Templates)
	type job struct {
		ti, i, j int // template, first slot, second slot (j<0: single)
	}
	var jobs []job
	for ti, t := range c17Templates {
		for i := 0; i < t.nOrd; i++ {
			jobs = append(jobs, job{ti, i, -1})
			for j := i + 1; j < t.nOrd; j++ {
				jobs = append(jobs, job{ti, i, j})
			}
		}
	}
	if r.Thorough() {
		// three special values per object: every triple of positions x every
		// triple of floats, for the templates with at most 8 ordinates
		type tj struct{ ti, a, b, c int }
		var tjobs []tj
		for ti, t := range c17Templates {
			if t.nOrd > 8 {
				continue
			}
			for a := 0; a < t.nOrd; a++ {
				for b := a + 1; b < t.nOrd; b++ {
					for c := b + 1; c < t.nOrd; c++ {
						tjobs = append(tjobs, tj{ti, a, b, c})
					}
				}
			}
		}
		r.Bounds["triple_position_jobs"] = len(tjobs)
		r.ParFor(len(tjobs), func(k int, w *rt.Worker) {
			jb := tjobs[k]
			t := c17Templates[jb.ti]
			for _, f1 := range c17Floats {
				for _, f2 := range c17Floats {
					for _, f3 := range c17Floats {
						v := c17Base(t.nOrd)
						v[jb.a], v[jb.b], v[jb.c] = f1, f2, f3
						o := t.build(v)
						w.States++
						w.Evals++
						w.Nontriv++
						if what, exp, got := checkSerial(o, t.typ, t.depth); what != "" {
							w.Fail("serial-"+what, func() (rt.Case, string, string) {
								return rt.Case{Kind: "serial", Op: t.name, Nums: v, X: map[string]string{"what": what}}, exp, got
							})
						}
					}
				}
			}
		})
	}
	r.ParFor(len(jobs), func(k int, w *rt.Worker) {
		jb := jobs[k]
		t := c17Templates[jb.ti]
		for fi, f1 := range c17Floats {
			f2s := []float64{0}
			if jb.j >= 0 {
				f2s = c17Floats
			}
			for fj, f2 := range f2s {
				v := c17Base(t.nOrd)
				v[jb.i] = f1
				if jb.j >= 0 {
					v[jb.j] = f2
				}
				o := t.build(v)
				w.States++
				w.Trans += int64(t.nOrd)
				w.Evals++
				w.Nontriv++
				if what, exp, got := checkSerial(o, t.typ, t.depth); what != "" {
					w.Fail("serial-"+what, func() (rt.Case, string, string) {
						return rt.Case{Kind: "serial", Op: t.name, Nums: v, X: map[string]string{"what": what}}, exp, got
					})
				}
				if jb.j < 0 && fi == 0 && fj == 0 {
					w.Outcome(t.typ)
				}
			}
		}
	})
	// NewFeature x members x geometries, nested
	w := r.Worker()
	var geoms []geojson.Object
	for _, t := range c17Templates {
		geoms = append(geoms, t.build(c17Base(t.nOrd)))
	}
	for _, d := range c17Degenerate {
		o := d.o()
		geoms = append(geoms, o)
		w.States++
		w.Evals++
		if what, exp, got := checkSerial(o, d.typ, d.depth); what != "" {
			name := d.name
			w.Fail("serial-"+what, func() (rt.Case, string, string) {
				return rt.Case{Kind: "serial", Op: name, X: map[string]string{"what": what}}, exp, got
			})
		}
	}
	for gi, g := range geoms {
		for mi, m := range c17Members {
			f := geojson.NewFeature(g, m)
			nested := geojson.NewFeatureCollection([]geojson.Object{f, geojson.NewFeature(geojson.NewGeometryCollection([]geojson.Object{f, g}), m)})
			for li, o := range []geojson.Object{f, nested} {
				typ := "Feature"
				if li == 1 {
					typ = "FeatureCollection"
				}
				w.States++
				w.Evals++
				if m != "" {
					w.Nontriv++
				}
				if what, exp, got := checkSerial(o, typ, 0); what != "" {
					gi, mi, li := gi, mi, li
					w.Fail("serial-feature-"+what, func() (rt.Case, string, string) {
						return rt.Case{Kind: "serial", Op: "NewFeature", X: map[string]string{"what": what, "geom": fmt.Sprint(gi), "member": fmt.Sprint(mi), "nested": fmt.Sprint(li)}}, exp, got
					})
				}
			}
		}
	}
	// NewFeature x member texts built from the string alphabet (every unit as a
	// member key, alone and next to a "feature" member, which NewFeature strips)
	{
		units := docgen.StringUnits()
		r.Bounds["newfeature_unit_member_texts"] = 3 * len(units)
		for ui, u := range units {
			for vi, m := range []string{`{"` + u + `":[1]}`, `{"feature":1,"` + u + `":true}`, `{"a":"` + u + `","feature":{"x":"` + u + `"},"` + u + `z":null}`} {
				for gi, g := range geoms[:3] {
					f := geojson.NewFeature(g, m)
					w.States++
					w.Evals++
					w.Nontriv++
					if what, exp, got := checkSerial(f, "Feature", 0); what != "" {
						ui, vi, gi := ui, vi, gi
						w.Fail("serial-feature-unit-"+what, func() (rt.Case, string, string) {
							return rt.Case{Kind: "serial", Op: "NewFeatureUnit", X: map[string]string{"what": what, "unit": fmt.Sprint(ui), "variant": fmt.Sprint(vi), "geom": fmt.Sprint(gi)}}, exp, got
						})
					}
				}
			}
		}
	}
	// objects obtained from Parse
	seeds := append(append(docgen.Seeds(), floatSeeds()...), invalidSeeds()...)
	seeds = append(seeds, docgen.LargeDocs()...) // buffer growth with thousands of positions / hundreds of children
	seeds = append(seeds, docgen.MemberDocs()...)
	seeds = append(seeds, docgen.NestedKeyDocs()...)
	seeds = append(seeds, docgen.CaseKeyDocs()...)
	seeds = append(seeds, docgen.DimDocs()...)
	seeds = append(seeds, docgen.BBoxDocs()...)
	seeds = append(seeds, docgen.EscapedKeyDocs()...)
	seeds = append(seeds, docgen.StringDocs()...) // every string unit and pair of units as member key / value
	r.Bounds["parsed_documents"] = len(seeds)
	r.Bounds["string_units"] = len(docgen.StringUnits())
	for _, s := range seeds {
		for _, os := range []optSet{optDefault, optAlt} {
			o, err, _ := parseChecked(s, os.O)
			if err != nil || o == nil {
				continue
			}
			w.States++
			w.Evals++
			depth := map[string]int{"Point": 1, "LineString": 2, "Polygon": 3, "MultiPoint": 2, "MultiLineString": 3, "MultiPolygon": 4}[typeOf(o)]
			if what, exp, got := checkSerial(o, typeOf(o), depth); what != "" {
				w.Fail("serial-parsed-"+what, func() (rt.Case, string, string) {
					return rt.Case{Kind: "serial", Op: "Parse", Doc: trunc(s), Cfg: os.Name, X: map[string]string{"what": what, "len": fmt.Sprint(len(s))}}, trunc(exp), trunc(got)
				})
			}
		}
	}
	// long series whose every ordinate has a long decimal text (tiny magnitudes
	// with a full mantissa, subnormals, large exponents): sizes either side of
	// powers of two, as LineString / Polygon ring / MultiLineString member /
	// MultiPoint; any size estimate per ordinate is exceeded on every position
	{
		gens := c17LongGens
		r.Bounds["long_text_series"] = "5 ordinate generators x sizes 2^k-1, 2^k, 2^k+1 (k = 5..10) x 5 kinds"
		for gi, g := range gens {
			for k := 5; k <= 10; k++ {
				for d := -1; d <= 1; d++ {
					n := 1<<k + d
					objs := c17LongObjs(g.f, n)
					for oi, ob := range objs {
						w.States++
						w.Evals++
						w.Nontriv++
						if what, exp, got := checkSerial(ob.o, ob.typ, ob.depth); what != "" {
							gi, n, oi := gi, n, oi
							w.Fail("serial-long-text-series-"+what, func() (rt.Case, string, string) {
								return rt.Case{Kind: "serial", Op: "LongText", X: map[string]string{"what": what, "gen": fmt.Sprint(gi), "n": fmt.Sprint(n), "kind": fmt.Sprint(oi), "name": g.name}}, trunc(exp), trunc(got)
							})
						}
					}
				}
			}
		}
	}
	// foreign members nested just below, at and beyond 10000 levels (the limit
	// of encoding/json, which neither Parse nor RFC 8259 has), in every member
	// position; parsed and through NewFeature
	deep := c17DeepDocs()
	r.Bounds["deeply_nested_member_documents"] = len(deep)
	for di, d := range deep {
		var o geojson.Object
		if d.members {
			o = geojson.NewFeature(geojson.NewPoint(geometry.Point{X: 1, Y: 2}), d.text)
		} else {
			var err error
			if o, err, _ = parseChecked(d.text, nil); err != nil || o == nil {
				continue
			}
		}
		w.States++
		w.Evals++
		w.Nontriv++
		if what, exp, got := checkSerial(o, typeOf(o), 0); what != "" {
			di := di
			w.Fail("serial-deep-member-"+what, func() (rt.Case, string, string) {
				return rt.Case{Kind: "serial", Op: "Deep", X: map[string]string{"what": what, "doc": fmt.Sprint(di), "name": d.name}}, trunc(exp), trunc(got)
			})
		}
	}
	w.Flush()
	r.Sample(map[string]any{"constructor": "NewPolygon", "ordinates": "base ring with NaN at slot 3 and -Inf at slot 9", "prefix_len": 100, "spare": 1})
	r.Sample(map[string]any{"constructor": "NewFeature", "members": c17Members[6]})
	_ = strings.Contains
}

type c17Deep struct {
	name, text string
	members    bool // text is the member text of NewFeature, not a document
}

func c17DeepDocs() []c17Deep {
	var out []c17Deep
	for _, depth := range []int{9999, 10000, 10001, 20000} {
		nests := map[string]string{
			"arrays":  strings.Repeat("[", depth) + strings.Repeat("]", depth),
			"objects": strings.Repeat(`{"a":`, depth) + "1" + strings.Repeat("}", depth),
			"mixed":   strings.Repeat(`[{"a":`, depth/2) + `"x"` + strings.Repeat("}]", depth/2),
		}
		for _, kind := range []string{"arrays", "objects", "mixed"} {
			v := nests[kind]
			pt := `{"type":"Point","coordinates":[1,2]}`
			docs := map[string]string{
				"geometry-member":    `{"type":"Point","coordinates":[1,2],"deep":` + v + `}`,
				"line-member-first":  `{"deep":` + v + `,"type":"LineString","coordinates":[[1,2],[3,4]]}`,
				"feature-properties": `{"type":"Feature","geometry":` + pt + `,"properties":` + v + `}`,
				"feature-id":         `{"type":"Feature","geometry":` + pt + `,"id":` + v + `,"properties":{}}`,
				"feature-member":     `{"type":"Feature","geometry":` + pt + `,"properties":{},"deep":` + v + `}`,
				"feature-geometry":   `{"type":"Feature","geometry":{"type":"Point","coordinates":[1,2],"deep":` + v + `},"properties":{}}`,
				"collection-member":  `{"type":"FeatureCollection","features":[],"deep":` + v + `}`,
				"child-member":       `{"type":"GeometryCollection","geometries":[{"type":"Point","coordinates":[1,2],"deep":` + v + `}]}`,
			}
			for _, pos := range []string{"geometry-member", "line-member-first", "feature-properties", "feature-id", "feature-member", "feature-geometry", "collection-member", "child-member"} {
				out = append(out, c17Deep{fmt.Sprintf("%s/%s/%d", pos, kind, depth), docs[pos], false})
			}
			out = append(out, c17Deep{fmt.Sprintf("NewFeature-properties/%s/%d", kind, depth), `{"properties":` + v + `}`, true})
			out = append(out, c17Deep{fmt.Sprintf("NewFeature-member/%s/%d", kind, depth), `{"id":1,"deep":` + v + `}`, true})
		}
	}
	return out
}

type c17LongObj struct {
	o     geojson.Object
	typ   string
	depth int
}

var c17LongGens = []struct {
	name string
	f    func(i int) (float64, float64)
}{
	{"tiny-full-mantissa", func(i int) (float64, float64) {
		return float64(i+1) * 1.2345678901234567e-40, -float64(2*i+1) * 7.654321098765432e-41
	}},
	{"subnormal", func(i int) (float64, float64) {
		return float64(i+1) * 4.9406564584124654e-324, -float64(i+3) * 1.2345e-310
	}},
	{"e-300", func(i int) (float64, float64) {
		return 1.2345678901234567e-300 * float64(i+1), 9.87654321e-200 / float64(i+1)
	}},
	{"in-range-17-digits", func(i int) (float64, float64) {
		return 100.12345678901234 + float64(i)*1e-13, -45.123456789012345 - float64(i)*1e-14
	}},
	{"huge", func(i int) (float64, float64) { return 1.2345678901234567e300 * float64(i+1), -1.7976931348623157e308 }},
}

func c17LongObjs(f func(i int) (float64, float64), n int) []c17LongObj {
	pts := make([]geometry.Point, n)
	for i := range pts {
		pts[i].X, pts[i].Y = f(i)
	}
	ring := append(append([]geometry.Point{}, pts...), pts[0])
	return []c17LongObj{
		{geojson.NewLineString(geometry.NewLine(pts, nil)), "LineString", 2},
		{geojson.NewPolygon(geometry.NewPoly(ring, [][]geometry.Point{ring}, nil)), "Polygon", 3},
		{geojson.NewMultiLineString([]*geometry.Line{geometry.NewLine(pts[:2], nil), geometry.NewLine(pts, nil)}), "MultiLineString", 3},
		{geojson.NewMultiPoint(pts), "MultiPoint", 2},
		{geojson.NewMultiPolygon([]*geometry.Poly{geometry.NewPoly(ring, nil, nil)}), "MultiPolygon", 4},
	}
}

func evalC17(c *rt.Case) (bool, string, string, error) {
	if c.Kind != "serial" {
		return false, "", "", fmt.Errorf("not mine")
	}
	if c.Op == "LongText" {
		var gi, n, oi int
		fmt.Sscan(c.X["gen"], &gi)
		fmt.Sscan(c.X["n"], &n)
		fmt.Sscan(c.X["kind"], &oi)
		if gi < 0 || gi >= len(c17LongGens) || n < 2 || n > 1<<16 || oi < 0 || oi > 4 {
			return false, "", "", fmt.Errorf("bad indexes")
		}
		ob := c17LongObjs(c17LongGens[gi].f, n)[oi]
		what, exp, got := checkSerial(ob.o, ob.typ, ob.depth)
		return what != "", trunc(exp), what + ": " + trunc(got), nil
	}
	if c.Op == "Deep" {
		var di int
		fmt.Sscan(c.X["doc"], &di)
		deep := c17DeepDocs()
		if di < 0 || di >= len(deep) {
			return false, "", "", fmt.Errorf("bad index")
		}
		var o geojson.Object
		if deep[di].members {
			o = geojson.NewFeature(geojson.NewPoint(geometry.Point{X: 1, Y: 2}), deep[di].text)
		} else {
			var err error
			if o, err, _ = parseChecked(deep[di].text, nil); err != nil || o == nil {
				return false, "", "", nil
			}
		}
		what, exp, got := checkSerial(o, typeOf(o), 0)
		return what != "", trunc(exp), what + ": " + trunc(got), nil
	}
	for _, t := range c17Templates {
		if t.name == c.Op && len(c.Nums) == t.nOrd && c.X["geom"] == "" {
			what, exp, got := checkSerial(t.build(c.Nums), t.typ, t.depth)
			return what != "", exp, what + ": " + got, nil
		}
	}
	for _, d := range c17Degenerate {
		if d.name == c.Op {
			what, exp, got := checkSerial(d.o(), d.typ, d.depth)
			return what != "", exp, what + ": " + got, nil
		}
	}
	if c.Op == "Parse" {
		o, err, _ := parseChecked(c.Doc, optByName(c.Cfg))
		if err != nil || o == nil {
			return false, "", "", nil
		}
		depth := map[string]int{"Point": 1, "LineString": 2, "Polygon": 3, "MultiPoint": 2, "MultiLineString": 3, "MultiPolygon": 4}[typeOf(o)]
		what, exp, got := checkSerial(o, typeOf(o), depth)
		return what != "", exp, what + ": " + got, nil
	}
	if c.Op == "NewFeatureUnit" {
		var ui, vi, gi int
		fmt.Sscan(c.X["unit"], &ui)
		fmt.Sscan(c.X["variant"], &vi)
		fmt.Sscan(c.X["geom"], &gi)
		units := docgen.StringUnits()
		if ui >= len(units) || vi > 2 || gi > 2 {
			return false, "", "", fmt.Errorf("bad indexes")
		}
		u := units[ui]
		m := []string{`{"` + u + `":[1]}`, `{"feature":1,"` + u + `":true}`, `{"a":"` + u + `","feature":{"x":"` + u + `"},"` + u + `z":null}`}[vi]
		t := c17Templates[gi]
		what, exp, got := checkSerial(geojson.NewFeature(t.build(c17Base(t.nOrd)), m), "Feature", 0)
		return what != "", exp, what + ": " + got, nil
	}
	if c.Op == "NewFeature" {
		var gi, mi, li int
		fmt.Sscan(c.X["geom"], &gi)
		fmt.Sscan(c.X["member"], &mi)
		fmt.Sscan(c.X["nested"], &li)
		var geoms []geojson.Object
		for _, t := range c17Templates {
			geoms = append(geoms, t.build(c17Base(t.nOrd)))
		}
		for _, d := range c17Degenerate {
			geoms = append(geoms, d.o())
		}
		if gi >= len(geoms) || mi >= len(c17Members) {
			return false, "", "", fmt.Errorf("bad indexes")
		}
		g, m := geoms[gi], c17Members[mi]
		f := geojson.NewFeature(g, m)
		var o geojson.Object = f
		typ := "Feature"
		if li == 1 {
			o = geojson.NewFeatureCollection([]geojson.Object{f, geojson.NewFeature(geojson.NewGeometryCollection([]geojson.Object{f, g}), m)})
			typ = "FeatureCollection"
		}
		what, exp, got := checkSerial(o, typ, 0)
		return what != "", exp, what + ": " + got, nil
	}
	return false, "", "", fmt.Errorf("unknown serial case")
}
