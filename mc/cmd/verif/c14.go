package main

import (
	"fmt"
	"math"
	"strconv"
	"strings"

	"github.com/tidwall/geojson"
	"github.com/tidwall/geojson/geo"
	"github.com/tidwall/geojson/geometry"
	"verif/mc/refdoc"
	"verif/mc/rt"
	"verif/mc/sphere"
)

// C14 — the bounding rectangle of a radius search covers the whole disc.
// C13 — Circle objects mean 'within great-circle distance of the centre'.

func init() {
	register("C14", runC14, evalGeo)
	register("C13", runC13, evalGeo)
}

func inLon(lon, min, max, slack float64) bool {
	return lon >= min-slack && lon <= max+slack
}

// option sets for re-parsing a circle's own JSON
var c13ParseOpts = []*geojson.ParseOptions{
	nil,
	{IndexChildren: 64, IndexGeometry: 64, IndexGeometryKind: geometry.QuadTree, RequireValid: true},
	{IndexChildren: 64, IndexGeometry: 64, IndexGeometryKind: geometry.QuadTree, AllowSimplePoints: true, RequireValid: true},
	{IndexChildren: 1, IndexGeometry: 1, IndexGeometryKind: geometry.RTree, AllowRects: true, AllowSimplePoints: true},
	{IndexChildren: 0, IndexGeometry: 0, IndexGeometryKind: geometry.None, AllowRects: true, RequireValid: true},
}

func geoCheck2(op string, v []float64) (bool, string, string) {
	switch op {
	case "rect-covers":
		// lat, lon, radius, bearing, fraction
		lat, lon, r, brg, f := v[0], v[1], v[2], v[3], v[4]
		minLat, minLon, maxLat, maxLon := geo.RectFromCenter(lat, lon, r)
		pl, po := sphere.Dest(lat, lon, r*f, brg)
		slackLat := 0.01 / sphere.R * 180 / math.Pi
		cl := math.Cos(pl * math.Pi / 180)
		full := minLon <= -180 && maxLon >= 180
		okLat := pl >= minLat-slackLat && pl <= maxLat+slackLat
		okLon := full || cl < 1e-9 || inLon(po, minLon, maxLon, slackLat/cl)
		if !okLat || !okLon {
			return true, fmt.Sprintf("location (%v,%v) at %.3f m from the centre inside the rectangle", pl, po, r*f), fmt.Sprintf("lat[%v,%v] lon[%v,%v]", minLat, maxLat, minLon, maxLon)
		}
	case "rect-covers-tangent":
		// lat, lon, radius, side (+1 east, -1 west): the location of the disc's
		// rim with the extreme longitude offset on that side (found by ternary
		// search on the reference destination) lies inside the rectangle
		lat, lon, r, side := v[0], v[1], v[2], v[3]
		off := func(b float64) float64 {
			_, po := sphere.Dest(lat, lon, r, b)
			return side * (math.Mod(po-lon+540, 360) - 180)
		}
		lo, hi := 0.0, 180.0
		if side < 0 {
			lo, hi = 180, 360
		}
		for i := 0; i < 100; i++ {
			m1, m2 := lo+(hi-lo)/3, hi-(hi-lo)/3
			if off(m1) < off(m2) {
				lo = m1
			} else {
				hi = m2
			}
		}
		return geoCheck2("rect-covers", []float64{lat, lon, r, (lo + hi) / 2, 1})
	case "rect-history":
		// lat, lon, radius: the rectangle of a centre does not depend on which
		// call came before. Primers: the centre whose radians (degrees) are this
		// centre's degrees (unit mix-ups in a memo key), the same centre with
		// another radius, another centre with the same radius.
		lat, lon, r := v[0], v[1], v[2]
		type rc [4]float64
		call := func(la, lo, m float64) rc {
			a, b, c, d := geo.RectFromCenter(la, lo, m)
			return rc{a, b, c, d}
		}
		base := call(lat, lon, r)
		const rad = math.Pi / 180
		for _, p := range [][3]float64{{lat / rad, lon / rad, r}, {lat * rad, lon * rad, r}, {lat, lon, r / 2}, {lat, lon, r * 3}, {-lat, lon, r}, {lat, lon + 1, r}} {
			if math.Abs(p[0]) > 90 || math.Abs(p[1]) > 180 {
				continue
			}
			call(p[0], p[1], p[2])
			if again := call(lat, lon, r); again != base {
				return true, fmt.Sprintf("the same rectangle %v after a call for (%v,%v,%v)", base, p[0], p[1], p[2]), fmt.Sprint(again)
			}
		}
	case "rect-shape":
		lat, lon, r := v[0], v[1], v[2]
		minLat, minLon, maxLat, maxLon := geo.RectFromCenter(lat, lon, r)
		for _, x := range []float64{minLat, minLon, maxLat, maxLon} {
			if math.IsNaN(x) {
				return true, "no NaN", fmt.Sprintf("lat[%v,%v] lon[%v,%v]", minLat, maxLat, minLon, maxLon)
			}
		}
		eps := 1e-9
		if minLat < -90-eps || maxLat > 90+eps || minLon < -180-eps || maxLon > 180+eps || minLat > maxLat || minLon > maxLon {
			return true, "within the world bounds, min <= max", fmt.Sprintf("lat[%v,%v] lon[%v,%v]", minLat, maxLat, minLon, maxLon)
		}
		if r >= 1 {
			ang := r / sphere.R * 180 / math.Pi
			reachesPole := lat+ang >= 90+1e-7 || lat-ang <= -90-1e-7
			// crosses the antimeridian: some point of the disc has |lon| beyond 180
			crosses := false
			if !reachesPole {
				for b := 0.0; b < 360; b += 0.5 {
					pl, po := sphere.Dest(lat, lon, r, b)
					if math.Abs(pl) > 90-1e-6 {
						continue // within 11 cm of a pole the longitude carries no information
					}
					// signed longitude offset of the probe from the centre, in [-180,180)
					off := math.Mod(po-lon+540, 360) - 180
					if lon+off > 180+1e-9 || lon+off < -180-1e-9 {
						crosses = true
					}
				}
			}
			if (reachesPole || crosses) && !(minLon <= -180+eps && maxLon >= 180-eps) {
				return true, fmt.Sprintf("full longitude range (reaches pole=%v, crosses antimeridian=%v)", reachesPole, crosses), fmt.Sprintf("lon[%v,%v]", minLon, maxLon)
			}
		} else if r < 1e-3 {
			// radii too small to resolve: the degenerate rectangle at the centre, or a proper cover
			if !(minLat <= lat+1e-9 && maxLat >= lat-1e-9 && minLon <= lon+1e-9 && maxLon >= lon-1e-9) {
				return true, "rectangle containing the centre", fmt.Sprintf("lat[%v,%v] lon[%v,%v]", minLat, maxLat, minLon, maxLon)
			}
		}
	case "circle-point":
		// clat, clon, radius, plat, plon
		clat, clon, r, plat, plon := v[0], v[1], v[2], v[3], v[4]
		d := sphere.Dist(clat, clon, plat, plon)
		tol := math.Max(1e-3, 1e-8*r)
		c := geojson.NewCircle(geometry.Point{X: clon, Y: clat}, r, 64)
		p := geometry.Point{X: plon, Y: plat}
		pt, sp := geojson.NewPoint(p), geojson.NewSimplePoint(p)
		got := []bool{c.Contains(pt), c.Contains(sp), c.Intersects(pt), c.Intersects(sp), pt.Within(c), sp.Within(c), pt.Intersects(c), sp.Intersects(c)}
		// the same position with a third ordinate: still a point
		pz := geojson.NewPointZ(p, 12)
		got = append(got, c.Contains(pz), c.Intersects(pz), pz.Within(c), pz.Intersects(c))
		same := true
		for _, g := range got {
			if g != got[0] {
				same = false
			}
		}
		if !same {
			return true, "the same answer for Point / SimplePoint, both operand orders, contains and intersects", fmt.Sprint(got)
		}
		if d <= r-tol && !got[0] {
			return true, fmt.Sprintf("contained: distance %.6f <= radius %v", d, r), "false"
		}
		if d >= r+tol && got[0] {
			return true, fmt.Sprintf("not contained: distance %.6f > radius %v", d, r), "true"
		}
	case "circle-zero-value":
		// plat, plon: the zero value of Circle is the circle of radius 0 at (0,0)
		c := new(geojson.Circle)
		p := geometry.Point{X: v[1], Y: v[0]}
		pt, sp := geojson.NewPoint(p), geojson.NewSimplePoint(p)
		want := v[0] == 0 && v[1] == 0
		got := []bool{c.Contains(pt), c.Contains(sp), c.Intersects(pt), c.Intersects(sp), pt.Within(c), sp.Within(c), pt.Intersects(c), sp.Intersects(c)}
		for _, g := range got {
			if g != want {
				return true, fmt.Sprintf("all %v (distance %.3f m from the centre (0,0), radius 0)", want, sphere.Dist(0, 0, v[0], v[1])), fmt.Sprint(got)
			}
		}
		if c.Meters() != 0 || c.Center() != (geometry.Point{}) {
			return true, "centre (0,0), radius 0", fmt.Sprint(c.Center(), c.Meters())
		}
		if o, err := geojson.Parse(c.JSON(), nil); err != nil {
			return true, "its JSON parses back", err.Error()
		} else if c2, ok := o.(*geojson.Circle); !ok || c2.Center() != c.Center() || c2.Meters() != c.Meters() {
			return true, "parses back to the same circle", o.JSON()
		}
	case "circle-monotone":
		// clat, clon, r1 < r2, plat, plon
		c1 := geojson.NewCircle(geometry.Point{X: v[1], Y: v[0]}, v[2], 64)
		c2 := geojson.NewCircle(geometry.Point{X: v[1], Y: v[0]}, v[3], 64)
		pt := geojson.NewPoint(geometry.Point{X: v[5], Y: v[4]})
		if c1.Contains(pt) && !c2.Contains(pt) {
			return true, "containment monotone in the radius", fmt.Sprintf("contained at %v but not at %v", v[2], v[3])
		}
	case "circle-circle":
		// alat, alon, ra, blat, blon, rb
		a := geojson.NewCircle(geometry.Point{X: v[1], Y: v[0]}, v[2], 64)
		b := geojson.NewCircle(geometry.Point{X: v[4], Y: v[3]}, v[5], 64)
		d := sphere.Dist(v[0], v[1], v[3], v[4])
		ra, rb := v[2], v[5]
		tol := math.Max(1e-3, 1e-8*math.Max(ra, rb)) + 1e-6*d
		cont, inter := a.Contains(b), a.Intersects(b)
		if cont && d+rb > ra+tol {
			return true, fmt.Sprintf("A contains B only if %.6f + %v <= %v", d, rb, ra), "contains"
		}
		if d+rb <= ra-tol && !cont {
			return true, fmt.Sprintf("A contains B: %.6f + %v <= %v", d, rb, ra), "false"
		}
		if d <= ra+rb-tol && !inter {
			return true, fmt.Sprintf("intersects: %.6f <= %v + %v", d, ra, rb), "false"
		}
		if d >= ra+rb+tol && inter {
			return true, fmt.Sprintf("disjoint: %.6f > %v + %v", d, ra, rb), "intersects"
		}
		if b.Within(a) != cont || b.Intersects(a) != inter {
			return true, "duality / symmetry between circles", fmt.Sprintf("contains=%v within=%v intersects=%v/%v", cont, b.Within(a), inter, b.Intersects(a))
		}
	case "circle-collection":
		// clat, clon, r, plat, plon, n: a collection of n points, one of them the
		// probe and the others far away, answers as the probe alone does
		c := geojson.NewCircle(geometry.Point{X: v[1], Y: v[0]}, v[2], 64)
		probe := geometry.Point{X: v[4], Y: v[3]}
		n := int(v[5])
		pts := make([]geometry.Point, 0, n)
		for i := 0; i < n-1; i++ {
			la := v[0] + 20 + float64(i%7)
			if la > 85 {
				la = v[0] - 20 - float64(i%7)
			}
			pts = append(pts, geometry.Point{X: math.Mod(v[1]+200+float64(i), 360) - 180, Y: la})
		}
		pts = append(pts[:n/2:n/2], append([]geometry.Point{probe}, pts[n/2:]...)...)
		want := c.Intersects(geojson.NewPoint(probe))
		var feats []geojson.Object
		for _, q := range pts {
			feats = append(feats, geojson.NewFeature(geojson.NewPoint(q), ""))
		}
		far := c.Intersects(geojson.NewMultiPoint(append(append([]geometry.Point{}, pts[:n/2]...), pts[n/2+1:]...)))
		for ci, coll := range []geojson.Object{geojson.NewMultiPoint(pts), geojson.NewFeatureCollection(feats), geojson.NewGeometryCollection(feats)} {
			// (the circle is the receiver: what a collection makes of a circle
			// argument goes through the circle's rectangle, KF-CIRCLE-RECT, and is
			// C09's / C10's business)
			if g1 := c.Intersects(coll); g1 != (want || far) {
				return true, fmt.Sprintf("circle intersects the collection (kind %d, %d children) iff it intersects the probe: %v", ci, n, want), fmt.Sprint(g1)
			}
		}
	case "circle-doc":
		// order (0..5: permutation of the members type / radius / radius_units),
		// units (0 none, 1 "m", 2 "km"), radius, wrapper (0 bare, 1 in a FeatureCollection)
		mem := []string{`"type":"Circle"`, `"radius":` + strconv.FormatFloat(v[2], 'g', -1, 64), ""}
		scale := 1.0
		switch int(v[1]) {
		case 1:
			mem[2] = `"radius_units":"m"`
		case 2:
			mem[2], scale = `"radius_units":"km"`, 1000
		}
		perm := [][3]int{{0, 1, 2}, {0, 2, 1}, {1, 0, 2}, {1, 2, 0}, {2, 0, 1}, {2, 1, 0}}[int(v[0])%6]
		var parts []string
		for _, i := range perm {
			if mem[i] != "" {
				parts = append(parts, mem[i])
			}
		}
		props := `"properties":{"name":"c",` + strings.Join(parts, `,"k":1,`) + `}`
		docs := []string{`{"type":"Feature","geometry":{"type":"Point","coordinates":[10,50]},` + props + `}`, `{"type":"Feature",` + props + `,"geometry":{"type":"Point","coordinates":[10,50]}}`}
		for _, d := range docs {
			if v[3] == 1 {
				d = `{"type":"FeatureCollection","features":[` + d + `]}`
			}
			o, err := geojson.Parse(d, nil)
			if err != nil {
				return true, "accepted", err.Error() + ": " + d
			}
			if fc, ok := o.(*geojson.FeatureCollection); ok {
				o = fc.Children()[0]
			}
			c, ok := o.(*geojson.Circle)
			if !ok {
				return true, "a Circle", fmt.Sprintf("%T for %s", o, d)
			}
			if want := v[2] * scale; c.Meters() != want || c.Center() != (geometry.Point{X: 10, Y: 50}) {
				return true, fmt.Sprintf("centre (10,50), %v m", want), fmt.Sprintf("%v, %v m for %s", c.Center(), c.Meters(), d)
			}
		}
	case "circle-serial":
		// clat, clon, r, steps
		c := geojson.NewCircle(geometry.Point{X: v[1], Y: v[0]}, v[2], int(v[3]))
		js := c.JSON()
		jv, err := refdoc.ParseJSON(js)
		if err != nil {
			return true, "valid JSON", js
		}
		props := jv.Get("properties")
		if t := jv.Get("type"); t == nil || t.Str != "Feature" || props == nil || props.Get("type") == nil || props.Get("type").Str != "Circle" ||
			props.Get("radius_units") == nil || props.Get("radius_units").Str != "m" || jv.Get("geometry") == nil || jv.Get("geometry").Get("type").Str != "Point" {
			return true, "Feature / Point / properties{type:Circle,radius,radius_units:m}", js
		}
		if math.IsNaN(v[2]) || math.IsInf(v[2], 0) || math.IsNaN(v[0]) || math.IsNaN(v[1]) {
			return false, "", ""
		}
		// under every option set that keeps the Circle convention on (a centre in
		// range makes the circle a valid object whatever its polygon does)
		centreValid := v[0] >= -90 && v[0] <= 90 && v[1] >= -180 && v[1] <= 180
		for oi, po := range c13ParseOpts {
			if po != nil && po.RequireValid && !centreValid {
				continue
			}
			o, err := geojson.Parse(js, po)
			if err != nil {
				return true, fmt.Sprintf("parses back (option set %d)", oi), err.Error()
			}
			c2, ok := o.(*geojson.Circle)
			if !ok {
				return true, fmt.Sprintf("parses back to a Circle (option set %d)", oi), fmt.Sprintf("%T", o)
			}
			if c2.Center() != c.Center() || c2.Meters() != c.Meters() {
				return true, fmt.Sprintf("same centre %v and radius %v (option set %d)", c.Center(), c.Meters(), oi), fmt.Sprintf("%v %v", c2.Center(), c2.Meters())
			}
		}
	case "circle-polygon":
		c := geojson.NewCircle(geometry.Point{X: v[1], Y: v[0]}, v[2], int(v[3]))
		pg, ok := c.Polygon().(*geojson.Polygon)
		if !ok {
			return true, "a polygon", fmt.Sprintf("%T", c.Polygon())
		}
		ext := pg.Base().Exterior
		n := ext.NumPoints()
		if n < 4 || ext.PointAt(0) != ext.PointAt(n-1) {
			return true, "a closed ring of at least 4 positions", fmt.Sprintf("%d positions, first %v last %v", n, ext.PointAt(0), ext.PointAt(n-1))
		}
		steps := int(v[3])
		if steps < 3 {
			steps = 3
		}
		if v[2] > 0 && n != steps+2 && n != steps+1 {
			return true, fmt.Sprintf("about %d positions", steps+1), fmt.Sprint(n)
		}
		rc := pg.Rect()
		ctr := c.Center()
		if !(rc.Min.X <= ctr.X && ctr.X <= rc.Max.X && rc.Min.Y <= ctr.Y && ctr.Y <= rc.Max.Y) {
			return true, fmt.Sprintf("rectangle containing the centre %v", ctr), fmt.Sprint(rc)
		}
	default:
		return false, "", "unknown op " + op
	}
	return false, "", ""
}

func runC14(r *rt.Run) {
	th := r.Thorough()
	radii := []float64{0, 1e-9, 1e-4, 0.2, 0.3, 1, 10, 1e3, 1e5, 1e6, 5e6, 1e7, piR - 1, piR}
	// the top end of the radius range approached but not reached (and the
	// quarter circumference, where the disc is a hemisphere, from both sides)
	radii = append(radii, 4500, 4999, 5000, 5001, 999, 1001, 2e4)
	radii = append(radii, math.Nextafter(piR, 0), piR-1e-6, piR-1e-3, piR-0.1, piR-0.25, piR-0.3, piR-10, piR-1e3,
		piR/2, math.Nextafter(piR/2, 0), math.Nextafter(piR/2, piR), piR/2-1e-3, piR/2+1e-3, piR/2-0.25, piR/2+0.25)
	lats := []float64{-90, -89.999, -60, -1e-9, 0, 1e-9, 33, 60, 89.999, 90}
	lons := []float64{-180, -179.999, -90, 0, 90, 179.999, 180}
	// the corners of the map: one to three degrees from a pole and from the
	// antimeridian at once (a disc of a few kilometres is many degrees of
	// longitude wide there)
	lats = append(lats, 87.5, 88.6, 88.99, 89.5, -87.5, -88.6, -89.2)
	lons = append(lons, 177.5, 178.7, 178.99, 179.5, -177.5, -178.7, -179.3)
	if th {
		lats = append(lats, -89.999999, -75, -45, -30, -15, 15, 30, 45, 75, 85, 89.999999, 89.99, -89.99, 1e-300)
		lons = append(lons, -179.9999999, -135, -45, -1e-9, 1e-9, 45, 135, 179.9999999, 179.99, -179.99)
		radii = append(radii, 100, 1e4, 3e6, 2e7, 5, 50, 500, 5e3, 5e4, 5e5, 2e6, 8e6, 1.2e7, 1.5e7)
	}
	// latitudes with lat + r/R within a few ulps of the pole, for every radius
	var tang []float64
	for _, rr := range radii {
		if rr < 1 || rr >= piR/2 {
			continue
		}
		ang := rr / sphere.R * 180 / math.Pi
		base := 90 - ang
		for k := -4; k <= 4; k += 2 {
			x := base
			for i := 0; i < int(math.Abs(float64(k))); i++ {
				if k > 0 {
					x = math.Nextafter(x, 100)
				} else {
					x = math.Nextafter(x, -100)
				}
			}
			tang = append(tang, x, -x)
		}
	}
	bstep := 5.0
	if th {
		bstep = 0.5
	}
	r.Bounds["latitudes"] = len(lats) + len(tang)
	r.Bounds["longitudes"] = lons
	r.Bounds["radii"] = radii
	r.Bounds["bearing_step_deg"] = bstep
	r.Bounds["fractions"] = []float64{1, 0.999, 0.5}
	r.Rule = "full product: latitudes (incl. values with lat + r/R within +-4 ulp of the pole for every radius) x longitudes x radii x probe bearings x distance fractions {1, 0.999, 0.5}: the reference destination point must lie inside the rectangle (1 cm slack); per (lat, lon, radius): no NaN, world bounds, full longitude range when the disc reaches a pole or crosses the antimeridian, degenerate rectangle for unresolvable radii; dense grid of 45 (80) irregular latitudes x 5 (8) longitudes x 17 mantissas x 7 decades of radii with the rim location of extreme longitude on either side found by ternary search; call histories (the rectangle of a centre after calls for unit-mixed-up / neighbouring centres and radii, single worker); antimeridian approach (disc ending from 10 m short of to 10 m beyond the antimeridian in 12 steps, 6 latitudes x 4 radii, both sides); non-trivial = radius >= 1 m"
	r.Assume = []string{"sphere radius 6371e3 m", "reference destination: verif/mc/sphere", "decided on the numeric lattice only"}
	all := append(append([]float64(nil), lats...), tang...)
	r.States.Add(int64(len(all) * len(lons) * len(radii)))
	r.ParFor(len(all), func(i int, w *rt.Worker) {
		lat := all[i]
		if lat > 90 || lat < -90 {
			return
		}
		for _, lon := range lons {
			for _, rr := range radii {
				geoRun(w, "rect-shape", lat, lon, rr)
				w.Trans++
				if rr < 1 {
					continue
				}
				w.Nontriv++
				w.Outcome(fmt.Sprintf("r=%g", rr))
				for b := 0.0; b < 360; b += bstep {
					for _, f := range []float64{1, 0.999, 0.5} {
						geoRun(w, "rect-covers", lat, lon, rr, b, f)
					}
				}
				// tangent bearings (where the disc reaches its extreme longitudes)
				for _, b := range []float64{90, 270, 89.5, 270.5, 60, 300, 120, 240} {
					geoRun(w, "rect-covers", lat, lon, rr, b, 1)
				}
			}
		}
	})
	// dense grid: irregular latitudes x mantissa x decade radii
	var dl, dr []float64
	for la := -85.0; la <= 85; la += 5 {
		dl = append(dl, la)
	}
	dl = append(dl, 18.221, 9.7955, 51.477, -33.3, 66.56, 0.5, -27.5, -10.5, 89, -89.5, 1.23456)
	for _, dec := range []float64{1, 10, 100, 1e3, 1e4, 1e5, 1e6} {
		for _, m := range []float64{1, 1.0287, 1.1, 1.1723, 1.5, 2, 2.2, 2.5, 3, 3.5, 4, 5, 6, 6.371, 7, 8, 9} {
			dr = append(dr, m*dec)
		}
	}
	dlon := []float64{-180, -51, 0, 102, 179.9}
	dstep := 10.0
	if th {
		dstep = 2
		for la := -87.5; la <= 87.5; la += 5 {
			dl = append(dl, la)
		}
		dlon = append(dlon, -120.5, 33.3, 179.9999)
	}
	r.Bounds["dense_grid"] = map[string]any{"latitudes": len(dl), "longitudes": dlon, "radii": len(dr), "bearing_step_deg": dstep}
	r.ParFor(len(dl), func(i int, w *rt.Worker) {
		lat := dl[i]
		for _, lon := range dlon {
			for _, rr := range dr {
				w.Trans++
				w.Nontriv++
				geoRun(w, "rect-shape", lat, lon, rr)
				for b := 0.0; b < 360; b += dstep {
					geoRun(w, "rect-covers", lat, lon, rr, b, 1)
				}
				geoRun(w, "rect-covers-tangent", lat, lon, rr, 1)
				geoRun(w, "rect-covers-tangent", lat, lon, rr, -1)
			}
		}
	})
	// discs that end a little short of a pole (100 m .. 90 km: sin r / cos lat
	// within 1e-9 .. 1e-4 of 1, the steep end of the arc sine), from every
	// latitude of the dense grid
	{
		short := []float64{100, 360, 500, 640, 850, 1000, 2000, 3600, 1e4, 2e4, 5e4, 9e4}
		r.Bounds["short_of_pole_m"] = short
		r.ParFor(len(dl), func(i int, w *rt.Worker) {
			lat := dl[i]
			for _, lon := range dlon[:3] {
				for _, d := range short {
					rr := (90-math.Abs(lat))*math.Pi/180*sphere.R - d
					if rr < 1 {
						continue
					}
					w.Trans++
					w.Nontriv++
					geoRun(w, "rect-shape", lat, lon, rr)
					geoRun(w, "rect-covers-tangent", lat, lon, rr, 1)
					geoRun(w, "rect-covers-tangent", lat, lon, rr, -1)
				}
			}
		})
	}
	// discs that stop within a few ulps of a pole, for every dense radius and
	// every latitude 90 - r/R -4..+4 ulps, both hemispheres (no NaN, covers)
	r.ParFor(len(dr), func(i int, w *rt.Worker) {
		rr := dr[i]
		if rr >= piR/2 {
			return
		}
		base := 90 - rr/sphere.R*180/math.Pi
		for k := -4; k <= 4; k++ {
			x := base
			for s := 0; s < int(math.Abs(float64(k))); s++ {
				if k > 0 {
					x = math.Nextafter(x, 100)
				} else {
					x = math.Nextafter(x, -100)
				}
			}
			for _, lat := range []float64{x, -x} {
				for _, lon := range []float64{0, 10, -120, 179.5} {
					w.Trans++
					w.Nontriv++
					geoRun(w, "rect-shape", lat, lon, rr)
					geoRun(w, "rect-covers-tangent", lat, lon, rr, 1)
				}
			}
		}
	})
	// and the other way round: for irregular latitudes, the radii that reach
	// the pole exactly (computed two ways) -3..+3 ulps
	{
		w := r.Worker()
		for _, lat := range []float64{16.55, 5.009, -7.295, 12.3456, 19.99, -18.221, 9.7955, 33.3, -51.477, 0.5} {
			for _, d := range []float64{(90 - math.Abs(lat)) * math.Pi / 180 * sphere.R, sphere.Dist(lat, 0, math.Copysign(90, lat), 0)} {
				for k := -3; k <= 3; k++ {
					x := d
					for s := 0; s < int(math.Abs(float64(k))); s++ {
						if k > 0 {
							x = math.Nextafter(x, math.Inf(1))
						} else {
							x = math.Nextafter(x, 0)
						}
					}
					for _, lon := range []float64{10, -120, 0} {
						w.Trans++
						geoRun(w, "rect-shape", lat, lon, x)
					}
				}
			}
		}
		w.Flush()
	}
	// call history: one worker, so that nothing but the sequence itself can matter
	{
		w := r.Worker()
		for _, lat := range []float64{45, 0.7853981633974483, 10, 0.5, -33, 1.2345, 60, 89} {
			for _, lon := range []float64{90, 1.5707963267948966, 20, 0.25, 151, -2, 179.9} {
				for _, rr := range []float64{1, 100000, 1e6} {
					w.Trans++
					geoRun(w, "rect-history", lat, lon, rr)
				}
			}
		}
		w.Flush()
	}
	// antimeridian approach: the disc's extreme longitude ends from 10 m short
	// of to 10 m beyond the antimeridian
	{
		w := r.Worker()
		deltas := []float64{-10, -1, -0.1, -0.05, -0.02, 0, 0.02, 0.03, 0.05, 0.1, 1, 10,
			// either side of the one-centimetre tolerance in half-millimetre steps
			-0.015, -0.0125, -0.0115, -0.0105, -0.0095, -0.005, 0.005, 0.0095, 0.0101, 0.0105, 0.011, 0.0115, 0.012, 0.0125, 0.013, 0.0135, 0.014, 0.015}
		cnt := 0
		for _, lat := range []float64{0, 10, 33, -45, 60, -75} {
			for _, rr := range []float64{100, 11119.55, 1e5, 1e6} {
				ang := rr / sphere.R
				cl := math.Cos(lat * math.Pi / 180)
				if math.Sin(ang) >= cl {
					continue
				}
				half := math.Asin(math.Sin(ang)/cl) * 180 / math.Pi
				for _, dm := range deltas {
					dd := dm / (sphere.R * cl) * 180 / math.Pi
					for _, side := range []float64{1, -1} {
						lon := side * (180 - half + dd)
						cnt++
						w.Trans++
						w.Nontriv++
						geoRun(w, "rect-shape", lat, lon, rr)
						geoRun(w, "rect-covers-tangent", lat, lon, rr, side)
						geoRun(w, "rect-covers-tangent", lat, lon, rr, -side)
					}
				}
			}
		}
		r.Bounds["antimeridian_approach_cases"] = cnt
		w.Flush()
	}
	r.Sample(geoCase("rect-covers", 60, 179.999, 1e5, 90, 1))
	r.Sample(geoCase("rect-shape", 89.999, 0, 1e3))
}

func runC13(r *rt.Run) {
	th := r.Thorough()
	type ctr struct{ lon, lat float64 }
	centres := []ctr{{0, 0}, {-112, 33}, {179.9999, 10}, {-180, -45}, {10, 89.999}, {0, 90}, {45, -90}}
	radii := []float64{0, 1e-3, 0.01, 0.05, 0.1, 0.5, 1, 10, 1e3, 1e5, 1e6, 5e6, 1e7, piR - 1, piR}
	factors := []float64{0, .5, 1 - 1e-4, 1 - 3e-8, 1 + 3e-8, 1 + 1e-4, 1.5}
	// absolute offsets from the radius just outside the 1 mm band (sub-metre radii)
	offsets := []float64{-0.0015, 0.0015, -0.004, 0.004, -0.0025, 0.0025}
	bstep := 15.0
	if th {
		bstep = 1
		centres = append(centres, ctr{-0.0001, 60}, ctr{100, -75}, ctr{179.9999, 89}, ctr{-179.9999, -0.0001}, ctr{30, 45}, ctr{-60, -89.9}, ctr{0, 89.999999})
		radii = append(radii, 100, 1e4, 3e6, 1.5e7, 0.25, 2, 55.5, 12345.678, 2e6, 1.9e7)
		factors = append(factors, 0.25, 0.9, 1-1e-6, 1+1e-6, 1.1, 2)
	}
	special := len(centres)
	coarse := len(radii) // the alphabet used for monotonicity / circle-circle / serialisation
	// dense grid: every mantissa x decade radius at every (lat, lon) of a grid
	// with poles, near-poles, the antimeridian and irregular values
	for _, dec := range []float64{1e-3, 1e-2, 1e-1, 1, 10, 100, 1e3, 1e4, 1e5, 1e6, 1e7} {
		for _, m := range []float64{1.1, 1.5, 2, 2.2, 2.5, 3, 3.5, 4, 5, 6, 7, 8, 9} {
			if rr := m * dec; rr < piR {
				radii = append(radii, rr)
			}
		}
	}
	glats := []float64{-89.999, -75, -45, -27.5, -10.5, -0.0001, 10, 33, 45, 60, 75, 89, 89.99}
	glons := []float64{-180, -179.9999, -112, -51, -0.0001, 0, 10, 45, 102, 179.9999}
	if th {
		glats = append(glats, -89.9, -60, -33.3, 0, 0.5, 21.7, 51.477, 66.56, 80, 85.05, 89.9999)
		glons = append(glons, -150, -90.5, -30, 0.0001, 77.7, 120, 151.2, 180)
	}
	for _, la := range glats {
		for _, lo := range glons {
			centres = append(centres, ctr{lo, la})
		}
	}
	r.Bounds["centres"] = len(centres)
	r.Bounds["radii"] = radii
	r.Bounds["distance_factors"] = factors
	r.Bounds["absolute_offsets_m"] = offsets
	r.Bounds["bearing_step_deg"] = bstep
	r.Bounds["step_counts"] = "-1..4096"
	r.Rule = "full product centres (7 special + 13 x 10 grid of latitudes incl. near-poles x longitudes incl. antimeridian) x radii (15 boundary values + 13 mantissas x 11 decades from 1 mm to 10,000 km) x bearings x distance factors (probe = reference destination point; every 30 degrees also with the probe longitude written +-360 degrees away) as Point, SimplePoint and Point with a third ordinate, both operand orders, contains and intersects; monotonicity along the radius alphabet; circle-circle over the same grid x radius alphabet; serialisation (re-parsed under 5 option sets incl. RequireValid) / polygon for radii incl. negative, NaN, Inf, 3piR and every step count -1..4096; non-trivial = probe outside the tolerance band"
	r.Assume = []string{"sphere radius 6371e3 m", "reference distance: verif/mc/sphere; inside the stated band (max(1 mm, 1e-8 r)) either answer is accepted"}
	r.States.Add(int64(len(centres) * len(radii)))
	r.ParFor(len(centres)*len(radii), func(i int, w *rt.Worker) {
		c, rr := centres[i/len(radii)], radii[i%len(radii)]
		step := bstep
		if th && (i%len(radii) >= coarse || i/len(radii) >= special) {
			step = 5 // thorough: 1 degree for the boundary radii at the special centres, 5 degrees over the dense grid
		}
		for b := 0.0; b < 360; b += step {
			for _, f := range factors {
				if rr*f > piR {
					continue
				}
				pl, po := sphere.Dest(c.lat, c.lon, rr*f, b)
				w.Trans++
				if math.Abs(sphere.Dist(c.lat, c.lon, pl, po)-rr) > math.Max(1e-3, 1e-8*rr) {
					w.Nontriv++
				}
				geoRun(w, "circle-point", c.lat, c.lon, rr, pl, po)
				if int(b)%30 == 0 {
					// the same place with its longitude written a full turn away
					geoRun(w, "circle-point", c.lat, c.lon, rr, pl, po+360)
					geoRun(w, "circle-point", c.lat, c.lon, rr, pl, po-360)
				}
				for _, r2 := range radii[:coarse] {
					if r2 > rr {
						geoRun(w, "circle-monotone", c.lat, c.lon, rr, r2, pl, po)
					}
				}
				if f > 0 && int(b)%45 == 0 {
					for _, rb := range radii[:coarse] {
						geoRun(w, "circle-circle", c.lat, c.lon, rr, pl, po, rb)
					}
				}
			}
			for _, off := range offsets {
				if d := rr + off; d >= 0 && d <= piR && 1e-8*rr < 1e-3 {
					pl, po := sphere.Dest(c.lat, c.lon, d, b)
					w.Trans++
					w.Nontriv++
					geoRun(w, "circle-point", c.lat, c.lon, rr, pl, po)
				}
			}
		}
		w.Outcome(fmt.Sprintf("r=%g", rr))
	})
	// probe first, radius second: every probe at a fixed latitude / longitude
	// offset from the centre (same parallel, same meridian, diagonal; a ten
	// thousandth of a degree to 30 degrees), with radii just either side of the
	// probe's own distance
	{
		offs := []float64{0, 1e-4, 0.01, 0.25, 0.5, 0.9, 1, 2.5, 30}
		var signed []float64
		for _, o := range offs {
			signed = append(signed, o)
			if o != 0 {
				signed = append(signed, -o)
			}
		}
		r.Bounds["probe_first_offsets_deg"] = offs
		grid := centres[special:]
		r.ParFor(len(grid), func(i int, w *rt.Worker) {
			c := grid[i]
			for _, dla := range signed {
				for _, dlo := range signed {
					pl, po := c.lat+dla, c.lon+dlo
					if pl > 90 || pl < -90 || (dla == 0 && dlo == 0) {
						continue
					}
					d := sphere.Dist(c.lat, c.lon, pl, po)
					tol := math.Max(1e-3, 1e-8*d)
					// two circles whose radii add up to the distance between the
					// centres as the library computes it, to the last bits (the
					// answers are free inside the tolerance, their symmetry is not)
					if dl := geo.DistanceTo(c.lat, c.lon, pl, po); dl > 1 && dla >= 0 {
						for _, ra := range []float64{100.1, dl / 3, 0.7 * dl, 12345.678} {
							if ra >= dl {
								continue
							}
							rb := dl - ra
							for k := 0; k < 2; k++ {
								rb = math.Nextafter(rb, 0)
							}
							for k := -2; k <= 2; k++ {
								w.Trans++
								geoRun(w, "circle-circle", c.lat, c.lon, ra, pl, po, rb)
								rb = math.Nextafter(rb, math.Inf(1))
							}
						}
					}
					// the probe among 62 / 63 / 64 other, far-away children of a collection
					// (either side of the child-index threshold), for radii from 5 cm
					for _, rr := range []float64{0.05, 0.2, 0.28, 0.3, 1} {
						if dla == 1e-4 && (dlo == 0 || dlo == 1e-4) {
							for _, frac := range []float64{0.5, 0.99} {
								ql, qo := sphere.Dest(c.lat, c.lon, rr*frac, 77)
								for _, n := range []int{63, 64, 65} {
									w.Trans++
									geoRun(w, "circle-collection", c.lat, c.lon, rr, ql, qo, float64(n))
								}
							}
						}
					}
					for _, n := range []int{63, 64} {
						if dla >= 0 && dlo >= 0 && d < 3e6 {
							w.Trans++
							geoRun(w, "circle-collection", c.lat, c.lon, d*1.001+0.01, pl, po, float64(n))
							geoRun(w, "circle-collection", c.lat, c.lon, d*0.999, pl, po, float64(n))
						}
					}
					for _, m := range []float64{2 * tol, 0.1, 1e-6 * d, 1e-3 * d} {
						if m < 2*tol {
							continue
						}
						for _, rr := range []float64{d - m, d + m} {
							if rr < 0 || rr > piR {
								continue
							}
							w.Trans++
							w.Nontriv++
							geoRun(w, "circle-point", c.lat, c.lon, rr, pl, po)
						}
					}
				}
			}
		})
	}
	// Circle-convention documents with their three members in every order
	{
		w := r.Worker()
		for perm := 0; perm < 6; perm++ {
			for units := 0; units < 3; units++ {
				for _, rad := range []float64{5, 0.5, 2500, 0} {
					for wrap := 0; wrap < 2; wrap++ {
						w.Trans++
						w.Nontriv++
						geoRun(w, "circle-doc", float64(perm), float64(units), rad, float64(wrap))
					}
				}
			}
		}
		w.Flush()
	}
	// the zero value of Circle against the probe grid
	{
		w := r.Worker()
		for _, la := range []float64{0, 1e-9, -0.001, 10, -45, 90} {
			for _, lo := range []float64{0, 1e-9, 0.001, 10, -90, 180, -180} {
				w.Trans++
				geoRun(w, "circle-zero-value", la, lo)
			}
		}
		w.Flush()
	}
	// serialisation and polygon: all step counts
	ser := append(append([]float64(nil), radii[:coarse]...), -1, math.NaN(), math.Inf(1), 3*piR)
	r.ParFor(4098, func(i int, w *rt.Worker) {
		steps := float64(i - 1)
		for ci, c := range centres {
			for ri, rr := range ser {
				if i > 70 && (ci+ri+i)%7 != 0 && !th {
					// quick: beyond 64 steps every 7th (centre, radius) combination per step count
					continue
				}
				geoRun(w, "circle-serial", c.lat, c.lon, rr, steps)
				if !math.IsNaN(rr) && !math.IsInf(rr, 0) {
					geoRun(w, "circle-polygon", c.lat, c.lon, rr, steps)
				}
			}
		}
	})
	r.Sample(geoCase("circle-point", 33, -112, 1e5, 33.5, -111.2))
	r.Sample(geoCase("circle-circle", 0, 0, 1e6, 5, 5, 1e5))
}
