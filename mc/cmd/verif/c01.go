package main

import (
	"fmt"
	"strconv"
	"strings"

	"github.com/tidwall/geojson"
	"github.com/tidwall/geojson/geometry"
	"verif/mc/exact"
	"verif/mc/lat"
	"verif/mc/rt"
)

// C01 — point membership is exact, at geometry and object level, under every
// segment-index configuration.

func init() { register("C01", runC01, evalC01) }

func cfgByName(n string) *geometry.IndexOptions {
	for _, c := range idxCfgs {
		if c.Name == n {
			return c.Opts
		}
	}
	return idxNone
}

// memberGeom asks the library both membership questions.
func memberGeom(g geometry.Geometry, p geometry.Point) (bool, bool) {
	return g.ContainsPoint(p), g.IntersectsPoint(p)
}

func c01Shape(s *exact.Shape, t Xf, probes []exact.P, fprobes []geometry.Point, cfgs []idxCfg, w *rt.Worker, hist bool) {
	nt := !s.Empty()
	for ci, cfg := range cfgs {
		g := geomOf(s, t, cfg.Opts)
		w.States++
		for j, p := range probes {
			want := s.Member(p.R())
			fp := fprobes[j]
			c, i := memberGeom(g, fp)
			w.Evals += 2
			if ci == 0 {
				if nt {
					w.Nontriv++
				}
				if hist {
					w.Outcome(fmt.Sprintf("%s member=%v", s.Kind, want))
				}
			}
			if c != want || i != want {
				cfgName := cfg.Name
				w.Fail("member-"+s.Kind.String(), func() (rt.Case, string, string) {
					return rt.Case{Kind: "member", Op: "geom", A: descShape(s, t), B: ptG(fp), Cfg: cfgName, X: t.x()},
						fmt.Sprint(want), fmt.Sprintf("contains=%v intersects=%v", c, i)
				})
			}
		}
	}
}

// c01Moved: the shape built under each index configuration and then
// translated through Move (exact offsets, one far beyond the shape's own
// extent): membership of the translated probes must be that of the original.
var c01MoveDeltas = [][2]float64{{1000, -500.5}, {-3.5, 0}, {0, 70}}

func c01Moved(s *exact.Shape, probes []exact.P, fprobes []geometry.Point, cfgs []idxCfg, w *rt.Worker) {
	for _, cfg := range cfgs {
		g0 := geomOf(s, ident, cfg.Opts)
		for di, d := range c01MoveDeltas {
			g := moveGeom(g0, d[0], d[1])
			w.States++
			for j, p := range probes {
				want := s.Member(p.R())
				fp := geometry.Point{X: fprobes[j].X + d[0], Y: fprobes[j].Y + d[1]}
				c, i := memberGeom(g, fp)
				w.Evals += 2
				if c != want || i != want {
					cfgName, di, j := cfg.Name, di, j
					w.Fail("member-moved-"+s.Kind.String(), func() (rt.Case, string, string) {
						return rt.Case{Kind: "member", Op: fmt.Sprintf("moved%d", di), A: descShape(s, ident), B: ptG(fprobes[j]), Cfg: cfgName},
							fmt.Sprint(want), fmt.Sprintf("contains=%v intersects=%v", c, i)
					})
				}
			}
		}
	}
}

// objAnswers asks the object-level API every way a point can be tested
// against obj; all must equal want.
func objAnswers(obj geojson.Object, p geometry.Point) (string, bool) {
	pt := geojson.NewPoint(p)
	sp := geojson.NewSimplePoint(p)
	fpt := geojson.NewFeature(pt, "")
	first := obj.Contains(pt)
	all := []bool{
		first, obj.Contains(sp), obj.Contains(fpt),
		pt.Within(obj), sp.Within(obj), fpt.Within(obj),
		obj.Intersects(pt), obj.Intersects(sp), obj.Intersects(fpt),
		pt.Intersects(obj), sp.Intersects(obj), fpt.Intersects(obj),
		obj.Spatial().IntersectsPoint(p),
	}
	same := true
	for _, b := range all {
		if b != first {
			same = false
		}
	}
	return fmt.Sprint(all), same && true
}

func objectsOf(s *exact.Shape, t Xf, opts *geometry.IndexOptions) []geojson.Object {
	var base geojson.Object
	switch s.Kind {
	case exact.KPoint:
		base = geojson.NewPoint(t.pt(s.Pt))
	case exact.KLine:
		base = geojson.NewLineString(geometry.NewLine(t.pts(s.Line), opts))
	case exact.KRect:
		base = geojson.NewRect(t.rect(s))
	default:
		base = geojson.NewPolygon(geomOf(s, t, opts).(*geometry.Poly))
	}
	out := []geojson.Object{base, geojson.NewFeature(base, ""), geojson.NewFeature(base, `{"id":1,"properties":{"a":[1,2]}}`)}
	// the same shape read from a document with third ordinates and "bbox"
	// members of several kinds (a foreign member as far as geometry goes): the
	// six-number 3D form, too small, elsewhere; on the geometry, on a Feature
	// around it, and as an indexed child of a FeatureCollection
	if coords, ok := coordsJSON(s, t); ok {
		typ := map[exact.Kind]string{exact.KPoint: "Point", exact.KLine: "LineString", exact.KPoly: "Polygon"}[s.Kind]
		rc := base.Rect()
		f := func(v float64) string { return strconv.FormatFloat(v, 'g', -1, 64) }
		boxes := []string{
			"[" + f(rc.Min.X) + "," + f(rc.Min.Y) + ",2," + f(rc.Max.X) + "," + f(rc.Max.Y) + ",8]",
			"[" + f(rc.Min.X) + "," + f(rc.Min.Y) + "," + f(rc.Min.X) + "," + f(rc.Min.Y) + "]",
			"[100,100,101,101]",
		}
		for bi, b := range boxes {
			g := `{"type":"` + typ + `","bbox":` + b + `,"coordinates":` + coords + `}`
			docs := []string{g, `{"type":"Feature","bbox":` + b + `,"geometry":` + g + `,"properties":{}}`}
			if bi == 0 {
				docs = append(docs, `{"type":"FeatureCollection","bbox":`+b+`,"features":[{"type":"Feature","bbox":`+b+`,"geometry":`+g+`}]}`)
			}
			for _, d := range docs {
				o, err := geojson.Parse(d, &geojson.ParseOptions{IndexChildren: 1, IndexGeometry: 64, IndexGeometryKind: geometry.QuadTree})
				if err != nil {
					panic("harness: " + err.Error() + ": " + d)
				}
				out = append(out, o)
			}
		}
	}
	return out
}

// coordsJSON writes the coordinates member of the shape with a third ordinate
// on every position (ok=false where Parse would not take the shape: rings
// that are not closed or too short, rectangles).
func coordsJSON(s *exact.Shape, t Xf) (string, bool) {
	pos := func(p exact.P, i int) string {
		q := t.pt(p)
		return "[" + strconv.FormatFloat(q.X, 'g', -1, 64) + "," + strconv.FormatFloat(q.Y, 'g', -1, 64) + "," + strconv.Itoa(2+i%7) + "]"
	}
	list := func(ps []exact.P) string {
		var sb strings.Builder
		sb.WriteByte('[')
		for i, p := range ps {
			if i > 0 {
				sb.WriteByte(',')
			}
			sb.WriteString(pos(p, i))
		}
		sb.WriteByte(']')
		return sb.String()
	}
	closedRing := func(r []exact.P) bool { return len(r) >= 4 && r[0] == r[len(r)-1] }
	switch s.Kind {
	case exact.KPoint:
		return pos(s.Pt, 0), true
	case exact.KLine:
		if len(s.Line) < 2 {
			return "", false
		}
		return list(s.Line), true
	case exact.KPoly:
		if !closedRing(s.Ext) {
			return "", false
		}
		out := "[" + list(s.Ext)
		for _, h := range s.Holes {
			if !closedRing(h) {
				return "", false
			}
			out += "," + list(h)
		}
		return out + "]", true
	}
	return "", false
}

func c01Object(s *exact.Shape, t Xf, probes []exact.P, fprobes []geometry.Point, cfg idxCfg, w *rt.Worker) {
	objs := objectsOf(s, t, cfg.Opts)
	w.States += int64(len(objs))
	for oi, obj := range objs {
		for j, p := range probes {
			want := s.Member(p.R())
			fp := fprobes[j]
			w.Evals += 13
			got, same := objAnswers(obj, fp)
			if !same || obj.Contains(geojson.NewPoint(fp)) != want {
				oi := oi
				w.Fail("object-"+s.Kind.String(), func() (rt.Case, string, string) {
					return rt.Case{Kind: "member", Op: fmt.Sprintf("object%d", oi), A: descShape(s, t), B: ptG(fp), Cfg: cfg.Name, X: t.x()},
						fmt.Sprintf("all 13 object-level answers = %v", want), got
				})
			}
		}
	}
}

// c01Parsed reads the closed ring as a plain two-ordinate Polygon document
// under ParseOptions.AllowRects (on the geometry and on a Feature around it):
// whatever kind of object Parse chooses to build for it, membership is that of
// the ring.
func parsedAllowRects(s *exact.Shape) []geojson.Object {
	var sb strings.Builder
	sb.WriteString(`{"type":"Polygon","coordinates":[[`)
	for i, p := range s.Ext {
		if i > 0 {
			sb.WriteByte(',')
		}
		q := ident.pt(p)
		sb.WriteString("[" + strconv.FormatFloat(q.X, 'g', -1, 64) + "," + strconv.FormatFloat(q.Y, 'g', -1, 64) + "]")
	}
	sb.WriteString(`]]}`)
	g := sb.String()
	var out []geojson.Object
	for _, d := range []string{g, `{"type":"Feature","geometry":` + g + `,"properties":null}`} {
		obj, err := geojson.Parse(d, &geojson.ParseOptions{AllowRects: true, IndexGeometry: 64, IndexChildren: 64})
		if err != nil {
			panic("harness: " + err.Error() + ": " + d)
		}
		out = append(out, obj)
	}
	return out
}

func c01Parsed(s *exact.Shape, probes []exact.P, fprobes []geometry.Point, w *rt.Worker) {
	for di, obj := range parsedAllowRects(s) {
		w.States++
		for j, p := range probes {
			want := s.Member(p.R())
			fp := fprobes[j]
			w.Evals += 13
			got, same := objAnswers(obj, fp)
			if !same || obj.Contains(geojson.NewPoint(fp)) != want {
				di := di
				w.Fail("object-parsed-allowrects", func() (rt.Case, string, string) {
					return rt.Case{Kind: "member", Op: fmt.Sprintf("parsed%d", di), A: descShape(s, ident), B: ptG(fp), Cfg: "allowrects", X: ident.x()},
						fmt.Sprintf("all 13 object-level answers = %v", want), got
				})
			}
		}
	}
}

// curated exteriors on the 5x5 lattice (half-unit coordinates 0..8)
func P2(c ...int64) []exact.P {
	var out []exact.P
	for i := 0; i+1 < len(c); i += 2 {
		out = append(out, exact.P{X: 2 * c[i], Y: 2 * c[i+1]})
	}
	return out
}

var curatedExteriors = map[string][]exact.P{
	"square":      P2(0, 0, 4, 0, 4, 4, 0, 4, 0, 0),
	"square-open": P2(0, 0, 4, 0, 4, 4, 0, 4),
	"square-cw":   P2(0, 0, 0, 4, 4, 4, 4, 0, 0, 0),
	"L":           P2(0, 0, 4, 0, 4, 2, 2, 2, 2, 4, 0, 4, 0, 0),
	"U":           P2(0, 0, 4, 0, 4, 4, 3, 4, 3, 1, 1, 1, 1, 4, 0, 4, 0, 0),
	"notch-seam":  P2(2, 2, 4, 0, 4, 4, 0, 4, 0, 0, 2, 2),
	"bowtie":      P2(0, 0, 4, 4, 4, 0, 0, 4, 0, 0),
}

var curatedNames = []string{"square", "square-open", "square-cw", "L", "U", "notch-seam", "bowtie"}

func runC01(r *rt.Run) {
	depthRing, depthLine := 5, 4
	if r.Thorough() {
		depthRing, depthLine = 6, 5
	}
	L4 := lat.Lattice(4, -1)
	H4 := lat.Half(4, -1)
	fH4 := ident.pts(H4)
	r.Rule = "construction tree of vertex sequences over a 4x4 lattice (nothing filtered) realised as polygon exteriors (as given and with repeated closing vertex), as hole rings inside curated exteriors, and as line strings; all rectangles; x every half-step probe point (vertices, edge points, points level with vertices, interior, exterior) x 4 index configurations; object level: 13 ways of asking per (object, probe); non-trivial = non-empty shape"
	r.Assume = []string{"coordinates dyadic, magnitude <= 2^20", "reference: crossing parity with half-open rule + exact on-segment test (verif/mc/exact), cross-checked against winding number on simple rings"}
	r.Bounds["ring_depth"] = depthRing
	r.Bounds["line_depth"] = depthLine
	r.Bounds["lattice"] = "4x4 (49 half-step probes); holes 4x4 inside 5x5 exteriors (81 probes)"
	r.Bounds["index_configs"] = []string{"none", "rtree1", "quad1", "default"}

	// (a) rings as exteriors, (c) lines, object level on the shallower tree
	short, pre := lat.Shards2(L4)
	doSeq := func(seq []exact.P, w *rt.Worker) {
		cp := append([]exact.P(nil), seq...)
		w.Trans += int64(len(seq))
		if len(seq) <= depthRing {
			s := &exact.Shape{Kind: exact.KPoly, Ext: cp}
			c01Shape(s, ident, H4, fH4, idxCfgs, w, true)
			if len(seq) >= 1 && seq[len(seq)-1] != seq[0] {
				s2 := &exact.Shape{Kind: exact.KPoly, Ext: lat.Close(cp)}
				c01Shape(s2, ident, H4, fH4, idxCfgs, w, false)
			}
			if len(seq) <= 4 {
				c01Object(s, ident, H4, fH4, idxCfgs[0], w)
				c01Object(s, ident, H4, fH4, idxCfgs[2], w)
			}
			if len(seq) >= 3 && len(seq) <= 4 {
				c01Parsed(&exact.Shape{Kind: exact.KPoly, Ext: lat.Close(cp)}, H4, fH4, w)
			}
		}
		if len(seq) <= depthLine {
			l := &exact.Shape{Kind: exact.KLine, Line: cp}
			c01Shape(l, ident, H4, fH4, idxCfgs, w, true)
			if len(seq) <= 3 {
				c01Object(l, ident, H4, fH4, idxCfgs[0], w)
				c01Object(l, ident, H4, fH4, idxCfgs[1], w)
			}
		}
	}
	w0 := r.Worker()
	for _, q := range short {
		doSeq(q, w0)
	}
	w0.Flush()
	maxd := max(depthRing, depthLine)
	r.ParFor(len(pre), func(i int, w *rt.Worker) {
		lat.SeqsFrom(L4, pre[i], 2, maxd, func(seq []exact.P) { doSeq(seq, w) })
	})

	// (d) rectangles and (e) points
	w0 = r.Worker()
	xs := []int64{-2, 0, 2, 4}
	for _, x0 := range xs {
		for _, x1 := range xs {
			for _, y0 := range xs {
				for _, y1 := range xs {
					if x0 > x1 || y0 > y1 {
						continue
					}
					s := &exact.Shape{Kind: exact.KRect, Min: exact.P{X: x0, Y: y0}, Max: exact.P{X: x1, Y: y1}}
					c01Shape(s, ident, H4, fH4, idxCfgs[:1], w0, true)
					c01Object(s, ident, H4, fH4, idxCfgs[0], w0)
				}
			}
		}
	}
	for _, p := range H4 {
		s := &exact.Shape{Kind: exact.KPoint, Pt: p}
		c01Shape(s, ident, H4, fH4, idxCfgs[:1], w0, true)
		c01Object(s, ident, H4, fH4, idxCfgs[0], w0)
	}
	w0.Flush()

	// (b) polygons with holes: curated exteriors x every hole sequence
	L4in := lat.Lattice(4, 0) // 0..3 inside the 0..4 exteriors: touches left/bottom boundary
	H5 := lat.Half(5, 0)
	fH5 := ident.pts(H5)
	holeDepth := 4
	shortH, preH := lat.Shards2(L4in)
	for _, name := range curatedNames {
		ext := curatedExteriors[name]
		doHole := func(seq []exact.P, w *rt.Worker) {
			w.Trans += int64(len(seq))
			s := &exact.Shape{Kind: exact.KPoly, Ext: ext, Holes: [][]exact.P{append([]exact.P(nil), seq...)}}
			c01Shape(s, ident, H5, fH5, idxCfgs[:3], w, false)
		}
		w0 = r.Worker()
		for _, q := range shortH {
			doHole(q, w0)
		}
		w0.Flush()
		r.ParFor(len(preH), func(i int, w *rt.Worker) {
			lat.SeqsFrom(L4in, preH[i], 2, holeDepth, func(seq []exact.P) { doHole(seq, w) })
		})
	}
	// holes that cross the exterior boundary: a small exterior (1..3)^2 with
	// every hole sequence over the whole 5x5 lattice (probes on exterior
	// edges that are strictly inside the hole occur)
	{
		small := P2(1, 1, 3, 1, 3, 3, 1, 3, 1, 1)
		L5 := lat.Lattice(5, 0)
		hd := 3
		if r.Thorough() {
			hd = 4
		}
		r.Bounds["crossing_hole_depth"] = hd
		_, pre5 := lat.Shards2(L5)
		r.ParFor(len(pre5), func(i int, w *rt.Worker) {
			lat.SeqsFrom(L5, pre5[i], 3, hd, func(seq []exact.P) {
				w.Trans += int64(len(seq))
				s := &exact.Shape{Kind: exact.KPoly, Ext: small, Holes: [][]exact.P{append([]exact.P(nil), seq...)}}
				c01Shape(s, ident, H5, fH5, idxCfgs[:3], w, false)
				c01Object(s, ident, H5, fH5, idxCfgs[0], w)
			})
		})
	}
	// rings with 40-100 vertices (also densified past the default index threshold, and as holes): every integer point of the frame
	{
		var probes []exact.P
		for y := int64(-62); y <= 62; y++ {
			for x := int64(-62); x <= 62; x++ {
				probes = append(probes, exact.P{X: x, Y: y})
			}
		}
		fp := ident.pts(probes)
		shapes := bigRingShapes(nil)
		st, _ := slantPairs()
		shapes = append(shapes, st...)
		r.Bounds["big_rings"] = len(shapes)
		r.ParFor(len(shapes), func(i int, w *rt.Worker) {
			w.Trans += int64(len(shapes[i].E.Skeleton()))
			c01Shape(shapes[i].E, ident, probes, fp, idxCfgs, w, false)
			c01Object(shapes[i].E, ident, probes, fp, idxCfgs[3], w)
			c01Moved(shapes[i].E, probes, fp, idxCfgs[1:], w)
		})
	}
	// zigzags every side of which crosses the horizontal midline of their own
	// rectangle (a quadtree keeps all of them in its root node: the node's item
	// list is exactly 0..n-1), with n either side of the one- and two-byte
	// boundaries, as ring (self-crossing: membership is crossing parity) and as line
	{
		sizes := []int{254, 255, 256, 257, 258, 65536}
		if r.Thorough() {
			sizes = append(sizes, 65534, 65535, 65537, 65538)
		}
		r.Bounds["root_node_zigzag_sides"] = sizes
		r.ParFor(2*len(sizes), func(i int, w *rt.Worker) {
			n := sizes[i/2]
			pos := n // a closed ring of n positions has n sides
			if i%2 == 1 {
				pos = n + 1 // an open line of n+1 positions has n segments
			}
			ps := make([]exact.P, pos)
			for k := range ps {
				y := int64(2 * (1 + k%3))
				if k%2 == 1 {
					y = -y
				}
				ps[k] = exact.P{X: int64(2 * k), Y: y}
			}
			var probes []exact.P
			for _, k := range []int{0, 1, 2, 7, 100, 127, 128, 129, 200, 253, 254, 255, 256, pos / 2, pos - 3, pos - 2, pos - 1} {
				if k < 0 || k >= pos {
					continue
				}
				probes = append(probes, ps[k], exact.P{X: int64(2*k + 1), Y: 0}, exact.P{X: int64(2*k + 1), Y: 1}, exact.P{X: int64(2 * k), Y: 0}, exact.P{X: int64(2*k + 1), Y: -1})
				if k+1 < pos {
					probes = append(probes, exact.P{X: ps[k].X + 1, Y: (ps[k].Y + ps[k+1].Y) / 2}) // midpoint of side k (its ordinate sum is even or the probe is next to it)
				}
			}
			s := &exact.Shape{Kind: exact.KPoly, Ext: ps}
			if i%2 == 1 {
				s = &exact.Shape{Kind: exact.KLine, Line: ps}
			}
			w.Trans += int64(pos)
			c01Shape(s, ident, probes, ident.pts(probes), idxCfgs, w, false)
		})
	}
	// two holes: every triangle over the 3x3 sub-lattice x a second hole from
	// the same set (thorough) / from a fixed list (quick)
	L3in := lat.Lattice(3, 1)
	var tris [][]exact.P
	lat.Seqs(L3in, 3, 3, -1, func(seq []exact.P) { tris = append(tris, append([]exact.P(nil), seq...)) })
	second := [][]exact.P{P2(1, 1, 2, 1, 2, 2, 1, 1), P2(1, 1, 3, 1, 3, 3, 1, 3, 1, 1), P2(2, 2, 3, 2, 3, 3), P2(1, 3, 3, 3, 2, 1, 1, 3), P2(0, 0, 1, 0, 0, 1)}
	if r.Thorough() {
		second = tris
	}
	r.Bounds["two_hole_pairs"] = len(tris) * len(second)
	ext := curatedExteriors["square"]
	r.ParFor(len(tris), func(i int, w *rt.Worker) {
		for _, h2 := range second {
			s := &exact.Shape{Kind: exact.KPoly, Ext: ext, Holes: [][]exact.P{tris[i], h2}}
			w.Trans += 6
			c01Shape(s, ident, H5, fH5, idxCfgs[:1], w, false)
		}
	})

	// holes (and exteriors) given as geometry.Rect values: every lattice
	// rectangle inside each curated exterior as a Rect hole, and every lattice
	// rectangle as a Rect exterior with a triangle hole; at geometry and object level
	{
		w := r.Worker()
		cnt := 0
		for _, name := range curatedNames {
			ext := curatedExteriors[name]
			for x0 := int64(0); x0 <= 4; x0++ {
				for x1 := x0; x1 <= 4; x1++ {
					for y0 := int64(0); y0 <= 4; y0++ {
						for y1 := y0; y1 <= 4; y1++ {
							hole := P2(x0, y0, x1, y0, x1, y1, x0, y1, x0, y0)
							s := &exact.Shape{Kind: exact.KPoly, Ext: ext, Holes: [][]exact.P{hole}}
							g := geometry.NewPoly(ident.pts(ext), nil, idxNone)
							g.Holes = []geometry.Ring{geometry.Rect{Min: ident.pt(hole[0]), Max: ident.pt(hole[2])}}
							obj := geojson.NewPolygon(g)
							cnt++
							w.States++
							for j, p := range H5 {
								want := s.Member(p.R())
								c, i := memberGeom(g, fH5[j])
								oc := obj.Contains(geojson.NewPoint(fH5[j]))
								w.Evals += 3
								if c != want || i != want || oc != want {
									j := j
									w.Fail("member-rect-hole", func() (rt.Case, string, string) {
										return rt.Case{Kind: "member", Op: "recthole", A: descShape(s, ident), B: ptG(fH5[j])}, fmt.Sprint(want), fmt.Sprintf("contains=%v intersects=%v object=%v", c, i, oc)
									})
								}
							}
						}
					}
				}
			}
		}
		r.Bounds["rect_hole_polygons"] = cnt
		w.Flush()
	}
	// scaled / translated copies of the depth-4 ring tree (float exactness at 2^20)
	xfs := []Xf{{Scale: 131072}, {Scale: 0.5, Tx: 1048570, Ty: -1048570}, {Scale: 1.0 / 1024, Tx: 0, Ty: 0}, {Scale: 1.0 / (1 << 30)}, farFineXf, {Scale: 0x1p-301}}
	for _, t := range xfs {
		t := t
		fH := t.pts(H4)
		r.ParFor(len(pre), func(i int, w *rt.Worker) {
			lat.SeqsFrom(L4, pre[i], 3, 4, func(seq []exact.P) {
				s := &exact.Shape{Kind: exact.KPoly, Ext: append([]exact.P(nil), seq...)}
				c01Shape(s, t, H4, fH, idxCfgs[:1], w, false)
			})
		})
	}
	r.Bounds["transforms"] = []string{ident.String(), xfs[0].String(), xfs[1].String(), xfs[2].String(), xfs[3].String(), xfs[4].String(), xfs[5].String()}

	// oracle self-check: parity == winding on simple rings (cheap, every run)
	rings := lat.SimpleRings(lat.Lattice(3, -1), 5)
	for _, rg := range rings {
		sg := exact.Segs(rg, true)
		for _, p := range lat.Half(3, -1) {
			m := exact.SegsMember(sg, p.R())
			if m != exact.On && (m == exact.In) != (exact.Winding(sg, p.R()) != 0) {
				r.HarnessError(fmt.Sprintf("parity and winding disagree on %v %v", rg, p))
			}
		}
	}
	r.Extra["oracle_selfcheck_rings"] = len(rings)
	r.Sample(map[string]any{"polygon_exterior": f2(ident.pts(P2(0, 0, 1, 1, 1, 0, 0, 1))), "probe": [2]float64{0.5, 0.5}, "note": "self-intersecting unclosed ring, probe at the crossing"})
	r.Sample(map[string]any{"exterior": "U", "hole": f2(ident.pts(P2(0, 0, 1, 0, 0, 1))), "probe": [2]float64{0.5, 0.5}, "note": "probe on a hole boundary (belongs to the polygon)"})
}

func evalC01(c *rt.Case) (bool, string, string, error) {
	if c.Kind != "member" {
		return false, "", "", fmt.Errorf("not mine")
	}
	t := xfOf(c.X)
	es, ok1 := exactOf(c.A, t)
	ep, ok2 := exactOf(c.B, t)
	if !ok1 || !ok2 {
		return false, "", "", fmt.Errorf("coordinates outside the exact domain")
	}
	want := es.Member(ep.Pt.R())
	fp := g2(c.B.P)[0]
	cfg := cfgByName(c.Cfg)
	if c.Op == "recthole" {
		if es.Kind != exact.KPoly || len(es.Holes) != 1 || len(es.Holes[0]) < 3 {
			return false, "", "", fmt.Errorf("malformed case")
		}
		g := geometry.NewPoly(t.pts(es.Ext), nil, idxNone)
		g.Holes = []geometry.Ring{geometry.Rect{Min: t.pt(es.Holes[0][0]), Max: t.pt(es.Holes[0][2])}}
		ct, it := memberGeom(g, fp)
		oc := geojson.NewPolygon(g).Contains(geojson.NewPoint(fp))
		return ct != want || it != want || oc != want, fmt.Sprint(want), fmt.Sprintf("contains=%v intersects=%v object=%v", ct, it, oc), nil
	}
	if strings.HasPrefix(c.Op, "moved") {
		var di int
		fmt.Sscanf(c.Op, "moved%d", &di)
		if di < 0 || di >= len(c01MoveDeltas) {
			return false, "", "", fmt.Errorf("bad offset index")
		}
		g, err := buildGeom(c.A, cfg)
		if err != nil {
			return false, "", "", err
		}
		d := c01MoveDeltas[di]
		ct, it := memberGeom(moveGeom(g, d[0], d[1]), geometry.Point{X: fp.X + d[0], Y: fp.Y + d[1]})
		return ct != want || it != want, fmt.Sprint(want), fmt.Sprintf("contains=%v intersects=%v", ct, it), nil
	}
	if c.Op == "geom" {
		g, err := buildGeom(c.A, cfg)
		if err != nil {
			return false, "", "", err
		}
		ct, it := memberGeom(g, fp)
		return ct != want || it != want, fmt.Sprint(want), fmt.Sprintf("contains=%v intersects=%v", ct, it), nil
	}
	var oi int
	var objs []geojson.Object
	if strings.HasPrefix(c.Op, "parsed") {
		if es.Kind != exact.KPoly || len(es.Ext) < 4 || es.Ext[0] != es.Ext[len(es.Ext)-1] {
			return false, "", "", fmt.Errorf("malformed case")
		}
		fmt.Sscanf(c.Op, "parsed%d", &oi)
		objs = parsedAllowRects(es)
	} else {
		fmt.Sscanf(c.Op, "object%d", &oi)
		objs = objectsOf(es, t, cfg)
	}
	if oi >= len(objs) {
		return false, "", "", fmt.Errorf("bad object index")
	}
	got, same := objAnswers(objs[oi], fp)
	return !same || objs[oi].Contains(geojson.NewPoint(fp)) != want, fmt.Sprintf("all = %v", want), got, nil
}
