package main

import (
	"fmt"
	"github.com/tidwall/geojson"
	"sync"

	"github.com/tidwall/geojson/geometry"
	"verif/mc/exact"
	"verif/mc/lat"
	"verif/mc/rt"
)

// Shared machinery of C02 (intersects), C03 (contains/within) and C12
// (invariance): pools of valid shapes built exhaustively from lattice
// alphabets, pair evaluation against the exact reference model.

type shp struct {
	E *exact.Shape
	G geometry.Geometry // library object under the identity transform, index config "none"
	// second realisation under another index configuration
	G2 geometry.Geometry
	// third realisation: built elsewhere under an r-tree index (MinPoints 1)
	// and brought to its place through Move (exact offset)
	G3 geometry.Geometry
	// fourth realisation: the same shape scaled by 2^-300 (an absolute epsilon
	// bites, and so does anything that multiplies two determinants: underflow)
	G4 geometry.Geometry
	// fifth realisation: small and far away (lattice step 2^-12 at about 2^19)
	G5 geometry.Geometry
	// sixth realisation: every position written twice in a row (zero-length
	// segments: the same point set)
	G6  geometry.Geometry
	tag string // curated name, "" for enumerated
}

var tinyXf = Xf{Scale: 0x1p-301} // lattice step 2^-300: products of two determinants underflow, single ones do not

// movedBack builds the shape translated by (-1000, +500) under an r-tree
// index and moves it back: the same point set, obtained as a derived object.
func movedBack(e *exact.Shape) geometry.Geometry {
	if e.Kind == exact.KPoly && len(e.Ext) >= 64 {
		// past the default threshold: default options (quadtree) elsewhere, moved to its place
		return moveGeom(geomOf(e, Xf{Scale: 0.5, Tx: 256, Ty: -128}, nil), -256, 128)
	}
	return moveGeom(geomOf(e, Xf{Scale: 0.5, Tx: -1000, Ty: 500}, idxCfgs[1].Opts), 1000, -500)
}

func mkShp(e *exact.Shape, cfg2 *geometry.IndexOptions) *shp {
	return &shp{E: e, G: geomOf(e, ident, idxNone), G2: geomOf(e, ident, cfg2), G3: movedBack(e), G4: geomOf(e, tinyXf, idxNone), G5: geomOf(e, farFineXf, idxNone), G6: doubled(e)}
}

// doubled: the shape with every position of every ring / line written twice.
func doubled(e *exact.Shape) geometry.Geometry {
	dbl := func(ps []exact.P) []exact.P {
		out := make([]exact.P, 0, 2*len(ps))
		for _, p := range ps {
			out = append(out, p, p)
		}
		return out
	}
	switch e.Kind {
	case exact.KLine:
		return geomOf(&exact.Shape{Kind: exact.KLine, Line: dbl(e.Line)}, ident, idxNone)
	case exact.KPoly:
		d := &exact.Shape{Kind: exact.KPoly, Ext: dbl(e.Ext)}
		for _, h := range e.Holes {
			d.Holes = append(d.Holes, dbl(h))
		}
		return geomOf(d, ident, idxNone)
	}
	return geomOf(e, ident, idxNone)
}

func poolPoints(k, off int) []*shp {
	var out []*shp
	for _, p := range lat.Half(k, off) {
		out = append(out, mkShp(&exact.Shape{Kind: exact.KPoint, Pt: p}, nil))
	}
	return out
}

func poolRects(k, off int) []*shp {
	var out []*shp
	var cs []int64
	for i := 0; i < k; i++ {
		cs = append(cs, int64(2*(i+off)))
	}
	for _, x0 := range cs {
		for _, x1 := range cs {
			for _, y0 := range cs {
				for _, y1 := range cs {
					if x0 <= x1 && y0 <= y1 {
						out = append(out, mkShp(&exact.Shape{Kind: exact.KRect, Min: exact.P{X: x0, Y: y0}, Max: exact.P{X: x1, Y: y1}}, nil))
					}
				}
			}
		}
	}
	return out
}

func poolLines(k, off, maxLen int, cfg2 *geometry.IndexOptions) []*shp {
	var out []*shp
	lat.Seqs(lat.Lattice(k, off), 2, maxLen, -1, func(seq []exact.P) {
		out = append(out, mkShp(&exact.Shape{Kind: exact.KLine, Line: append([]exact.P(nil), seq...)}, cfg2))
	})
	return out
}

// poolClosedLines: every vertex sequence of 3..maxV positions over the
// lattice with consecutive positions distinct, closed by repeating its first
// position, as a line (a LineString that ends where it started).
func poolClosedLines(k, off, maxV int) []*shp {
	var out []*shp
	lat.Seqs(lat.Lattice(k, off), 3, maxV, -1, func(seq []exact.P) {
		for i := range seq {
			if seq[i] == seq[(i+1)%len(seq)] {
				return
			}
		}
		out = append(out, mkShp(&exact.Shape{Kind: exact.KLine, Line: lat.Close(append([]exact.P(nil), seq...))}, nil))
	})
	return out
}

// poolPolys: every simple ring with 3..maxV vertices over the lattice, given
// closed (closing vertex repeated, as GeoJSON requires).
func poolPolys(k, off, maxV int, cfg2 *geometry.IndexOptions) []*shp {
	rings := lat.SimpleRings(lat.Lattice(k, off), maxV)
	out := make([]*shp, len(rings))
	var wg sync.WaitGroup
	for c := 0; c < 16; c++ {
		wg.Add(1)
		go func(c int) {
			defer wg.Done()
			for i := c; i < len(rings); i += 16 {
				out[i] = mkShp(&exact.Shape{Kind: exact.KPoly, Ext: lat.Close(rings[i])}, cfg2)
			}
		}(c)
	}
	wg.Wait()
	return out
}

// poolHoled: curated exteriors on the 5x5 lattice x every valid single hole
// with <= maxHoleV vertices over the full 5x5 lattice (holes touching the
// exterior or sharing boundary with it are kept and tagged), plus a few
// two-hole polygons.
func poolHoled(allRotations bool, cfg2 *geometry.IndexOptions) []*shp {
	var out []*shp
	// hole alphabet: triangles over the whole 5x5 lattice, quadrilaterals over
	// the inner 3x3; quick keeps one rotation of each (both directions),
	// thorough keeps every rotation.
	holes := lat.SimpleRings(lat.Lattice(5, 0), 3)
	for _, q := range lat.SimpleRings(lat.Lattice(3, 1), 4) {
		if len(q) == 4 {
			holes = append(holes, q)
		}
	}
	if !allRotations {
		var keep [][]exact.P
		for _, h := range holes {
			mi := 0
			for i, p := range h {
				if p.Y < h[mi].Y || (p.Y == h[mi].Y && p.X < h[mi].X) {
					mi = i
				}
			}
			if mi == 0 {
				keep = append(keep, h)
			}
		}
		holes = keep
	}
	for _, name := range []string{"square", "L", "U"} {
		ext := curatedExteriors[name]
		for _, h := range holes {
			hc := lat.Close(h)
			valid, touch, shared := exact.ValidPoly(ext, [][]exact.P{hc})
			if !valid || shared {
				continue
			}
			s := mkShp(&exact.Shape{Kind: exact.KPoly, Ext: ext, Holes: [][]exact.P{hc}}, cfg2)
			s.tag = name
			if touch {
				s.tag += "+touch"
			}
			out = append(out, s)
		}
	}
	two := [][][]exact.P{
		{P2(1, 1, 2, 1, 2, 2, 1, 2, 1, 1), P2(2, 2, 3, 2, 3, 3, 2, 3, 2, 2)}, // touching at a vertex
		{P2(1, 1, 2, 1, 1, 2, 1, 1), P2(3, 3, 2, 3, 3, 2, 3, 3)},
		{P2(1, 1, 3, 1, 3, 2, 1, 2, 1, 1), P2(1, 3, 3, 3, 2, 2, 1, 3)},
	}
	for _, hs := range two {
		if v, _, sh := exact.ValidPoly(curatedExteriors["square"], hs); v && !sh {
			s := mkShp(&exact.Shape{Kind: exact.KPoly, Ext: curatedExteriors["square"], Holes: hs}, cfg2)
			s.tag = "square-2holes"
			out = append(out, s)
		}
	}
	return out
}

// poolHoled2: polygons with two holes (both orders) against polygons with one
// hole, all axis-parallel boxes with integer corners inside a 6x6 square:
// hole-in-hole, hole-over-body and every boundary-contact configuration of
// the polygon-contains-polygon hole rules.
func poolHoled2(cfg2 *geometry.IndexOptions) (as, bs []*shp) {
	box := func(x0, y0, x1, y1 int64) []exact.P {
		return P2(x0, y0, x1, y0, x1, y1, x0, y1, x0, y0)
	}
	type cell struct{ x, y int64 }
	var cells []cell
	for x := int64(1); x <= 4; x++ {
		for y := int64(1); y <= 4; y++ {
			cells = append(cells, cell{x, y})
		}
	}
	ext := box(0, 0, 6, 6)
	for _, c1 := range cells {
		for _, c2 := range cells {
			if abs64i(c1.x-c2.x) < 2 && abs64i(c1.y-c2.y) < 2 {
				continue // same, overlapping or touching cells
			}
			if (c1.x+c1.y+c2.x)%2 != 0 {
				continue // thin the family (every second pair)
			}
			e := &exact.Shape{Kind: exact.KPoly, Ext: ext, Holes: [][]exact.P{box(c1.x, c1.y, c1.x+1, c1.y+1), box(c2.x, c2.y, c2.x+1, c2.y+1)}}
			s := mkShp(e, cfg2)
			s.tag = "two-holes"
			as = append(as, s)
		}
	}
	// three holes, every order of three fixed cells and of a second triple
	for _, tri := range [][3]cell{{{1, 1}, {3, 1}, {1, 3}}, {{1, 4}, {4, 1}, {3, 3}}} {
		for _, perm := range [][3]int{{0, 1, 2}, {0, 2, 1}, {1, 0, 2}, {1, 2, 0}, {2, 0, 1}, {2, 1, 0}} {
			var hs [][]exact.P
			for _, k := range perm {
				c := tri[k]
				hs = append(hs, box(c.x, c.y, c.x+1, c.y+1))
			}
			s := mkShp(&exact.Shape{Kind: exact.KPoly, Ext: ext, Holes: hs}, cfg2)
			s.tag = "three-holes"
			as = append(as, s)
		}
	}
	for x0 := int64(0); x0 <= 6; x0++ {
		for x1 := x0 + 3; x1 <= 6; x1++ {
			for y0 := int64(0); y0 <= 6; y0++ {
				for y1 := y0 + 3; y1 <= 6; y1++ {
					for hx0 := x0 + 1; hx0 < x1-1; hx0++ {
						for hx1 := hx0 + 1; hx1 < x1; hx1++ {
							for hy0 := y0 + 1; hy0 < y1-1; hy0++ {
								for hy1 := hy0 + 1; hy1 < y1; hy1++ {
									if (x0+y0+hx0+hy1)%3 != 0 {
										continue // thin the family
									}
									e := &exact.Shape{Kind: exact.KPoly, Ext: box(x0, y0, x1, y1), Holes: [][]exact.P{box(hx0, hy0, hx1, hy1)}}
									s := mkShp(e, cfg2)
									s.tag = "one-hole"
									bs = append(bs, s)
								}
							}
						}
					}
				}
			}
		}
	}
	return
}

// poolBigInner: inner shapes with >= 16 positions (the containment code has a
// bounding-box shortcut for them) against convex and concave outers whose
// notches, slots and holes reach into the inner shape's box. Coordinates in
// half-units (H2 takes half-unit integers directly).
func poolBigInner(cfg2 *geometry.IndexOptions) (outers, inners []*shp) {
	H2 := func(c ...int64) []exact.P {
		var out []exact.P
		for i := 0; i+1 < len(c); i += 2 {
			out = append(out, exact.P{X: c[i], Y: c[i+1]})
		}
		return out
	}
	// a 16-gon "disc" of radius 3 about (5,5), in lattice units
	disc := [][2]int64{{5, 2}, {6, 2}, {7, 3}, {8, 4}, {8, 5}, {8, 6}, {7, 7}, {6, 8}, {5, 8}, {4, 8}, {3, 7}, {2, 6}, {2, 5}, {2, 4}, {3, 3}, {4, 2}}
	for _, scale := range []int64{2, 1} { // full size, half size (half-unit coordinates)
		for dx := int64(-2); dx <= 2; dx++ {
			for dy := int64(-2); dy <= 2; dy++ {
				var ring []exact.P
				for _, p := range disc {
					ring = append(ring, exact.P{X: p[0]*scale + dx*2, Y: p[1]*scale + dy*2})
				}
				closed := append(append([]exact.P{}, ring...), ring[0])
				a := mkShp(&exact.Shape{Kind: exact.KPoly, Ext: closed}, cfg2)
				a.tag = "disc16"
				inners = append(inners, a)
				l := mkShp(&exact.Shape{Kind: exact.KLine, Line: closed}, idxCfgs[1].Opts)
				l.tag = "loop17"
				inners = append(inners, l)
			}
		}
	}
	// rings on either side of the 16-position shortcut, with and without the
	// repeated closing vertex (the same point set stored in n and n+1
	// positions): the disc with one or two vertices dropped (15, 14 distinct)
	// and with one inserted (17), at every other offset
	variants := map[string][][2]int64{
		"disc15": append(append([][2]int64{}, disc[:12]...), disc[13:]...),
		"disc14": append(append([][2]int64{}, disc[:5]...), append(append([][2]int64{}, disc[6:12]...), disc[13:]...)...),
		"disc17": append(append(append([][2]int64{}, disc[:4]...), [2]int64{8, 4}), disc[4:]...), // placeholder, replaced below
	}
	// 17 distinct: split the edge (8,6)-(7,7) at no lattice point is impossible on integers; use a spike instead
	variants["disc17"] = append(append(append([][2]int64{}, disc[:5]...), [2]int64{9, 5}), disc[5:]...)
	variants["disc17"][4] = [2]int64{8, 5}
	for _, tag := range []string{"disc14", "disc15", "disc17"} {
		v := variants[tag]
		for dx := int64(-2); dx <= 2; dx += 2 {
			for dy := int64(-2); dy <= 2; dy += 2 {
				var ring []exact.P
				for _, p := range v {
					ring = append(ring, exact.P{X: p[0]*2 + dx*2, Y: p[1]*2 + dy*2})
				}
				if !exact.Simple(ring) {
					continue
				}
				closed := append(append([]exact.P{}, ring...), ring[0])
				for ci, e := range [][]exact.P{closed, ring} {
					a := mkShp(&exact.Shape{Kind: exact.KPoly, Ext: e}, cfg2)
					a.tag = tag + []string{"-closed", "-unclosed"}[ci]
					inners = append(inners, a)
				}
			}
		}
	}
	// thin bands of 14 / 16 / 18 positions along the falling diagonal, as ring and as line
	for _, n := range []int{6, 7, 8} {
		var lo, hi []exact.P
		for k := 0; k <= n; k++ {
			lo = append(lo, exact.P{X: int64(2 + 2*k), Y: int64(2*n + 2 - 2*k)})
			hi = append(hi, exact.P{X: int64(3 + 2*k), Y: int64(2*n + 3 - 2*k)})
		}
		ring := append([]exact.P{}, lo...)
		for k := n; k >= 0; k-- {
			ring = append(ring, hi[k])
		}
		a := mkShp(&exact.Shape{Kind: exact.KPoly, Ext: append(ring, ring[0])}, cfg2)
		a.tag = fmt.Sprintf("band%d", len(ring))
		inners = append(inners, a)
		l := mkShp(&exact.Shape{Kind: exact.KLine, Line: append(append([]exact.P{}, lo...), hi[n], hi[n-1])}, idxCfgs[1].Opts)
		l.tag = fmt.Sprintf("bandline%d", n+3)
		inners = append(inners, l)
	}
	// the 16-gon itself without its closing vertex (16 positions instead of 17)
	{
		var ring []exact.P
		for _, p := range disc {
			ring = append(ring, exact.P{X: p[0] * 2, Y: p[1] * 2})
		}
		a := mkShp(&exact.Shape{Kind: exact.KPoly, Ext: ring}, cfg2)
		a.tag = "disc16-unclosed"
		inners = append(inners, a)
	}
	add := func(tag string, ext []exact.P, holes ...[]exact.P) {
		if v, _, sh := exact.ValidPoly(ext, holes); !v || sh {
			return
		}
		for rot := 0; rot < 4; rot++ { // the four axis-aligned orientations about (5,5) (half-units: 10,10)
			r := func(ps []exact.P) []exact.P {
				out := make([]exact.P, len(ps))
				for i, p := range ps {
					x, y := p.X-10, p.Y-10
					for k := 0; k < rot; k++ {
						x, y = -y, x
					}
					out[i] = exact.P{X: x + 10, Y: y + 10}
				}
				return out
			}
			var hs [][]exact.P
			for _, h := range holes {
				hs = append(hs, r(h))
			}
			o := mkShp(&exact.Shape{Kind: exact.KPoly, Ext: r(ext), Holes: hs}, cfg2)
			o.tag = tag
			outers = append(outers, o)
		}
	}
	add("square", H2(0, 0, 20, 0, 20, 20, 0, 20, 0, 0))
	for _, x0 := range []int64{6, 8, 9, 10} {
		for _, w := range []int64{2, 4} {
			for _, d := range []int64{8, 12, 16} {
				// U: slot [x0,x0+w] x [20-d,20] cut from the top
				add("U", H2(0, 0, 20, 0, 20, 20, x0+w, 20, x0+w, 20-d, x0, 20-d, x0, 20, 0, 20, 0, 0))
				// V notch from the top reaching depth d
				add("V", H2(0, 0, 20, 0, 20, 20, x0+w, 20, x0+w/2, 20-d, x0, 20, 0, 20, 0, 0))
			}
		}
	}
	add("L", H2(0, 0, 20, 0, 20, 10, 10, 10, 10, 20, 0, 20, 0, 0))
	// convex outers that are not boxes: a band along the diagonal (it holds two
	// opposite corners of an inner shape's rectangle and not the other two), a
	// triangle, a diamond
	add("diagonal-band", H2(0, 0, 4, 0, 20, 16, 20, 20, 16, 20, 0, 4, 0, 0))
	add("triangle", H2(0, 0, 20, 0, 0, 20, 0, 0))
	add("diamond", H2(10, -2, 22, 10, 10, 22, -2, 10, 10, -2))
	add("hole-inside-disc", H2(0, 0, 20, 0, 20, 20, 0, 20, 0, 0), H2(9, 9, 11, 9, 11, 11, 9, 11, 9, 9))
	add("hole-at-disc-edge", H2(0, 0, 20, 0, 20, 20, 0, 20, 0, 0), H2(15, 9, 18, 9, 18, 11, 15, 11, 15, 9))
	// frames: the inner shape lies in the hole and touches its boundary from inside (or crosses it, for the offsets)
	add("frame-hole-touching-disc", H2(-6, -6, 26, -6, 26, 26, -6, 26, -6, -6), H2(4, 4, 16, 4, 16, 16, 4, 16, 4, 4))
	add("frame-hole-around-disc", H2(-6, -6, 26, -6, 26, 26, -6, 26, -6, -6), H2(2, 2, 18, 2, 18, 18, 2, 18, 2, 2))
	add("frame-hole-spike-reach", H2(-6, -6, 26, -6, 26, 26, -6, 26, -6, -6), H2(4, 4, 18, 4, 18, 16, 4, 16, 4, 4))
	add("hole-outside-disc", H2(0, 0, 24, 0, 24, 24, 0, 24, 0, 0), H2(19, 19, 22, 19, 22, 22, 19, 22, 19, 19))
	return
}

func abs64i(a int64) int64 {
	if a < 0 {
		return -a
	}
	return a
}

func libIntersects(a, b geometry.Geometry) bool {
	switch v := b.(type) {
	case geometry.Point:
		return a.IntersectsPoint(v)
	case geometry.Rect:
		return a.IntersectsRect(v)
	case *geometry.Line:
		return a.IntersectsLine(v)
	case *geometry.Poly:
		return a.IntersectsPoly(v)
	}
	panic("unknown geometry")
}

func libContains(a, b geometry.Geometry) bool {
	switch v := b.(type) {
	case geometry.Point:
		return a.ContainsPoint(v)
	case geometry.Rect:
		return a.ContainsRect(v)
	case *geometry.Line:
		return a.ContainsLine(v)
	case *geometry.Poly:
		return a.ContainsPoly(v)
	}
	panic("unknown geometry")
}

func bbox(s *exact.Shape) (mn, mx exact.P) {
	first := true
	add := func(p exact.P) {
		if first {
			mn, mx, first = p, p, false
			return
		}
		mn.X, mn.Y = min(mn.X, p.X), min(mn.Y, p.Y)
		mx.X, mx.Y = max(mx.X, p.X), max(mx.Y, p.Y)
	}
	switch s.Kind {
	case exact.KPoint:
		add(s.Pt)
	case exact.KLine:
		for _, p := range s.Line {
			add(p)
		}
	case exact.KRect:
		add(s.Min)
		add(s.Max)
	default:
		for _, p := range s.Ext {
			add(p)
		}
	}
	return
}

func boxesMeet(a, b *exact.Shape) bool {
	an, ax := bbox(a)
	bn, bx := bbox(b)
	return an.X <= bx.X && bn.X <= ax.X && an.Y <= bx.Y && bn.Y <= ax.Y
}
func boxCovers(a, b *exact.Shape) bool {
	an, ax := bbox(a)
	bn, bx := bbox(b)
	return an.X <= bn.X && bx.X <= ax.X && an.Y <= bn.Y && bx.Y <= ax.Y
}

type curPair struct {
	op   string
	a, b *exact.Shape
}

func describePair(cur any) (rt.Case, bool) {
	c, ok := cur.(*curPair)
	if !ok || c.a == nil || c.b == nil {
		return rt.Case{}, false
	}
	return rt.Case{Kind: "pair", Op: c.op, A: descShape(c.a, ident), B: descShape(c.b, ident)}, true
}

func pairCase(op string, a, b *exact.Shape, t Xf, cfg string) rt.Case {
	return rt.Case{Kind: "pair", Op: op, A: descShape(a, t), B: descShape(b, t), Cfg: cfg, X: t.x()}
}

// convexTag gives a coarse, oracle-side description of a failing
// containment for the regen summaries (not used for matching).
func containClass(a, b *exact.Shape, want bool) string {
	dir := "false-negative"
	if !want {
		dir = "false-positive"
	}
	extra := ""
	if a.Kind == exact.KPoly {
		if exact.Convex(a.Ext) {
			extra = "-convexA"
		} else {
			extra = "-concaveA"
		}
		if len(a.Holes) > 0 {
			extra += "-holes"
		}
	}
	return fmt.Sprintf("contains-%s-%s-%s%s", a.Kind, b.Kind, dir, extra)
}

// evalPair is the replay evaluator for kind "pair".
func evalPair(c *rt.Case) (bool, string, string, error) {
	if c.Kind != "pair" || c.X["move"] != "" {
		return false, "", "", fmt.Errorf("not mine")
	}
	t := xfOf(c.X)
	ea, ok1 := exactOf(c.A, t)
	eb, ok2 := exactOf(c.B, t)
	if !ok1 || !ok2 {
		return false, "", "", fmt.Errorf("coordinates outside the exact domain")
	}
	var ca, cb *geometry.IndexOptions = idxNone, idxNone
	if c.Cfg == "alt" {
		ca, cb = idxCfgs[2].Opts, idxCfgs[1].Opts
	}
	ga, err := buildGeom(c.A, ca)
	if err != nil {
		return false, "", "", err
	}
	gb, err := buildGeom(c.B, cb)
	if err != nil {
		return false, "", "", err
	}
	if c.Cfg == "far-fine" {
		ga, gb = geomOf(ea, farFineXf, idxNone), geomOf(eb, farFineXf, idxNone)
	}
	if c.Cfg == "tiny" {
		ga, gb = geomOf(ea, tinyXf, idxNone), geomOf(eb, tinyXf, idxNone)
	}
	if c.Cfg == "doubled" {
		if !t.isIdent() {
			return false, "", "", fmt.Errorf("doubled realisation is defined for the identity transform")
		}
		ga, gb = doubled(ea), doubled(eb)
		// replay: the three combinations the check asks
		switch c.Op {
		case "intersects":
			want := exact.Intersects(ea, eb)
			g1, g2, g3 := libIntersects(ga, gb), libIntersects(gb, ga), libIntersects(ga, geomOf(eb, ident, idxNone))
			return g1 != want || g2 != want || g3 != want, fmt.Sprint(want), fmt.Sprintf("%v / %v / %v", g1, g2, g3), nil
		case "contains":
			want := exact.Contains(ea, eb)
			g1, g2, g3 := libContains(ga, gb), libContains(ga, geomOf(eb, ident, idxNone)), libContains(geomOf(ea, ident, idxNone), gb)
			return g1 != want || g2 != want || g3 != want, fmt.Sprint(want), fmt.Sprintf("%v / %v / %v", g1, g2, g3), nil
		}
	}
	if c.Cfg == "moved" {
		if !t.isIdent() {
			return false, "", "", fmt.Errorf("moved realisation is defined for the identity transform")
		}
		ga, gb = movedBack(ea), movedBack(eb)
	}
	switch c.Op {
	case "intersects":
		want := exact.Intersects(ea, eb)
		got := libIntersects(ga, gb)
		return got != want, fmt.Sprint(want), fmt.Sprint(got), nil
	case "contains":
		want := exact.Contains(ea, eb)
		got := libContains(ga, gb)
		return got != want, fmt.Sprint(want), fmt.Sprint(got), nil
	case "intersects-symmetry":
		g1, g2 := libIntersects(ga, gb), libIntersects(gb, ga)
		return g1 != g2, "A.intersects(B) == B.intersects(A)", fmt.Sprintf("%v vs %v", g1, g2), nil
	}
	return false, "", "", fmt.Errorf("unknown op %q", c.Op)
}

// pools for a tier
type pools struct {
	points, rects, lines, polys, holed []*shp
	// partners of the holed polygons
	hPoints, hRects, hLines, hPolys []*shp
	// two-hole polygons x one-hole polygons
	holed2A, holed2B []*shp
	// >= 16-position inner shapes x outers with notches / slots / holes
	bigOuter, bigInner []*shp
	// rings with 40-100 vertices (and densified to >= 64 positions, and as holes) x coarse-grid partners
	bigRing, bigPartner []*shp
	// triangles with long slanted edges x shapes touching the hypotenuse at lattice points
	slantTri  []*shp
	slantPair [][2]*shp
	desc      map[string]any
}

func altCfg(i int) *geometry.IndexOptions {
	// alternate realisation: quadtree for A-side pools, r-tree for B-side
	if i%2 == 0 {
		return idxCfgs[2].Opts
	}
	return idxCfgs[1].Opts
}

func buildPools(thorough bool) *pools {
	p := &pools{desc: map[string]any{}}
	p.points = poolPoints(4, -1)
	p.rects = poolRects(4, -1)
	p.lines = poolLines(4, -1, 3, idxCfgs[1].Opts)
	if thorough {
		p.polys = poolPolys(4, -1, 4, idxCfgs[2].Opts)
	} else {
		p.polys = poolPolys(3, -1, 5, idxCfgs[2].Opts)
	}
	p.holed = poolHoled(thorough, idxCfgs[2].Opts)
	p.hPoints = poolPoints(5, 0)
	p.hRects = poolRects(5, 0)
	p.hLines = poolLines(5, 0, 2, idxCfgs[1].Opts)
	p.hLines = append(p.hLines, poolLines(3, 1, 3, idxCfgs[1].Opts)...)
	p.hPolys = poolPolys(3, 1, 4, idxCfgs[2].Opts)
	p.hPolys = append(p.hPolys, poolPolys(3, 0, 4, idxCfgs[2].Opts)...)
	p.holed2A, p.holed2B = poolHoled2(idxCfgs[2].Opts)
	p.bigOuter, p.bigInner = poolBigInner(idxCfgs[2].Opts)
	p.bigRing, p.bigPartner = bigRingShapes(idxCfgs[2].Opts), bigRingPartners()
	p.slantTri, p.slantPair = slantPairs()
	p.desc["slanted_triangle_pairs"] = len(p.slantPair)
	p.desc["rings_with_40_to_100_vertices"] = len(p.bigRing)
	p.desc["big_ring_partners"] = len(p.bigPartner)
	p.desc["outers_for_16_position_inners"] = len(p.bigOuter)
	p.desc["inners_with_16_positions"] = len(p.bigInner)
	p.desc["two_hole_polys"] = len(p.holed2A)
	p.desc["one_hole_partner_polys"] = len(p.holed2B)
	p.desc["points"] = len(p.points)
	p.desc["rects"] = len(p.rects)
	p.desc["lines"] = len(p.lines)
	p.desc["polys"] = len(p.polys)
	p.desc["holed_polys"] = len(p.holed)
	p.desc["holed_partners"] = len(p.hPoints) + len(p.hRects) + len(p.hLines) + len(p.hPolys)
	return p
}

// forPairs enumerates every unordered combination of pools (both operand
// orders are evaluated by fn's caller) sharded over the first pool.
func forPairs(r *rt.Run, as, bs []*shp, same bool, fn func(a, b *shp, w *rt.Worker)) {
	r.ParFor(len(as), func(i int, w *rt.Worker) {
		a := as[i]
		for j, b := range bs {
			if same && j < i {
				continue
			}
			fn(a, b, w)
		}
	})
}

// allPairs runs fn on every kind combination of the tier's pools.
func allPairs(r *rt.Run, p *pools, fn func(a, b *shp, w *rt.Worker)) {
	for _, pl := range [][]*shp{p.points, p.rects, p.lines, p.polys, p.holed, p.holed2A, p.holed2B, p.bigOuter, p.bigInner, p.bigRing, p.bigPartner} {
		r.States.Add(int64(2 * len(pl)))
		for _, s := range pl {
			r.Trans.Add(int64(len(s.E.Skeleton())))
		}
	}
	forPairs(r, p.points, p.points, true, fn)
	forPairs(r, p.rects, p.points, false, fn)
	forPairs(r, p.rects, p.rects, true, fn)
	forPairs(r, p.lines, p.points, false, fn)
	forPairs(r, p.lines, p.rects, false, fn)
	forPairs(r, p.lines, p.lines, true, fn)
	forPairs(r, p.polys, p.points, false, fn)
	forPairs(r, p.polys, p.rects, false, fn)
	forPairs(r, p.polys, p.lines, false, fn)
	forPairs(r, p.polys, p.polys, true, fn)
	forPairs(r, p.holed, p.hPoints, false, fn)
	forPairs(r, p.holed, p.hRects, false, fn)
	forPairs(r, p.holed, p.hLines, false, fn)
	forPairs(r, p.holed, p.hPolys, false, fn)
	forPairs(r, p.holed2A, p.holed2B, false, fn)
	forPairs(r, p.holed2A, p.holed2A, true, fn)
	forPairs(r, p.bigOuter, p.bigInner, false, fn)
	forPairs(r, p.bigInner, p.bigInner, true, fn)
	forPairs(r, p.bigRing, p.bigPartner, false, fn)
	forPairs(r, p.bigRing, p.bigInner, false, fn)
	forPairs(r, p.bigRing, p.bigRing, true, fn)
	r.ParFor(len(p.slantPair), func(i int, w *rt.Worker) { fn(p.slantPair[i][0], p.slantPair[i][1], w) })
}

// sharedRings: two polygons that share one Ring object (the plug of a hole is
// built around the very ring value the other polygon uses as its hole; a copy
// of a polygon without its holes re-uses its exterior ring value): answers
// must be those of polygons built separately from the same positions.
func sharedRings(r *rt.Run, p *pools, class string) {
	pool := append(append([]*shp{}, p.holed...), p.holed2A...)
	r.ParFor(len(pool), func(i int, w *rt.Worker) {
		a := pool[i]
		for ci, ga := range []*geometry.Poly{a.G.(*geometry.Poly), a.G2.(*geometry.Poly)} {
			var rings []geometry.Ring
			var pts [][]exact.P
			for hi, h := range ga.Holes {
				rings = append(rings, h)
				pts = append(pts, a.E.Holes[hi])
			}
			rings = append(rings, ga.Exterior)
			pts = append(pts, a.E.Ext)
			for ri, ring := range rings {
				shared := &geometry.Poly{Exterior: ring}
				fresh := geometry.NewPoly(ident.pts(pts[ri]), nil, idxNone)
				got := [4]bool{ga.IntersectsPoly(shared), shared.IntersectsPoly(ga), ga.ContainsPoly(shared), shared.ContainsPoly(ga)}
				want := [4]bool{ga.IntersectsPoly(fresh), fresh.IntersectsPoly(ga), ga.ContainsPoly(fresh), fresh.ContainsPoly(ga)}
				w.Evals += 8
				w.States++
				w.Nontriv++
				if got != want {
					ci, ri := ci, ri
					w.Fail(class, func() (rt.Case, string, string) {
						return rt.Case{Kind: "shared-ring", Op: fmt.Sprintf("%d/%d", ci, ri), A: descShape(a.E, ident)}, fmt.Sprintf("as with a separately built ring: %v", want), fmt.Sprint(got)
					})
				}
			}
		}
	})
}

func evalSharedRing(c *rt.Case) (bool, string, string, error) {
	ea, ok := exactOf(c.A, ident)
	if !ok || ea.Kind != exact.KPoly {
		return false, "", "", fmt.Errorf("coordinates outside the exact domain")
	}
	var ci, ri int
	fmt.Sscanf(c.Op, "%d/%d", &ci, &ri)
	cfg := idxNone
	if ci == 1 {
		cfg = idxCfgs[2].Opts
	}
	ga := geomOf(ea, ident, cfg).(*geometry.Poly)
	var ring geometry.Ring
	var pts []exact.P
	switch {
	case ri < len(ga.Holes):
		ring, pts = ga.Holes[ri], ea.Holes[ri]
	case ri == len(ga.Holes):
		ring, pts = ga.Exterior, ea.Ext
	default:
		return false, "", "", fmt.Errorf("malformed case")
	}
	shared := &geometry.Poly{Exterior: ring}
	fresh := geometry.NewPoly(ident.pts(pts), nil, idxNone)
	got := [4]bool{ga.IntersectsPoly(shared), shared.IntersectsPoly(ga), ga.ContainsPoly(shared), shared.ContainsPoly(ga)}
	want := [4]bool{ga.IntersectsPoly(fresh), fresh.IntersectsPoly(ga), ga.ContainsPoly(fresh), fresh.ContainsPoly(ga)}
	return got != want, fmt.Sprint(want), fmt.Sprint(got), nil
}

// retracedLines: a staircase that comes back over one of its own steps
// (positions (0,0),(1,0),(1,1),...,(k,k),(-k,k),(-k,1),(2,1): the last leg
// lies on the step (1,1)-(2,1) again), under each index configuration, and
// every sub-path of 2 and 3 consecutive positions of it, forwards and
// backwards: each lies on the line, so Contains must be true.
func retracedLines(r *rt.Run) {
	type job struct{ k, ci int }
	var jobs []job
	for _, k := range []int{3, 5, 9, 17, 35} {
		for ci := range idxCfgs {
			jobs = append(jobs, job{k, ci})
		}
	}
	r.ParFor(len(jobs), func(i int, w *rt.Worker) {
		jb := jobs[i]
		pts := retracedStair(jb.k)
		A := geometry.NewLine(pts, idxCfgs[jb.ci].Opts)
		w.States++
		for s := 0; s+1 < len(pts); s++ {
			for n := 2; n <= 3 && s+n <= len(pts); n++ {
				for rev := 0; rev < 2; rev++ {
					sub := append([]geometry.Point(nil), pts[s:s+n]...)
					if rev == 1 {
						for a, b := 0, len(sub)-1; a < b; a, b = a+1, b-1 {
							sub[a], sub[b] = sub[b], sub[a]
						}
					}
					B := geometry.NewLine(sub, idxNone)
					w.Evals++
					w.Nontriv++
					if !A.ContainsLine(B) {
						s, n, rev := s, n, rev
						w.Fail("contains-line-line-false-negative-retraced", func() (rt.Case, string, string) {
							return rt.Case{Kind: "retraced", Op: "contains", Cfg: idxCfgs[jb.ci].Name, Nums: []float64{float64(jb.k), float64(s), float64(n), float64(rev)}}, "true (a sub-path of the line)", "false"
						})
					}
				}
			}
		}
	})
}

func retracedStair(k int) []geometry.Point {
	var pts []geometry.Point
	for i := 0; i <= k; i++ {
		pts = append(pts, geometry.Point{X: float64(i), Y: float64(i)})
		if i < k {
			pts = append(pts, geometry.Point{X: float64(i + 1), Y: float64(i)})
		}
	}
	return append(pts, geometry.Point{X: float64(-k), Y: float64(k)}, geometry.Point{X: float64(-k), Y: 1}, geometry.Point{X: 2, Y: 1})
}

func evalRetraced(c *rt.Case) (bool, string, string, error) {
	if len(c.Nums) < 4 {
		return false, "", "", fmt.Errorf("malformed case")
	}
	k, s, n, rev := int(c.Nums[0]), int(c.Nums[1]), int(c.Nums[2]), int(c.Nums[3])
	pts := retracedStair(k)
	if k < 1 || k > 1000 || s < 0 || n < 2 || s+n > len(pts) {
		return false, "", "", fmt.Errorf("malformed case")
	}
	sub := append([]geometry.Point(nil), pts[s:s+n]...)
	if rev == 1 {
		for a, b := 0, len(sub)-1; a < b; a, b = a+1, b-1 {
			sub[a], sub[b] = sub[b], sub[a]
		}
	}
	got := geometry.NewLine(pts, cfgByName(c.Cfg)).ContainsLine(geometry.NewLine(sub, idxNone))
	return !got, "true", fmt.Sprint(got), nil
}

// bboxObjects: shapes read from documents that carry third ordinates and a
// "bbox" member (six-number 3D form / too small / elsewhere), asked at object
// level: Contains, Within and Intersects must be what the geometry level
// answers for the same coordinates (the bbox is a foreign member).
func bboxObjects(r *rt.Run, p *pools, class string) {
	var as []*shp
	for i := 0; i < len(p.polys); i += 5 {
		as = append(as, p.polys[i])
	}
	for i := 0; i < len(p.lines); i += 17 {
		as = append(as, p.lines[i])
	}
	var bs []*shp
	bs = append(bs, p.points...)
	for i := 0; i < len(p.rects); i += 3 {
		bs = append(bs, p.rects[i])
	}
	for i := 0; i < len(p.lines); i += 13 {
		bs = append(bs, p.lines[i])
	}
	for i := 0; i < len(p.polys); i += 11 {
		bs = append(bs, p.polys[i])
	}
	obs := make([]geojson.Object, len(bs))
	for i, b := range bs {
		obs[i] = objectsOf(b.E, ident, idxNone)[0]
	}
	r.ParFor(len(as), func(i int, w *rt.Worker) {
		a := as[i]
		objs := objectsOf(a.E, ident, idxNone)
		if len(objs) <= 3 {
			return // not expressible as a document (open ring)
		}
		for oi, oa := range objs[3:] {
			w.States++
			for bi, b := range bs {
				ob := obs[bi]
				wantC, wantI := libContains(a.G, b.G), libIntersects(a.G, b.G)
				gotC, gotW, gotI, gotI2 := oa.Contains(ob), ob.Within(oa), oa.Intersects(ob), ob.Intersects(oa)
				w.Evals += 4
				w.Nontriv++
				if gotC != wantC || gotW != wantC || gotI != wantI || gotI2 != wantI {
					oi, b := oi, b
					w.Fail(class, func() (rt.Case, string, string) {
						return rt.Case{Kind: "bbox-object", Op: fmt.Sprint(oi + 3), A: descShape(a.E, ident), B: descShape(b.E, ident)}, fmt.Sprintf("contains=%v intersects=%v (geometry level)", wantC, wantI), fmt.Sprintf("contains=%v within=%v intersects=%v/%v", gotC, gotW, gotI, gotI2)
					})
				}
			}
		}
	})
}

func evalBBoxObject(c *rt.Case) (bool, string, string, error) {
	ea, ok1 := exactOf(c.A, ident)
	eb, ok2 := exactOf(c.B, ident)
	if !ok1 || !ok2 {
		return false, "", "", fmt.Errorf("coordinates outside the exact domain")
	}
	var oi int
	fmt.Sscan(c.Op, &oi)
	objs := objectsOf(ea, ident, idxNone)
	if oi < 3 || oi >= len(objs) {
		return false, "", "", fmt.Errorf("malformed case")
	}
	oa, ob := objs[oi], objectsOf(eb, ident, idxNone)[0]
	ga, gb := geomOf(ea, ident, idxNone), geomOf(eb, ident, idxNone)
	wantC, wantI := libContains(ga, gb), libIntersects(ga, gb)
	gotC, gotW, gotI, gotI2 := oa.Contains(ob), ob.Within(oa), oa.Intersects(ob), ob.Intersects(oa)
	return gotC != wantC || gotW != wantC || gotI != wantI || gotI2 != wantI, fmt.Sprintf("contains=%v intersects=%v", wantC, wantI), fmt.Sprintf("contains=%v within=%v intersects=%v/%v", gotC, gotW, gotI, gotI2), nil
}
