package main

import (
	"encoding/binary"
	"fmt"
	"math"
	"sort"
	"strings"

	"github.com/tidwall/geojson/geometry"
	"verif/mc/exact"
	"verif/mc/lat"
	"verif/mc/rt"
)

// C04 — compressed segment indexes are exact accelerators.
//
// State space = insert histories: (a) every short point sequence, (b) layout
// families x sizes that cross every structural threshold (R-tree node split
// at 17, quadtree split at 33, depth-16 overflow buckets, 1/2/4-byte item
// encodings), each with <= 1 (thorough <= 2) displaced points; probes = a
// grid of query rectangles (infinite bounds included) x every stop position.

func init() { register("C04", runC04, evalC04) }

type idxKind struct {
	name string
	kind geometry.IndexKind
}

var idxKinds = []idxKind{{"rtree", geometry.RTree}, {"quadtree", geometry.QuadTree}}

func mkSeries(pts []geometry.Point, closed bool, opts *geometry.IndexOptions) geometry.Series {
	if closed {
		return newPolyScribbled(pts, nil, opts).Exterior
	}
	return newLineScribbled(pts, opts)
}

type hit struct {
	idx int
	seg geometry.Segment
}

// searchAll runs one search, stopping (returning false) at the stop-th
// callback (stop <= 0: never). It returns the hits and the number of calls.
func searchAll(s geometry.Series, q geometry.Rect, stop int, buf []hit) ([]hit, int) {
	buf = buf[:0]
	calls := 0
	s.Search(q, func(seg geometry.Segment, idx int) bool {
		calls++
		buf = append(buf, hit{idx, seg})
		return calls != stop
	})
	return buf, calls
}

// bruteHits: indexes of segments whose bounding box meets q, by definition.
func bruteHits(rects []geometry.Rect, q geometry.Rect, buf []int) []int {
	buf = buf[:0]
	for i, r := range rects {
		if !(r.Min.X > q.Max.X || r.Max.X < q.Min.X || r.Min.Y > q.Max.Y || r.Max.Y < q.Min.Y) {
			buf = append(buf, i)
		}
	}
	return buf
}

type c04ctx struct {
	hits  []hit
	brute []int
	seen  []bool
}

// checkSearch compares one (series, query) under one index with the
// definition; stops lists the early-stop positions to try (nil = all).
// Returns a description of the first discrepancy.
func checkSearch(ctx *c04ctx, s geometry.Series, segs []geometry.Segment, rects []geometry.Rect, q geometry.Rect, stopMode int, w *rt.Worker) (string, string, string) {
	ctx.brute = bruteHits(rects, q, ctx.brute)
	want := len(ctx.brute)
	var calls int
	ctx.hits, calls = searchAll(s, q, 0, ctx.hits)
	w.Evals++
	if calls != want {
		return "hit-count", fmt.Sprint(want), fmt.Sprint(calls)
	}
	if cap(ctx.seen) < len(segs) {
		ctx.seen = make([]bool, len(segs))
	}
	seen := ctx.seen[:len(segs)]
	for _, i := range ctx.brute {
		seen[i] = false
	}
	for _, h := range ctx.hits {
		if h.idx < 0 || h.idx >= len(segs) {
			return "bad-index", "index in range", fmt.Sprint(h.idx)
		}
		if h.seg != segs[h.idx] {
			return "wrong-segment", fmt.Sprint(segs[h.idx]), fmt.Sprint(h.seg)
		}
		r := rects[h.idx]
		if r.Min.X > q.Max.X || r.Max.X < q.Min.X || r.Min.Y > q.Max.Y || r.Max.Y < q.Min.Y {
			return "false-hit", "only segments whose box meets the query", fmt.Sprintf("segment %d", h.idx)
		}
		if seen[h.idx] {
			return "duplicate", "each segment once", fmt.Sprintf("segment %d twice", h.idx)
		}
		seen[h.idx] = true
	}
	for _, h := range ctx.hits {
		seen[h.idx] = false
	}
	// early stop
	var stops []int
	switch {
	case stopMode == 2 || (want <= 4 && stopMode == 1):
		for k := 1; k <= want; k++ {
			stops = append(stops, k)
		}
	case stopMode == 1:
		stops = []int{1, 2, 17, 33, want - 1, want}
	default:
		stops = []int{1, want}
	}
	for _, k := range stops {
		if k < 1 || k > want {
			continue
		}
		_, calls := searchAll(s, q, k, ctx.hits)
		w.Evals++
		if calls != k {
			return "early-stop", fmt.Sprintf("%d callbacks when the %d-th returns false", k, k), fmt.Sprint(calls)
		}
	}
	return "", "", ""
}

func segsOf(s geometry.Series) ([]geometry.Segment, []geometry.Rect) {
	n := s.NumSegments()
	segs := make([]geometry.Segment, n)
	rects := make([]geometry.Rect, n)
	for i := 0; i < n; i++ {
		segs[i] = s.SegmentAt(i)
		rects[i] = segs[i].Rect()
	}
	return segs, rects
}

// axisValues picks query-rectangle coordinates for one axis: -inf, +inf and
// up to m values derived from the data (all distinct values and midpoints if
// few, else quantiles), plus 1-ulp neighbours of the extremes and median.
func axisValues(vals []float64, m int) []float64 {
	v := append([]float64(nil), vals...)
	sort.Float64s(v)
	var d []float64
	for i, x := range v {
		if i == 0 || x != v[i-1] {
			d = append(d, x)
		}
	}
	out := []float64{math.Inf(-1), math.Inf(1)}
	if len(d) == 0 {
		return append(out, 0)
	}
	if len(d) <= m {
		for i, x := range d {
			out = append(out, x)
			if i+1 < len(d) {
				out = append(out, x+(d[i+1]-x)/2)
			}
		}
	} else {
		mid := d[0]/2 + d[len(d)-1]/2
		if m <= 1 {
			// lean grid: extremes, a value near the first quartile, the midline
			out = append(out, d[0], d[len(d)/4], mid, d[len(d)-1])
		} else {
			for i := 0; i < m+1; i++ {
				out = append(out, d[i*(len(d)-1)/m])
			}
			out = append(out, mid, math.Nextafter(mid, math.Inf(1)))
		}
	}
	if m > 1 {
		out = append(out, math.Nextafter(d[0], math.Inf(-1)), math.Nextafter(d[len(d)-1], math.Inf(1)))
	}
	sort.Float64s(out)
	var u []float64
	for i, x := range out {
		if i == 0 || x != out[i-1] {
			u = append(u, x)
		}
	}
	return u
}

func queryRects(pts []geometry.Point, m int) []geometry.Rect {
	xs := make([]float64, len(pts))
	ys := make([]float64, len(pts))
	for i, p := range pts {
		xs[i], ys[i] = p.X, p.Y
	}
	ax, ay := axisValues(xs, m), axisValues(ys, m)
	var out []geometry.Rect
	for i, x0 := range ax {
		for _, x1 := range ax[i:] {
			for j, y0 := range ay {
				for _, y1 := range ay[j:] {
					out = append(out, geometry.Rect{Min: geometry.Point{X: x0, Y: y0}, Max: geometry.Point{X: x1, Y: y1}})
				}
			}
		}
	}
	return out
}

// index byte statistics (coverage measurement only; never a verdict)
type idxStats struct {
	width     [5]int // item widths seen
	maxDepth  int
	overflow  int // quadtree: split nodes that keep items
	rHeight   int
	nodes     int
	undecoded int
}

func (a *idxStats) merge(b idxStats) {
	for i := range a.width {
		a.width[i] += b.width[i]
	}
	a.maxDepth = max(a.maxDepth, b.maxDepth)
	a.overflow += b.overflow
	a.rHeight = max(a.rHeight, b.rHeight)
	a.nodes += b.nodes
	a.undecoded += b.undecoded
}

func decodeIndex(ix interface{}) (st idxStats) {
	data, ok := ix.([]byte)
	if !ok || len(data) < 5 {
		return
	}
	defer func() {
		if recover() != nil {
			st.undecoded++
		}
	}()
	n := int(binary.LittleEndian.Uint32(data[1:]))
	data = data[:n]
	switch data[0] {
	case 1:
		if len(data) == 5 {
			return
		}
		h := int(data[5])
		st.rHeight = h
		var rec func(addr, height int)
		rec = func(addr, height int) {
			st.nodes++
			addr += 32
			count := int(data[addr])
			addr++
			if height == 0 {
				st.width[data[addr]]++
				return
			}
			for i := 0; i < count; i++ {
				rec(int(binary.LittleEndian.Uint32(data[addr:])), height-1)
				addr += 4
			}
		}
		rec(6, h)
	case 2:
		var rec func(addr, depth int)
		rec = func(addr, depth int) {
			st.nodes++
			st.maxDepth = max(st.maxDepth, depth)
			ib := int(data[addr])
			st.width[ib]++
			addr++
			var cnt int
			switch ib {
			case 1:
				cnt = int(data[addr])
			case 2:
				cnt = int(binary.LittleEndian.Uint16(data[addr:]))
			default:
				cnt = int(binary.LittleEndian.Uint32(data[addr:]))
			}
			addr += ib + cnt*ib
			split := data[addr] == 1
			addr++
			if !split {
				return
			}
			if cnt > 0 {
				st.overflow++
			}
			for q := 0; q < 4; q++ {
				use := data[addr] == 1
				addr++
				if use {
					rec(int(binary.LittleEndian.Uint32(data[addr:])), depth+1)
					addr += 4
				}
			}
		}
		rec(5, 0)
	}
	return
}

// ---------------------------------------------------------------------------
// layout families

// bushyCorner: an open line in the box [0,2^17]^2 whose quadtree has a chain of
// split nodes down to depth 16 in one corner (quad `corner` at every level),
// with every sibling quad occupied at every level: 39 (+extra) short segments
// in the depth-16 corner cell (2 x 2, on a 1/4 grid) and one short segment in
// the middle of each of the three siblings at each of the 16 levels.
func bushyCorner(corner, extra int) []geometry.Point {
	const S = 131072.0
	var pts []geometry.Point
	// corner cell [0,2) x [0,2) in "corner coordinates" (u,v): distance from the corner along x / y
	n := 40 + extra
	for i := 0; i < n; i++ {
		u := 0.25 + 0.25*float64(i%6) + 0.0625*float64((i/36)%3)
		v := 0.25 + 0.25*float64((i/6)%6)
		if i%2 == 1 {
			v += 0.125
		}
		pts = append(pts, geometry.Point{X: u, Y: v})
	}
	// siblings, deepest level first: cell size s = 2, 4, ..., S/2
	for s := 2.0; s < S; s *= 2 {
		for _, q := range [][2]float64{{1, 0}, {0, 1}, {1, 1}} {
			cu, cv := q[0]*s+s/2, q[1]*s+s/2
			pts = append(pts, geometry.Point{X: cu, Y: cv}, geometry.Point{X: cu + s/8, Y: cv + s/16})
		}
	}
	// map corner coordinates to the box: quad 0 = left/top, 1 = right/top, 2 = left/bottom, 3 = right/bottom
	for i, p := range pts {
		x, y := p.X, p.Y
		if corner == 1 || corner == 3 {
			x = S - x
		}
		if corner == 0 || corner == 1 {
			y = S - y
		}
		pts[i] = geometry.Point{X: x, Y: y}
	}
	return pts
}

type family struct {
	name string
	gen  func(n int) []geometry.Point
}

var families = []family{
	{"cluster+outlier", func(n int) []geometry.Point {
		out := make([]geometry.Point, n)
		for i := range out {
			out[i] = geometry.Point{X: float64(i%7) * 1e-6, Y: float64(i%5) * 1e-6}
		}
		if n > 0 {
			out[n/2] = geometry.Point{X: 1000, Y: 1000}
		}
		return out
	}},
	{"horizontal", func(n int) []geometry.Point {
		out := make([]geometry.Point, n)
		for i := range out {
			out[i] = geometry.Point{X: float64(i), Y: 3}
		}
		return out
	}},
	{"vertical", func(n int) []geometry.Point {
		out := make([]geometry.Point, n)
		for i := range out {
			out[i] = geometry.Point{X: -2, Y: float64(i) * 0.5}
		}
		return out
	}},
	{"diagonal", func(n int) []geometry.Point {
		out := make([]geometry.Point, n)
		for i := range out {
			out[i] = geometry.Point{X: float64(i), Y: float64(i)}
		}
		return out
	}},
	{"duplicate", func(n int) []geometry.Point {
		out := make([]geometry.Point, n)
		for i := range out {
			out[i] = geometry.Point{X: 5, Y: -5}
		}
		return out
	}},
	{"zigzag", func(n int) []geometry.Point {
		out := make([]geometry.Point, n)
		for i := range out {
			out[i] = geometry.Point{X: float64(i), Y: float64(i%2) * 10}
		}
		return out
	}},
	{"spiral", func(n int) []geometry.Point {
		out := make([]geometry.Point, n)
		x, y, dx, dy, run, left, turns := 0.0, 0.0, 1.0, 0.0, 1, 1, 0
		for i := range out {
			out[i] = geometry.Point{X: x, Y: y}
			x, y = x+dx, y+dy
			left--
			if left == 0 {
				dx, dy = -dy, dx
				turns++
				if turns%2 == 0 {
					run++
				}
				left = run
			}
		}
		return out
	}},
	{"comb", func(n int) []geometry.Point {
		out := make([]geometry.Point, n)
		for i := range out {
			switch i % 4 {
			case 0:
				out[i] = geometry.Point{X: float64(i / 2), Y: 0}
			case 1:
				out[i] = geometry.Point{X: float64(i / 2), Y: 8}
			case 2:
				out[i] = geometry.Point{X: float64(i/2) + 0.5, Y: 8}
			default:
				out[i] = geometry.Point{X: float64(i/2) + 0.5, Y: 0}
			}
		}
		return out
	}},
	{"midlines", func(n int) []geometry.Point {
		// points exactly on the quadrant midlines of a [-64,64]^2 box
		out := make([]geometry.Point, n)
		for i := range out {
			switch i % 6 {
			case 0:
				out[i] = geometry.Point{X: -64, Y: -64}
			case 1:
				out[i] = geometry.Point{X: 0, Y: float64(i%64) - 32}
			case 2:
				out[i] = geometry.Point{X: 64, Y: 64}
			case 3:
				out[i] = geometry.Point{X: float64(i%64) - 32, Y: 0}
			case 4:
				out[i] = geometry.Point{X: 32, Y: 32}
			default:
				out[i] = geometry.Point{X: 0, Y: 0}
			}
		}
		return out
	}},
	{"huge", func(n int) []geometry.Point {
		out := make([]geometry.Point, n)
		for i := range out {
			s := 1.0
			if i%2 == 1 {
				s = -1
			}
			out[i] = geometry.Point{X: s * 1.7e308 * (float64(i%5+1) / 5), Y: -s * 1.7e308 * (float64(i%3+1) / 3)}
		}
		return out
	}},
	{"huge-one-sided", func(n int) []geometry.Point {
		// all coordinates near +1e308: (min+max)/2 overflows, min+(max-min)/2 does not
		out := make([]geometry.Point, n)
		for i := range out {
			out[i] = geometry.Point{X: 1e308 + 1e306*float64(i%48), Y: 1e308 + 1e306*float64((5*i)%48)}
		}
		return out
	}},
	{"mixed-magnitude", func(n int) []geometry.Point {
		// two far outliers at -2^53 and 2^53+2 around a unit-scale cluster:
		// differently rounded midpoint formulas disagree here
		out := make([]geometry.Point, n)
		for i := range out {
			out[i] = geometry.Point{X: 0.1 + 0.02*float64(i%50), Y: 1 + float64((7*i)%60)}
		}
		if n > 0 {
			out[0] = geometry.Point{X: -9007199254740992, Y: 0}
		}
		if n > 1 {
			out[n-1] = geometry.Point{X: 9007199254740994, Y: 64}
		}
		return out
	}},
	{"lcg-scatter", func(n int) []geometry.Point {
		// a fixed irregular layout (linear congruential sequence, no run-time randomness)
		out := make([]geometry.Point, n)
		x := uint64(0x9E3779B97F4A7C15)
		next := func() float64 {
			x = x*6364136223846793005 + 1442695040888963407
			return float64(x>>40) / float64(1<<24)
		}
		for i := range out {
			out[i] = geometry.Point{X: next()*1000 - 500, Y: next()*600 - 300}
		}
		return out
	}},
	{"lcg-mixed-scale", func(n int) []geometry.Point {
		// mostly tiny steps with occasional long jumps: segments of very different sizes,
		// many of them crossing the root midlines of a quadtree
		out := make([]geometry.Point, n)
		x := uint64(12345)
		next := func() float64 {
			x = x*6364136223846793005 + 1442695040888963407
			return float64(x>>40)/float64(1<<24) - 0.5
		}
		px, py := 0.0, 0.0
		for i := range out {
			s := 0.01
			if i%37 == 0 {
				s = 400
			} else if i%5 == 0 {
				s = 3
			}
			px, py = px+next()*s, py+next()*s
			if px > 500 || px < -500 {
				px = -px / 2
			}
			if py > 500 || py < -500 {
				py = -py / 2
			}
			out[i] = geometry.Point{X: px, Y: py}
		}
		return out
	}},
	{"decimal-midline", func(n int) []geometry.Point {
		// decimal (non-dyadic) coordinates for which (min+max)/2 and
		// min+(max-min)/2 differ by an ulp, with vertices bit-exactly on
		// every candidate midline (depth 0..2, both formulas) of the box
		if n < 6 {
			return make([]geometry.Point, n)
		}
		x0, x1, y0, y1 := 12.3, 15.1, 0.2, 1.0
		ys := midlines(y0, y1, 2)
		xs := midlines(x0, x1, 2)
		out := []geometry.Point{{X: x0, Y: y0}, {X: x1, Y: y0}, {X: x1, Y: y1}, {X: x0, Y: y1}}
		for i := 4; i < n; i++ {
			k := i - 4
			y := y1 - (y1-y0)*float64(k+1)/float64(n-3)
			x := x0
			if k%2 == 1 {
				x = x0 + 0.05
			}
			if k < 2*len(ys) { // teeth with tips / roots exactly on the candidate midlines
				y = ys[k/2]
			} else if k < 2*len(ys)+len(xs) {
				x = xs[k-2*len(ys)]
			}
			out = append(out, geometry.Point{X: x, Y: y})
		}
		return out
	}},
	{"grid-walk", func(n int) []geometry.Point {
		out := make([]geometry.Point, n)
		for i := range out {
			r, c := i/97, i%97
			if r%2 == 1 {
				c = 96 - c
			}
			out[i] = geometry.Point{X: float64(c) * 0.25, Y: float64(r) * 0.25}
		}
		return out
	}},
}

var displaceTargets = func() []geometry.Point {
	var out []geometry.Point
	for _, x := range []float64{-1e6, -1, 0.5, 7, 1e6} {
		for _, y := range []float64{-1e6, -1, 0.5, 7, 1e6} {
			out = append(out, geometry.Point{X: x, Y: y})
		}
	}
	return out
}()

// c04Series checks one point sequence under every index kind / threshold.
type c04cur struct{ desc func() rt.Case }

func runC04Describe(cur any) (rt.Case, bool) {
	c, ok := cur.(*c04cur)
	if !ok || c.desc == nil {
		return rt.Case{}, false
	}
	return c.desc(), true
}

func c04Series(r *rt.Run, w *rt.Worker, ctx *c04ctx, pts []geometry.Point, closed bool, queries []geometry.Rect, stopMode int, thresholds bool, desc func() rt.Case, st *idxStats) {
	n := len(pts)
	w.Cur = &c04cur{desc}
	for ki, k := range idxKinds {
		mps := []int{1}
		if thresholds {
			mps = []int{1, n, n + 1}
		}
		for _, mp := range mps {
			if mp < 1 || (mp == n && n <= 1) {
				continue
			}
			s := mkSeries(pts, closed, &geometry.IndexOptions{Kind: k.kind, MinPoints: mp})
			if mp == n || (mp == n+1 && ki > 0) {
				// same structure as MinPoints=1 / same index-free path: only the threshold rule is checked
				if (s.Index() != nil) != (n >= mp) {
					w.Fail("threshold", func() (rt.Case, string, string) {
						c := desc()
						c.Cfg = fmt.Sprintf("%s/min%d", k.name, mp)
						return c, fmt.Sprintf("index built iff %d >= %d", n, mp), fmt.Sprint(s.Index() != nil)
					})
				}
				continue
			}
			w.States++
			w.Trans += int64(s.NumSegments())
			if st != nil && mp == 1 {
				st.merge(decodeIndex(s.Index()))
			}
			indexed := s.Index() != nil
			if indexed != (n >= mp) {
				w.Fail("threshold", func() (rt.Case, string, string) {
					c := desc()
					c.Cfg = fmt.Sprintf("%s/min%d", k.name, mp)
					return c, fmt.Sprintf("index built iff %d >= %d", n, mp), fmt.Sprint(indexed)
				})
			}
			segs, rects := segsOf(s)
			if len(segs) > 0 {
				w.Nontriv++
			}
			for qi, q := range queries {
				what, exp, got := checkSearch(ctx, s, segs, rects, q, stopMode, w)
				if what != "" {
					qi := qi
					w.Fail("search-"+k.name+"-"+what, func() (rt.Case, string, string) {
						c := desc()
						c.Cfg = fmt.Sprintf("%s/min%d", k.name, mp)
						c.B = &rt.G{K: "rect", P: [][2]float64{{queries[qi].Min.X, queries[qi].Min.Y}, {queries[qi].Max.X, queries[qi].Max.Y}}}
						return c, exp, got
					})
					break
				}
			}
		}
	}
}

// midlines returns the candidate split coordinates of a quadtree over
// [lo,hi] down to the given depth, computed with both midpoint formulas.
func midlines(lo, hi float64, depth int) []float64 {
	m1, m2 := (lo+hi)/2, lo+(hi-lo)/2
	out := []float64{m1}
	if m2 != m1 {
		out = append(out, m2)
	}
	if depth > 0 {
		out = append(out, midlines(lo, m1, depth-1)...)
		out = append(out, midlines(m1, hi, depth-1)...)
	}
	return out
}

// midlineQueries: degenerate query rectangles exactly on the candidate split
// lines of the series' bounding box (and the points where they cross).
func midlineQueries(rc geometry.Rect) []geometry.Rect {
	if !(rc.Max.X-rc.Min.X < math.MaxFloat64 && rc.Max.Y-rc.Min.Y < math.MaxFloat64) {
		return nil
	}
	xs, ys := midlines(rc.Min.X, rc.Max.X, 2), midlines(rc.Min.Y, rc.Max.Y, 2)
	inf := math.Inf(1)
	var out []geometry.Rect
	for _, x := range xs {
		out = append(out, geometry.Rect{Min: geometry.Point{X: x, Y: -inf}, Max: geometry.Point{X: x, Y: inf}})
	}
	for _, y := range ys {
		out = append(out, geometry.Rect{Min: geometry.Point{X: -inf, Y: y}, Max: geometry.Point{X: inf, Y: y}})
		for _, x := range xs {
			out = append(out, geometry.Rect{Min: geometry.Point{X: x, Y: y}, Max: geometry.Point{X: x, Y: y}})
		}
	}
	return out
}

func latticeQueries(k, off int, half bool) []geometry.Rect {
	vals := []float64{math.Inf(-1), math.Inf(1)}
	for i := 0; i < k; i++ {
		vals = append(vals, float64(i+off))
		if i+1 < k && half {
			vals = append(vals, float64(i+off)+0.5)
		}
	}
	sort.Float64s(vals)
	var out []geometry.Rect
	for i, x0 := range vals {
		for _, x1 := range vals[i:] {
			for j, y0 := range vals {
				for _, y1 := range vals[j:] {
					out = append(out, geometry.Rect{Min: geometry.Point{X: x0, Y: y0}, Max: geometry.Point{X: x1, Y: y1}})
				}
			}
		}
	}
	return out
}

func seriesCase(pts []geometry.Point, closed bool) rt.Case {
	k := "series"
	if closed {
		k = "ring"
	}
	if len(pts) > 40 {
		return rt.Case{Kind: "index", Op: "search", A: &rt.G{K: k, P: f2(pts[:3])}, X: map[string]string{"n": fmt.Sprint(len(pts)), "note": "truncated; see family"}}
	}
	return rt.Case{Kind: "index", Op: "search", A: &rt.G{K: k, P: f2(pts)}}
}

func runC04(r *rt.Run) {
	r.Rule = "insert histories: every point sequence up to a depth over small lattices; 16 layout families x sizes crossing every structural threshold (plus 12 fixed deep-and-bushy quadtree layouts: a depth-16 chain of split nodes in each corner with every sibling quad occupied at every level) x <=1 (thorough <=2 for n<=66) displaced points at every position x 25 targets; each under {r-tree, quadtree} x MinPoints {1, n, n+1}, open and closed; probes: grid of query rectangles incl. infinite bounds and 1-ulp neighbours x every early-stop position; then predicate answers under every index and after Move by 7 offsets (exact, far beyond the extent, inexact in binary) incl. the moved series' own Search; IndexOptions.Kind values outside the three named ones; non-trivial = series with at least one segment"
	r.Assume = []string{"oracle: brute force over SegmentAt(i).Rect() by definition", "index bytes are decoded only to measure which encodings occurred"}
	var stats idxStats
	r.Describe = runC04Describe

	// (a) all short sequences
	type scope struct{ k, off, depth int }
	scopes := []scope{{3, -1, 4}, {4, -1, 3}}
	if r.Thorough() {
		scopes = []scope{{3, -1, 5}, {4, -1, 4}}
	}
	var sc []string
	for _, s := range scopes {
		sc = append(sc, fmt.Sprintf("len<=%d over %dx%d", s.depth, s.k, s.k))
		L := lat.Lattice(s.k, s.off)
		queries := latticeQueries(s.k, s.off, s.k == 3)
		short, pre := lat.Shards2(L)
		one := func(seq []exact.P, w *rt.Worker, ctx *c04ctx) {
			pts := ident.pts(seq)
			for _, closed := range []bool{false, true} {
				closed := closed
				c04Series(r, w, ctx, pts, closed, queries, 2, true, func() rt.Case { return seriesCase(pts, closed) }, nil)
			}
		}
		w0 := r.Worker()
		ctx0 := &c04ctx{}
		for _, q := range short {
			one(q, w0, ctx0)
		}
		w0.Flush()
		r.ParFor(len(pre), func(i int, w *rt.Worker) {
			ctx := &c04ctx{}
			lat.SeqsFrom(L, pre[i], 2, s.depth, func(seq []exact.P) { one(seq, w, ctx) })
		})
	}
	r.Bounds["sequence_scopes"] = sc

	// (b) families x sizes x deviations
	small := []int{0, 1, 2, 3, 15, 16, 17, 18, 31, 32, 33, 34, 35, 63, 64, 65, 66}
	medium := []int{255, 256, 257, 258, 300, 1025, 4097}
	large := []int{65535, 65536, 65537, 65538, 70001}
	if !r.Thorough() {
		medium = []int{255, 256, 257, 258, 1025}
		large = []int{65536, 65537, 70001}
	}
	r.Bounds["family_sizes"] = append(append(append([]int{}, small...), medium...), large...)
	var fam []string
	for _, f := range families {
		fam = append(fam, f.name)
	}
	r.Bounds["families"] = fam
	type job struct {
		f        family
		n        int
		dev      [][2]int // (position, target) pairs
		stopMode int
		m        int
		thr      bool
	}
	tstep := 3 // quick: 9 of the 25 displacement targets (corners, centre, edge midpoints of the target grid)
	if r.Thorough() {
		tstep = 1
	}
	var jobs []job
	for _, f := range families {
		for _, n := range small {
			jobs = append(jobs, job{f: f, n: n, stopMode: 2, m: 4, thr: true})
			for pos := 0; pos < n; pos++ {
				for t := 0; t < len(displaceTargets); t += tstep {
					jobs = append(jobs, job{f: f, n: n, dev: [][2]int{{pos, t}}, stopMode: 0, m: 1})
				}
			}
			if r.Thorough() && (n == 17 || n == 33) {
				// two displaced points: every pair of positions, 5 target pairs
				for p1 := 0; p1 < n; p1++ {
					for p2 := p1 + 1; p2 < n; p2++ {
						for t := 0; t < len(displaceTargets); t += 6 {
							jobs = append(jobs, job{f: f, n: n, dev: [][2]int{{p1, t}, {p2, (t + 12) % 25}}, stopMode: 0, m: 1})
						}
					}
				}
			}
		}
		for _, n := range medium {
			jobs = append(jobs, job{f: f, n: n, stopMode: 1, m: 4})
			for _, pos := range []int{0, 1, n / 2, n - 2, n - 1} {
				for t := 0; t < len(displaceTargets); t += 4 {
					jobs = append(jobs, job{f: f, n: n, dev: [][2]int{{pos, t}}, stopMode: 0, m: 1})
				}
			}
		}
		for _, n := range large {
			jobs = append(jobs, job{f: f, n: n, stopMode: 1, m: 2})
		}
	}
	// fixed layouts: deep bushy quadtrees (see bushyCorner)
	for corner := 0; corner < 4; corner++ {
		corner := corner
		for _, extra := range []int{0, 40, 300} {
			extra := extra
			f := family{fmt.Sprintf("bushy-corner-q%d+%d", corner, extra), func(int) []geometry.Point { return bushyCorner(corner, extra) }}
			jobs = append(jobs, job{f: f, n: len(bushyCorner(corner, extra)), stopMode: 1, m: 3})
		}
	}
	r.Bounds["family_jobs"] = len(jobs)
	var stMu = make(chan idxStats, len(jobs))
	r.ParFor(len(jobs), func(i int, w *rt.Worker) {
		j := jobs[i]
		pts := j.f.gen(j.n)
		for _, d := range j.dev {
			pts[d[0]] = displaceTargets[d[1]]
		}
		queries := queryRects(pts, j.m)
		if len(j.dev) == 0 && j.n <= 4097 && j.n >= 2 {
			queries = append(queries, midlineQueries(rectOf(pts))...)
		}
		ctx := &c04ctx{}
		var st idxStats
		for _, closed := range []bool{false, true} {
			closed := closed
			c04Series(r, w, ctx, pts, closed, queries, j.stopMode, j.thr, func() rt.Case {
				c := seriesCase(pts, closed)
				if c.X == nil {
					c.X = map[string]string{}
				}
				c.X["family"] = j.f.name
				c.X["n"] = fmt.Sprint(j.n)
				c.X["displaced"] = fmt.Sprint(j.dev)
				return c
			}, &st)
		}
		stMu <- st
	})
	close(stMu)
	for st := range stMu {
		stats.merge(st)
	}
	r.Extra["index_encodings_observed"] = map[string]any{
		"item_width_1byte_nodes": stats.width[1], "item_width_2byte_nodes": stats.width[2], "item_width_4byte_nodes": stats.width[4],
		"quadtree_max_depth": stats.maxDepth, "quadtree_overflow_nodes": stats.overflow, "rtree_max_height": stats.rHeight,
		"index_nodes_decoded": stats.nodes, "undecodable_indexes": stats.undecoded,
	}

	// (c) consequence: predicates identical under every index and after Move
	c04Predicates(r)
	c04UnknownKinds(r)
	r.Sample(map[string]any{"family": "cluster+outlier", "n": 65537, "note": "forces depth-16 overflow buckets and 4-byte items"})
	r.Sample(seriesCase(ident.pts(P2(0, 0, 1, 0, 1, 0, 0, 1)), true))
}

// c04Predicates: rings and lines from the families under {none, rtree,
// quadtree} and after Move answer every probe identically.
func c04Predicates(r *rt.Run) {
	sizes := []int{17, 33, 64, 66, 300}
	if r.Thorough() {
		sizes = []int{17, 33, 34, 64, 66, 257, 300, 1025, 4097}
	}
	type pj struct {
		f family
		n int
	}
	var jobs []pj
	for _, f := range families {
		if f.name == "huge" || f.name == "huge-one-sided" {
			continue // Move would overflow; covered by the search checks
		}
		for _, n := range sizes {
			jobs = append(jobs, pj{f, n})
		}
	}
	r.Bounds["predicate_jobs"] = len(jobs)
	r.ParFor(len(jobs), func(i int, w *rt.Worker) {
		c04PredJob(jobs[i].f, jobs[i].n, w, func(class string, c rt.Case, exp, got string) {
			w.Fail(class, func() (rt.Case, string, string) { return c, exp, got })
		})
	})
}

// c04UnknownKinds: IndexOptions.Kind values outside {None, RTree, QuadTree}
// (the field is an open integer type, ParseOptions.IndexGeometryKind passes
// it through): whatever the library does with them, Search stays exact.
func c04UnknownKinds(r *rt.Run) {
	kinds := []geometry.IndexKind{3, 7, 255}
	var jobs [][]geometry.Point
	for _, f := range families {
		if f.name == "huge" || f.name == "huge-one-sided" {
			continue
		}
		for _, n := range []int{2, 5, 17, 40, 70} {
			jobs = append(jobs, f.gen(n))
		}
	}
	r.Bounds["unknown_index_kind_series"] = len(jobs) * len(kinds) * 2
	r.ParFor(len(jobs), func(i int, w *rt.Worker) {
		pts := jobs[i]
		queries := queryRects(pts, 3)
		ctx := &c04ctx{}
		for _, k := range kinds {
			for _, mp := range []int{1, 64} {
				for _, closed := range []bool{false, true} {
					s := mkSeries(pts, closed, &geometry.IndexOptions{Kind: k, MinPoints: mp})
					segs, rects := segsOf(s)
					w.States++
					for _, q := range queries {
						if what, exp, got := checkSearch(ctx, s, segs, rects, q, 1, w); what != "" {
							k, mp, closed := k, mp, closed
							w.Fail("search-unknown-kind-"+what, func() (rt.Case, string, string) {
								c := seriesCase(pts, closed)
								c.Cfg = fmt.Sprintf("kind%d/min%d", int(k), mp)
								c.B = &rt.G{K: "rect", P: [][2]float64{{q.Min.X, q.Min.Y}, {q.Max.X, q.Max.Y}}}
								return c, exp, got
							})
							break
						}
					}
				}
			}
		}
	})
}

// c04MoveDeltas: exact offsets inside and far beyond the shape's own extent,
// and offsets that are not exact in binary (every coordinate is rounded by
// the addition, so a structure carried over from the source no longer fits).
var c04MoveDeltas = [][2]float64{{8, -16}, {0.5, 0.25}, {1000, 0}, {0, -1000}, {0.1, 0}, {0, 0.3}, {1.0 / 3, -0.001}}

// c04PredJob compares every predicate answer of one family ring/line under
// each index configuration, and after Move, with the index-free answers.
func c04PredJob(f family, n int, w *rt.Worker, emit func(class string, c rt.Case, exp, got string)) {
	type pjT struct {
		f family
		n int
	}
	j := pjT{f, n}
	cfgs := []*geometry.IndexOptions{{Kind: geometry.None}, {Kind: geometry.RTree, MinPoints: 1}, {Kind: geometry.QuadTree, MinPoints: 1}, nil}
	{
		pts := j.f.gen(j.n)
		// probes: data-derived grid points, short lines and boxes
		xs := make([]float64, len(pts))
		ys := make([]float64, len(pts))
		for k, p := range pts {
			xs[k], ys[k] = p.X, p.Y
		}
		ax, ay := axisValues(xs, 3), axisValues(ys, 3)
		var probes []geometry.Point
		for _, x := range ax {
			for _, y := range ay {
				if !math.IsInf(x, 0) && !math.IsInf(y, 0) {
					probes = append(probes, geometry.Point{X: x, Y: y})
				}
			}
		}
		type ans struct {
			pt   []bool
			line []bool
			rect []bool
		}
		// probe pairs: every pair (i<j) of grid probes
		type pr struct{ a, b int }
		var pairs []pr
		for a := range probes {
			for b := a + 1; b < len(probes); b++ {
				pairs = append(pairs, pr{a, b})
			}
		}
		answer := func(poly *geometry.Poly, line *geometry.Line, dx, dy float64) ans {
			var a ans
			for _, p := range probes {
				q := geometry.Point{X: p.X + dx, Y: p.Y + dy}
				a.pt = append(a.pt, poly.ContainsPoint(q), line.ContainsPoint(q))
			}
			for _, pp := range pairs {
				q := geometry.Point{X: probes[pp.a].X + dx, Y: probes[pp.a].Y + dy}
				q2 := geometry.Point{X: probes[pp.b].X + dx, Y: probes[pp.b].Y + dy}
				l := geometry.NewLine([]geometry.Point{q, q2}, idxNone)
				a.line = append(a.line, poly.ContainsLine(l), poly.IntersectsLine(l), line.IntersectsLine(l))
				rc := geometry.Rect{Min: geometry.Point{X: math.Min(q.X, q2.X), Y: math.Min(q.Y, q2.Y)}, Max: geometry.Point{X: math.Max(q.X, q2.X), Y: math.Max(q.Y, q2.Y)}}
				a.rect = append(a.rect, poly.ContainsRect(rc), poly.IntersectsRect(rc), line.IntersectsRect(rc))
			}
			return a
		}
		eq := func(a, b ans) bool {
			return fmt.Sprint(a) == fmt.Sprint(b)
		}
		// diffs lists every differing (predicate, probe) entry
		diffs := func(a, b ans) []string {
			var out []string
			for k := range a.pt {
				if a.pt[k] != b.pt[k] {
					out = append(out, fmt.Sprintf("%s probe=%v", []string{"poly.ContainsPoint", "line.ContainsPoint"}[k%2], probes[k/2]))
				}
			}
			for k := range a.line {
				if a.line[k] != b.line[k] {
					out = append(out, fmt.Sprintf("%s line=%v-%v", []string{"poly.ContainsLine", "poly.IntersectsLine", "line.IntersectsLine"}[k%3], probes[pairs[k/3].a], probes[pairs[k/3].b]))
				}
			}
			for k := range a.rect {
				if a.rect[k] != b.rect[k] {
					out = append(out, fmt.Sprintf("%s rect=%v,%v", []string{"poly.ContainsRect", "poly.IntersectsRect", "line.IntersectsRect"}[k%3], probes[pairs[k/3].a], probes[pairs[k/3].b]))
				}
			}
			return out
		}
		base := answer(geometry.NewPoly(pts, nil, cfgs[0]), geometry.NewLine(pts, cfgs[0]), 0, 0)
		w.States++
		for ci, cfg := range cfgs[1:] {
			poly, line := geometry.NewPoly(pts, nil, cfg), geometry.NewLine(pts, cfg)
			w.States += 2
			w.Nontriv++
			got := answer(poly, line, 0, 0)
			w.Evals += int64(len(got.pt) + len(got.line) + len(got.rect))
			if !eq(got, base) {
				ci := ci
				for _, d := range diffs(got, base) {
					d := d
					emit("predicate-index-dependence", rt.Case{Kind: "index", Op: "predicates", X: map[string]string{"family": j.f.name, "n": fmt.Sprint(j.n), "cfg": fmt.Sprint(ci + 1), "what": d}}, "same answer as without index", "answer differs: "+d)
				}
			}
			// Move by exact offsets: compare with an index-free shape built from moved points
			for _, d := range c04MoveDeltas {
				mp, ml := poly.Move(d[0], d[1]), line.Move(d[0], d[1])
				moved := make([]geometry.Point, len(pts))
				for k, p := range pts {
					moved[k] = geometry.Point{X: p.X + d[0], Y: p.Y + d[1]}
				}
				// exact offsets: reference is the index-free shape; inexact offsets turn
				// degenerate layouts into arbitrary self-touching ones, where answers
				// legitimately listed as order dependent would mix in: there the
				// reference is a fresh shape under the same index configuration
				refCfg := cfgs[0]
				if d[0] != math.Trunc(d[0]*4)/4 || d[1] != math.Trunc(d[1]*4)/4 {
					refCfg = cfg
				}
				fresh := answer(geometry.NewPoly(moved, nil, refCfg), geometry.NewLine(moved, refCfg), d[0], d[1])
				gm := answer(mp, ml, d[0], d[1])
				w.Evals += int64(len(gm.pt) + len(gm.line) + len(gm.rect))
				if !eq(gm, fresh) {
					ci := ci
					for _, df := range diffs(gm, fresh) {
						df := df
						exp := "moved shape answers as an index-free shape built from the moved points"
						if refCfg != cfgs[0] {
							exp = "moved shape answers as a shape built from the moved points under the same index options"
						}
						emit("predicate-move-dependence", rt.Case{Kind: "index", Op: "move-predicates", X: map[string]string{"family": j.f.name, "n": fmt.Sprint(j.n), "cfg": fmt.Sprint(ci + 1), "d": fmt.Sprint(d), "what": df}}, exp, "answer differs: "+df)
					}
				}
				// and the moved series' own search is exact
				ctx := &c04ctx{}
				segs, rects := segsOf(mp.Exterior)
				for _, q := range queryRects(moved, 3) {
					if what, exp, got := checkSearch(ctx, mp.Exterior, segs, rects, q, 0, w); what != "" {
						emit("search-after-move-"+what, rt.Case{Kind: "index", Op: "move-search", X: map[string]string{"family": j.f.name, "n": fmt.Sprint(j.n), "d": fmt.Sprint(d)}}, exp, got)
						break
					}
				}
			}
		}
	}
}

func evalC04(c *rt.Case) (bool, string, string, error) {
	if c.Kind != "index" {
		return false, "", "", fmt.Errorf("not mine")
	}
	if c.Op == "predicates" || c.Op == "move-predicates" || c.Op == "move-search" {
		var n int
		fmt.Sscanf(c.X["n"], "%d", &n)
		for _, f := range families {
			if f.name == c.X["family"] {
				found := false
				cc := *c
				cc.Class = ""
				want := cc.Key()
				var exp, got string
				c04PredJob(f, n, rt.NewRun("replay").Worker(), func(class string, fc rt.Case, e, g string) {
					if fc.Key() == want {
						found, exp, got = true, e, g
					}
				})
				return found, "same answer as the index-free shape", got + exp[:0], nil
			}
		}
		return false, "", "", fmt.Errorf("unknown family")
	}
	if c.Op != "search" || c.B == nil || c.X["note"] != "" {
		return false, "", "", fmt.Errorf("index case without literal input: re-run ./run.sh C04 (family cases are regenerated deterministically)")
	}
	pts := g2(c.A.P)
	var name string
	var mp int
	fmt.Sscanf(c.Cfg, "%s", &name)
	var kind geometry.IndexKind = geometry.RTree
	if strings.HasPrefix(c.Cfg, "kind") {
		var kn int
		fmt.Sscanf(c.Cfg, "kind%d/min%d", &kn, &mp)
		kind = geometry.IndexKind(kn)
	} else if len(c.Cfg) >= 8 && c.Cfg[:8] == "quadtree" {
		kind = geometry.QuadTree
		fmt.Sscanf(c.Cfg, "quadtree/min%d", &mp)
	} else {
		fmt.Sscanf(c.Cfg, "rtree/min%d", &mp)
	}
	s := mkSeries(pts, c.A.K == "ring", &geometry.IndexOptions{Kind: kind, MinPoints: mp})
	segs, rects := segsOf(s)
	q := geometry.Rect{Min: geometry.Point{X: c.B.P[0][0], Y: c.B.P[0][1]}, Max: geometry.Point{X: c.B.P[1][0], Y: c.B.P[1][1]}}
	w := rt.NewRun("replay").Worker()
	what, exp, got := checkSearch(&c04ctx{}, s, segs, rects, q, 2, w)
	return what != "", exp, what + ": " + got, nil
}
