package main

import (
	"fmt"
	"math"

	"github.com/tidwall/geojson/geometry"
	"verif/mc/exact"
	"verif/mc/lat"
	"verif/mc/rt"
)

// C18 — derived ring attributes (convex, clockwise, segment count, i-th
// segment) are exact, independent of start vertex / repeated closing vertex.
//
// State space: the full construction tree of vertex sequences (AddVertex over
// a lattice alphabet) to a depth; every node is realised as a closed ring
// (with and without the repeated closing vertex) and as an open series.

func init() { register("C18", runC18, evalC18) }

type seriesObs struct {
	convex, cw bool
	nseg       int
	segs       []geometry.Segment
	rect       geometry.Rect
}

func observeSeries(s geometry.Series) seriesObs {
	o := seriesObs{convex: s.Convex(), cw: s.Clockwise(), nseg: s.NumSegments(), rect: s.Rect()}
	for i := 0; i < o.nseg; i++ {
		o.segs = append(o.segs, s.SegmentAt(i))
	}
	return o
}

func rectOf(ps []geometry.Point) geometry.Rect {
	r := geometry.Rect{Min: ps[0], Max: ps[0]}
	for _, p := range ps[1:] {
		if p.X < r.Min.X {
			r.Min.X = p.X
		}
		if p.X > r.Max.X {
			r.Max.X = p.X
		}
		if p.Y < r.Min.Y {
			r.Min.Y = p.Y
		}
		if p.Y > r.Max.Y {
			r.Max.Y = p.Y
		}
	}
	return r
}

// checkSeries compares one realised series with the reference model and
// returns "" or the name of the first attribute that differs.
func checkSeries(seq []exact.P, fp []geometry.Point, closed bool, o seriesObs) (string, string, string) {
	return checkSeriesT(seq, fp, closed, o, ident)
}

func checkSeriesT(seq []exact.P, fp []geometry.Point, closed bool, o seriesObs, t Xf) (string, string, string) {
	want := exact.Segs(seq, closed)
	if o.nseg != len(want) {
		return "numsegments", fmt.Sprint(len(want)), fmt.Sprint(o.nseg)
	}
	for i, g := range want {
		ws := geometry.Segment{A: t.pt(g[0]), B: t.pt(g[1])}
		if o.segs[i] != ws {
			return "segmentat", fmt.Sprintf("seg[%d]=%v", i, ws), fmt.Sprintf("seg[%d]=%v", i, o.segs[i])
		}
	}
	empty := len(seq) < 2 || (closed && len(seq) < 3)
	if !empty {
		if wr := rectOf(fp); wr != o.rect {
			return "rect", fmt.Sprint(wr), fmt.Sprint(o.rect)
		}
	}
	if closed && len(seq) >= 3 {
		if wc := exact.Convex(seq); wc != o.convex {
			return "convex", fmt.Sprint(wc), fmt.Sprint(o.convex)
		}
		if wcw := exact.Area2(exact.Cyclic(seq)) < 0; wcw != o.cw {
			return "clockwise", fmt.Sprint(wcw), fmt.Sprint(o.cw)
		}
	}
	return "", "", ""
}

var idxNone = &geometry.IndexOptions{Kind: geometry.None}

func c18One(seq []exact.P, w *rt.Worker) { c18OneT(seq, ident, w) }

func c18OneT(seq []exact.P, t Xf, w *rt.Worker) {
	fp := t.pts(seq)
	// closed, as given
	w.States += 2
	w.Trans += int64(2 * len(seq))
	ring := newPolyScribbled(fp, nil, idxNone).Exterior
	oc := observeSeries(ring)
	w.Evals++
	if what, exp, got := checkSeriesT(seq, fp, true, oc, t); what != "" {
		w.Fail("ring-"+what, func() (rt.Case, string, string) {
			return rt.Case{Kind: "series", Op: what, A: &rt.G{K: "ring", P: f2(fp)}, X: t.x()}, exp, got
		})
	}
	if len(seq) >= 3 {
		if exact.Area2(exact.Cyclic(seq)) != 0 {
			w.Nontriv++
		}
		w.Outcome(fmt.Sprintf("convex=%v cw=%v", oc.convex, oc.cw))
	}
	// open
	line := newLineScribbled(fp, idxNone)
	ol := observeSeries(line)
	w.Evals++
	if what, exp, got := checkSeriesT(seq, fp, false, ol, t); what != "" {
		w.Fail("open-"+what, func() (rt.Case, string, string) {
			return rt.Case{Kind: "series", Op: what, A: &rt.G{K: "series", P: f2(fp)}, X: t.x()}, exp, got
		})
	}
	// closed with the closing vertex repeated
	if len(seq) >= 1 {
		w.States++
		w.Trans++
		cs := append(append(make([]exact.P, 0, len(seq)+1), seq...), seq[0])
		cfp := append(append(make([]geometry.Point, 0, len(fp)+1), fp...), fp[0])
		o2 := observeSeries(newPolyScribbled(cfp, nil, idxNone).Exterior)
		w.Evals++
		if what, exp, got := checkSeriesT(cs, cfp, true, o2, t); what != "" {
			w.Fail("ring-"+what, func() (rt.Case, string, string) {
				return rt.Case{Kind: "series", Op: what, A: &rt.G{K: "ring", P: f2(cfp)}, X: t.x()}, exp, got
			})
		}
		// the closing vertex written with the other sign of zero is still the first vertex
		if fp[0].X == 0 || fp[0].Y == 0 {
			nz := fp[0]
			if nz.X == 0 {
				nz.X = math.Copysign(0, -1)
			}
			if nz.Y == 0 {
				nz.Y = math.Copysign(0, -1)
			}
			zfp := append(append(make([]geometry.Point, 0, len(fp)+1), fp...), nz)
			o4 := observeSeries(newPolyScribbled(zfp, nil, idxNone).Exterior)
			w.States++
			w.Evals++
			if what, exp, got := checkSeriesT(cs, cfp, true, o4, t); what != "" && what != "segmentat" && what != "rect" {
				w.Fail("ring-negzero-closing-"+what, func() (rt.Case, string, string) {
					return rt.Case{Kind: "series", Op: what, A: &rt.G{K: "ring", P: f2(zfp)}, X: t.x()}, exp, got
				})
			}
		}
		// direct: repeating the closing vertex must not change the flags
		if len(seq) >= 3 && seq[len(seq)-1] != seq[0] && (o2.convex != oc.convex || o2.cw != oc.cw) {
			w.Fail("closing-vertex-dependence", func() (rt.Case, string, string) {
				return rt.Case{Kind: "series", Op: "closing-invariance", A: &rt.G{K: "ring", P: f2(fp)}, X: t.x()},
					"same flags with and without repeated closing vertex",
					fmt.Sprintf("open(convex=%v cw=%v) closed(convex=%v cw=%v)", oc.convex, oc.cw, o2.convex, o2.cw)
			})
		}
		// direct: rotation by one vertex must not change the flags (only when the
		// rotated sequence is the same cyclic sequence, i.e. it does not end up
		// with its own first vertex repeated at the end)
		if len(seq) >= 3 && seq[len(seq)-1] != seq[0] && seq[1] != seq[0] {
			rp := append(append(make([]geometry.Point, 0, len(fp)), fp[1:]...), fp[0])
			o3 := geometry.NewPoly(rp, nil, idxNone).Exterior
			w.States++
			w.Evals++
			if o3.Convex() != oc.convex || o3.Clockwise() != oc.cw {
				w.Fail("rotation-dependence", func() (rt.Case, string, string) {
					return rt.Case{Kind: "series", Op: "rotation-invariance", A: &rt.G{K: "ring", P: f2(fp)}, X: t.x()},
						"same flags when started at the next vertex",
						fmt.Sprintf("(convex=%v cw=%v) rotated(convex=%v cw=%v)", oc.convex, oc.cw, o3.Convex(), o3.Clockwise())
				})
			}
		}
	}
}

func runC18(r *rt.Run) {
	type scope struct{ k, off, depth int }
	scopes := []scope{{4, -1, 5}, {3, -1, 6}}
	if r.Thorough() {
		scopes = []scope{{4, -1, 6}, {3, -1, 7}}
	}
	r.Rule = "every vertex sequence of length 0..depth over the lattice (nothing filtered: repeated, collinear, self-crossing all occur), each as closed ring, closed ring with repeated closing vertex, rotated ring and open series; plus rings of types implemented outside the library (a slice-backed Series, a closed *Line used as ring) as exterior and as hole, for every sequence of length 3..4 (5) over 3x3, against the NewPoly realisation; plus every rectangle over the 4x4 lattice as a Series (positions, segments, flags, Search, Move) and as the exterior of a Poly, against the ring through its corners; plus series obtained through Move (every sequence of length 3..4 (5) over 3x3 with y in units of 2^-40, ring and line, moved by (3,-5), (0.1,0.3), (0,2^19) and (0,0): attributes must be those of a series built from the moved positions); plus the near-parallel family: rings whose first two edges are M*(P,Q)+e1 and M*(P,Q)+e2 for 12 primitive directions (P,Q), 30 lengths M up to 2^26 lattice units (1/128 steps above 2^18, magnitude <= 2^20), e1,e2 over [-2,2]^2, closed as a triangle or through 6 fourth vertices, every rotation, both directions, with and without repeated closing vertex (flags compared where every float product and partial sum of the library is exact, < 2^53 units^2); non-trivial = cyclic sequence of >= 3 vertices with non-zero area"
	r.Assume = []string{"coordinates integers/half-integers of small magnitude (exact float arithmetic)", "reference: verif/mc/exact Convex/Area2/Segs (literal reading of the statement)"}
	var sc []string
	for _, s := range scopes {
		sc = append(sc, fmt.Sprintf("len<=%d over %dx%d", s.depth, s.k, s.k))
		L := lat.Lattice(s.k, s.off)
		short, pre := lat.Shards2(L)
		w0 := r.Worker()
		for _, q := range short {
			c18One(q, w0)
		}
		w0.Flush()
		r.ParFor(len(pre), func(i int, w *rt.Worker) {
			lat.SeqsFrom(L, pre[i], 2, s.depth, func(seq []exact.P) { c18One(seq, w) })
		})
	}
	r.Bounds["scopes"] = sc
	// the same tree, small and far away: lattice step 2^-12 at (2^19+5/512, 2^19+3/512),
	// ordinates with 32 significant bits (differences stay exact, products of absolute ordinates would not)
	{
		d := 5
		if r.Thorough() {
			d = 6
		}
		L := lat.Lattice(3, -1)
		_, pre := lat.Shards2(L)
		r.Bounds["far_fine_scope"] = fmt.Sprintf("len<=%d over 3x3 at %v", d, farFineXf)
		r.ParFor(len(pre), func(i int, w *rt.Worker) {
			lat.SeqsFrom(L, pre[i], 2, d, func(seq []exact.P) { c18OneT(seq, farFineXf, w) })
		})
		// and at 2^-300 (turn products underflow when multiplied together)
		r.ParFor(len(pre), func(i int, w *rt.Worker) {
			lat.SeqsFrom(L, pre[i], 2, d, func(seq []exact.P) { c18OneT(seq, Xf{Scale: 0x1p-301}, w) })
		})
	}
	c18NearParallel(r)
	c18Moved(r)
	c18RectSeries(r)
	c18BigConvex(r)
	fd := 4
	if r.Thorough() {
		fd = 5
	}
	foreignRings(r, fd)
	r.Sample(map[string]any{"ring": [][2]float64{{1, 1}, {2, 0}, {2, 2}, {0, 2}, {0, 0}, {1, 1}}, "note": "reflex vertex at the seam of a closed ring"})
	r.Sample(map[string]any{"ring": [][2]float64{{0, 0}, {1, 0}, {1, 0}, {0, 1}}, "note": "repeated vertex, unclosed"})
}

// c18BigConvex: rings of n positions for every n within 2 of a power of two
// from 16 to 65536 that are convex by the definition - a parabola arc
// (strictly convex, n <= 8194) and the outline of a rectangle with a vertex at
// every unit step (collinear runs; odd n: one vertex repeated) - and the same
// rings with one vertex pushed inwards (not convex); each from 4 start
// vertices, in both directions.
func c18BigConvex(r *rt.Run) {
	var sizes []int
	for k := 4; k <= 16; k++ {
		for d := -2; d <= 2; d++ {
			sizes = append(sizes, 1<<k+d)
		}
	}
	r.Bounds["big_convex_ring_sizes"] = "2^k-2 .. 2^k+2, k = 4..16"
	r.ParFor(len(sizes), func(i int, w *rt.Worker) {
		n := sizes[i]
		var rings [][]exact.P
		var xfs []Xf
		if n <= 8194 {
			ps := make([]exact.P, n)
			for j := range ps {
				v := int64(j - n/2)
				ps[j] = exact.P{X: 4 * v, Y: v * v}
			}
			rings, xfs = append(rings, ps), append(xfs, Xf{Scale: 1.0 / 16})
			dent := append([]exact.P(nil), ps...)
			dent[n/3].Y += 64 // above the chord of its neighbours: a reflex vertex
			rings, xfs = append(rings, dent), append(xfs, Xf{Scale: 1.0 / 16})
		}
		{
			m := n &^ 1
			wd := m / 4
			ht := m/2 - wd
			var ps []exact.P
			for x := 0; x < wd; x++ {
				ps = append(ps, exact.P{X: int64(x), Y: 0})
			}
			for y := 0; y < ht; y++ {
				ps = append(ps, exact.P{X: int64(wd), Y: int64(y)})
			}
			for x := wd; x > 0; x-- {
				ps = append(ps, exact.P{X: int64(x), Y: int64(ht)})
			}
			for y := ht; y > 0; y-- {
				ps = append(ps, exact.P{X: 0, Y: int64(y)})
			}
			if n&1 == 1 {
				ps = append(ps[:n/5+1], ps[n/5:]...) // one vertex repeated
			}
			rings, xfs = append(rings, ps), append(xfs, Xf{Scale: 0.25})
			dent := append([]exact.P(nil), ps...)
			dent[1].Y++ // a bottom-edge vertex pushed inwards
			rings, xfs = append(rings, dent), append(xfs, Xf{Scale: 0.25})
		}
		for ri, ring := range rings {
			for _, rot := range []int{0, 1, n / 2, n - 1} {
				seq := append(append([]exact.P(nil), ring[rot:]...), ring[:rot]...)
				c18OneT(seq, xfs[ri], w)
				c18OneT(reverse(seq), xfs[ri], w)
			}
		}
	})
}

func evalC18(c *rt.Case) (bool, string, string, error) {
	if c.Kind == "foreign-ring" {
		return evalForeignRing(c)
	}
	if c.Kind == "rect-series" {
		return evalC18Rect(c)
	}
	if c.Kind == "moved-series" {
		return evalC18Moved(c)
	}
	if c.Kind != "series" {
		return false, "", "", fmt.Errorf("not mine")
	}
	if _, scaled := c.X["scale"]; scaled && (c.Op == "convex" || c.Op == "clockwise") {
		// near-parallel family: long edges on dyadic coordinates
		t := xfOf(c.X)
		var seq []exact.P
		for _, p := range c.A.P {
			x, y := (p[0]-t.Tx)/t.Scale, (p[1]-t.Ty)/t.Scale
			if x != float64(int64(x)) || y != float64(int64(y)) || x > 1<<28 || x < -(1<<28) || y > 1<<28 || y < -(1<<28) {
				return false, "", "", fmt.Errorf("coordinates outside the exact domain")
			}
			seq = append(seq, exact.P{X: int64(x), Y: int64(y)})
		}
		ring := geometry.NewPoly(g2(c.A.P), nil, idxNone).Exterior
		cyc := exact.Cyclic(seq)
		tOK, sOK := floatExactTurns(cyc)
		if c.Op == "convex" {
			if !tOK {
				return false, "", "", fmt.Errorf("float arithmetic not exact on this input")
			}
			want := exact.Convex(seq)
			return ring.Convex() != want, fmt.Sprint(want), fmt.Sprint(ring.Convex()), nil
		}
		if !sOK {
			return false, "", "", fmt.Errorf("float arithmetic not exact on this input")
		}
		want := exact.Area2(cyc) < 0
		return ring.Clockwise() != want, fmt.Sprint(want), fmt.Sprint(ring.Clockwise()), nil
	}
	es, ok := exactOf(&rt.G{K: "line", P: c.A.P}, xfOf(c.X))
	if !ok {
		return false, "", "", fmt.Errorf("coordinates outside the exact domain")
	}
	seq := es.Line
	fp := g2(c.A.P)
	closed := c.A.K == "ring"
	switch c.Op {
	case "closing-invariance", "rotation-invariance":
		o1 := observeSeries(geometry.NewPoly(fp, nil, idxNone).Exterior)
		var alt []geometry.Point
		if c.Op == "closing-invariance" {
			alt = append(append(alt, fp...), fp[0])
		} else {
			alt = append(append(alt, fp[1:]...), fp[0])
		}
		o2 := observeSeries(geometry.NewPoly(alt, nil, idxNone).Exterior)
		return o1.convex != o2.convex || o1.cw != o2.cw, "same flags",
			fmt.Sprintf("(convex=%v cw=%v) vs (convex=%v cw=%v)", o1.convex, o1.cw, o2.convex, o2.cw), nil
	}
	var o seriesObs
	if closed {
		o = observeSeries(geometry.NewPoly(fp, nil, idxNone).Exterior)
	} else {
		o = observeSeries(geometry.NewLine(fp, idxNone))
	}
	what, exp, got := checkSeriesT(seq, fp, closed, o, xfOf(c.X))
	return what != "", exp, got, nil
}
