// Command instr rewrites a scratch copy of tidwall/geojson's non-test
// sources, only by inserting statements: verifrt.Tick(site) at the start of
// every function body, function literal body and for/range body. Imports of
// "sync" are redirected to the scheduler-aware shim. It writes the
// instrumented files, the runtime packages and an overlay file for
// `go build -overlay`.
package main

import (
	"bytes"
	"encoding/json"
	"flag"
	"fmt"
	"go/ast"
	"go/format"
	"go/parser"
	"go/token"
	"os"
	"path/filepath"
	"strconv"
	"strings"
)

type site struct {
	ID   int    `json:"id"`
	File string `json:"file"`
	Line int    `json:"line"`
	Func string `json:"func"`
	What string `json:"what"`
}

func main() {
	repo := flag.String("repo", "/repo", "repository root")
	out := flag.String("out", "", "output directory (scratch)")
	rtdir := flag.String("rt", "", "directory holding verifrt/ and vsync/ sources")
	flag.Parse()
	if *out == "" || *rtdir == "" {
		fmt.Fprintln(os.Stderr, "usage: instr -repo /repo -out DIR -rt DIR")
		os.Exit(2)
	}
	os.MkdirAll(*out, 0o755)
	overlay := map[string]string{}
	var sites []site
	fset := token.NewFileSet()
	for _, pkg := range []string{"", "geometry", "geo"} {
		dir := filepath.Join(*repo, pkg)
		ents, err := os.ReadDir(dir)
		if err != nil {
			fmt.Fprintln(os.Stderr, err)
			os.Exit(2)
		}
		for _, e := range ents {
			name := e.Name()
			if e.IsDir() || !strings.HasSuffix(name, ".go") || strings.HasSuffix(name, "_test.go") {
				continue
			}
			path := filepath.Join(dir, name)
			f, err := parser.ParseFile(fset, path, nil, parser.ParseComments)
			if err != nil {
				fmt.Fprintln(os.Stderr, "HARNESS-ERROR: cannot parse", path, err)
				os.Exit(2)
			}
			n := instrument(fset, f, path, &sites)
			ticks := n
			for _, im := range f.Imports {
				if im.Path.Value == `"sync"` {
					im.Path.Value = `"github.com/tidwall/geojson/verifrt/vsync"`
					if im.Name == nil {
						im.Name = ast.NewIdent("sync")
					}
					n++
				}
			}
			if n == 0 {
				continue
			}
			var buf bytes.Buffer
			if err := format.Node(&buf, fset, f); err != nil {
				fmt.Fprintln(os.Stderr, "HARNESS-ERROR: cannot print", path, err)
				os.Exit(2)
			}
			src := buf.String()
			if ticks > 0 {
				src = addImport(src)
			}
			dst := filepath.Join(*out, strings.ReplaceAll(filepath.Join(pkg, name), "/", "__"))
			if err := os.WriteFile(dst, []byte(src), 0o644); err != nil {
				fmt.Fprintln(os.Stderr, err)
				os.Exit(2)
			}
			overlay[path] = dst
		}
	}
	overlay[filepath.Join(*repo, "verifrt", "verifrt.go")] = filepath.Join(*rtdir, "verifrt", "verifrt.go")
	overlay[filepath.Join(*repo, "verifrt", "vsync", "vsync.go")] = filepath.Join(*rtdir, "vsync", "vsync.go")
	b, _ := json.MarshalIndent(map[string]any{"Replace": overlay}, "", " ")
	os.WriteFile(filepath.Join(*out, "overlay.json"), b, 0o644)
	sb, _ := json.Marshal(sites)
	os.WriteFile(filepath.Join(*out, "sites.json"), sb, 0o644)
	fmt.Printf("instrumented %d files, %d sites\n", len(overlay)-2, len(sites))
}

func addImport(src string) string {
	// insert the runtime import right after the package clause
	i := strings.Index(src, "\npackage ")
	if strings.HasPrefix(src, "package ") {
		i = -1
	}
	j := strings.Index(src[i+1:], "\n") + i + 1
	return src[:j+1] + "\nimport verifrt \"github.com/tidwall/geojson/verifrt\"\n" + src[j+1:]
}

func tickStmt(id int) ast.Stmt {
	return &ast.ExprStmt{X: &ast.CallExpr{
		Fun:  &ast.SelectorExpr{X: ast.NewIdent("verifrt"), Sel: ast.NewIdent("Tick")},
		Args: []ast.Expr{&ast.BasicLit{Kind: token.INT, Value: strconv.Itoa(id)}},
	}}
}

func instrument(fset *token.FileSet, f *ast.File, path string, sites *[]site) int {
	n := 0
	cur := ""
	add := func(body *ast.BlockStmt, what string) {
		if body == nil {
			return
		}
		id := len(*sites)
		*sites = append(*sites, site{ID: id, File: path, Line: fset.Position(body.Pos()).Line, Func: cur, What: what})
		body.List = append([]ast.Stmt{tickStmt(id)}, body.List...)
		n++
	}
	for _, d := range f.Decls {
		fd, ok := d.(*ast.FuncDecl)
		if !ok || fd.Body == nil {
			continue
		}
		cur = fd.Name.Name
		if fd.Recv != nil && len(fd.Recv.List) > 0 {
			var b bytes.Buffer
			format.Node(&b, fset, fd.Recv.List[0].Type)
			cur = b.String() + "." + cur
		}
		ast.Inspect(fd.Body, func(nd ast.Node) bool {
			switch v := nd.(type) {
			case *ast.FuncLit:
				add(v.Body, "closure")
			case *ast.ForStmt:
				add(v.Body, "for")
			case *ast.RangeStmt:
				add(v.Body, "range")
			}
			return true
		})
		add(fd.Body, "func")
	}
	return n
}
