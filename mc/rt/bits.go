package rt

import "math"

func float64bits(f float64) uint64 { return math.Float64bits(f) }
