// Package rt is the common runtime of every check: counters, evidence file,
// violation / replay artefacts, known-finding matching, parallel sharding.
package rt

import (
	"encoding/binary"
	"encoding/json"
	"fmt"
	"hash/fnv"
	"math"
	"os"
	"path/filepath"
	"runtime"
	"sort"
	"strconv"
	"strings"
	"sync"
	"sync/atomic"
	"time"
)

// Root is /verif (overridable for tests).
var Root = func() string {
	if v := os.Getenv("VERIF_ROOT"); v != "" {
		return v
	}
	return "/verif"
}()

// OutRoot is where evidence and replay files go: Root unless VERIF_OUT is set
// (runs against a scratch tree must not replace the evidence of /repo).
var OutRoot = func() string {
	if v := os.Getenv("VERIF_OUT"); v != "" {
		return v
	}
	return Root
}()

// RepoDir is the tree under test: /repo unless VERIF_REPO is set (run.sh then
// also provides VERIF_MODFILE, a go.mod whose replace directive points there).
var RepoDir = func() string {
	if v := os.Getenv("VERIF_REPO"); v != "" {
		return v
	}
	return "/repo"
}()

// GoBuild returns the arguments of `go build` for the harness module,
// honouring VERIF_MODFILE.
func GoBuild(args ...string) []string {
	out := []string{"build"}
	if m := os.Getenv("VERIF_MODFILE"); m != "" {
		out = append(out, "-modfile="+m)
	}
	return append(out, args...)
}

// ---------------------------------------------------------------------------
// geometry / case descriptors (what a replay file contains)

// G describes a planar shape by the literal float64 inputs given to the library.
type G struct {
	K string         `json:"k"`           // point | line | rect | poly | ring(open series, closed=true) | series
	P [][2]float64   `json:"p,omitempty"` // point: 1; line: vertices; rect: min,max; poly: exterior
	H [][][2]float64 `json:"h,omitempty"` // holes
}

func fs(x float64) string { return strconv.FormatFloat(x, 'g', -1, 64) }

func (g *G) Key() string {
	var sb strings.Builder
	sb.WriteString(g.K)
	sb.WriteByte(':')
	for _, p := range g.P {
		sb.WriteString(fs(p[0]))
		sb.WriteByte(',')
		sb.WriteString(fs(p[1]))
		sb.WriteByte(';')
	}
	for _, h := range g.H {
		sb.WriteByte('/')
		for _, p := range h {
			sb.WriteString(fs(p[0]))
			sb.WriteByte(',')
			sb.WriteString(fs(p[1]))
			sb.WriteByte(';')
		}
	}
	return sb.String()
}

// Case is one replayable input of any check (a union; Kind selects the
// evaluator). Its Key identifies the input for known-finding matching.
type Case struct {
	// Class names the way the case fails (set by Run.Fail); part of the key, so
	// a listed input that starts failing in a different way is not suppressed.
	Class string            `json:"class,omitempty"`
	Kind  string            `json:"kind"`
	Op    string            `json:"op,omitempty"`
	A     *G                `json:"a,omitempty"`
	B     *G                `json:"b,omitempty"`
	Cfg   string            `json:"cfg,omitempty"`  // index / option configuration
	Doc   string            `json:"doc,omitempty"`  // document text
	Nums  Floats            `json:"nums,omitempty"` // numeric arguments
	Ops   []string          `json:"ops,omitempty"`  // operation sequence / schedule
	X     map[string]string `json:"x,omitempty"`    // further named arguments
}

// Floats is written to replay files with every bit kept: finite values as
// JSON numbers (shortest form that reads back to the same float), NaNs (with
// their payload) and infinities as "bits:<hex>" strings.
type Floats []float64

func (f Floats) MarshalJSON() ([]byte, error) {
	var sb strings.Builder
	sb.WriteByte('[')
	for i, v := range f {
		if i > 0 {
			sb.WriteByte(',')
		}
		if math.IsNaN(v) || math.IsInf(v, 0) || (v == 0 && math.Signbit(v)) {
			sb.WriteString(`"bits:` + strconv.FormatUint(math.Float64bits(v), 16) + `"`)
		} else {
			sb.WriteString(strconv.FormatFloat(v, 'g', -1, 64))
		}
	}
	sb.WriteByte(']')
	return []byte(sb.String()), nil
}

func (f *Floats) UnmarshalJSON(b []byte) error {
	var raw []json.RawMessage
	if err := json.Unmarshal(b, &raw); err != nil {
		return err
	}
	out := make(Floats, len(raw))
	for i, r := range raw {
		var s string
		if json.Unmarshal(r, &s) == nil {
			u, err := strconv.ParseUint(strings.TrimPrefix(s, "bits:"), 16, 64)
			if err != nil {
				return err
			}
			out[i] = math.Float64frombits(u)
			continue
		}
		v, err := strconv.ParseFloat(string(r), 64)
		if err != nil {
			return err
		}
		out[i] = v
	}
	*f = out
	return nil
}

func (c *Case) Key() string {
	var sb strings.Builder
	if c.Class != "" {
		sb.WriteString(c.Class)
		sb.WriteByte('#')
	}
	sb.WriteString(c.Kind)
	sb.WriteByte('|')
	sb.WriteString(c.Op)
	if c.A != nil {
		sb.WriteByte('|')
		sb.WriteString(c.A.Key())
	}
	if c.B != nil {
		sb.WriteByte('|')
		sb.WriteString(c.B.Key())
	}
	if c.Cfg != "" {
		sb.WriteString("|cfg=")
		sb.WriteString(c.Cfg)
	}
	if c.Doc != "" {
		sb.WriteString("|doc=")
		sb.WriteString(c.Doc)
	}
	for _, n := range c.Nums {
		sb.WriteByte('|')
		sb.WriteString(strconv.FormatUint(mathBits(n), 16))
	}
	for _, o := range c.Ops {
		sb.WriteString("|o=")
		sb.WriteString(o)
	}
	if len(c.X) > 0 {
		ks := make([]string, 0, len(c.X))
		for k := range c.X {
			ks = append(ks, k)
		}
		sort.Strings(ks)
		for _, k := range ks {
			sb.WriteByte('|')
			sb.WriteString(k)
			sb.WriteByte('=')
			sb.WriteString(c.X[k])
		}
	}
	return sb.String()
}

const keyBits = 40

func HashKey(s string) uint64 {
	h := fnv.New64a()
	h.Write([]byte(s))
	v := h.Sum64()
	v ^= v >> 29
	v *= 0xbf58476d1ce4e5b9
	v ^= v >> 32
	return v & (1<<keyBits - 1)
}

// ---------------------------------------------------------------------------
// known findings

type Finding struct {
	ID         string   `json:"id"`
	Properties []string `json:"properties"`
	Summary    string   `json:"summary"`
	Witnesses  []Case   `json:"witnesses"`
	KeysFile   string   `json:"keys_file,omitempty"`
	Keys       int      `json:"keys,omitempty"`
	keys       []uint64
}

type FindingsFile struct {
	Note     string    `json:"note"`
	Findings []Finding `json:"findings"`
	Fixed    []string  `json:"fixed"`
}

var (
	findings     *FindingsFile
	findingsOnce sync.Once
)

func LoadFindings() *FindingsFile {
	findingsOnce.Do(func() {
		findings = &FindingsFile{}
		b, err := os.ReadFile(filepath.Join(Root, "known_findings.json"))
		if err != nil {
			return
		}
		if err := json.Unmarshal(b, findings); err != nil {
			fmt.Fprintln(os.Stderr, "known_findings.json:", err)
			os.Exit(2)
		}
		for i := range findings.Findings {
			f := &findings.Findings[i]
			if f.KeysFile != "" {
				ks, err := ReadKeys(filepath.Join(Root, f.KeysFile))
				if err != nil {
					fmt.Fprintln(os.Stderr, "keys file:", err)
					os.Exit(2)
				}
				f.keys = ks
			}
			for j := range f.Witnesses {
				f.keys = append(f.keys, HashKey(f.Witnesses[j].Key()))
			}
			sort.Slice(f.keys, func(a, b int) bool { return f.keys[a] < f.keys[b] })
		}
	})
	return findings
}

// lookup returns the id of the finding that lists this exact input.
func lookup(h uint64) (string, bool) {
	ff := LoadFindings()
	for i := range ff.Findings {
		ks := ff.Findings[i].keys
		j := sort.Search(len(ks), func(k int) bool { return ks[k] >= h })
		if j < len(ks) && ks[j] == h {
			return ff.Findings[i].ID, true
		}
	}
	return "", false
}

func WriteKeys(path string, keys []uint64) error {
	sort.Slice(keys, func(a, b int) bool { return keys[a] < keys[b] })
	buf := make([]byte, 0, len(keys)*4+16)
	buf = append(buf, "VKEYS1\n"...)
	var tmp [binary.MaxVarintLen64]byte
	var prev uint64
	n := 0
	for i, k := range keys {
		if i > 0 && k == prev {
			continue
		}
		m := binary.PutUvarint(tmp[:], k-prev)
		buf = append(buf, tmp[:m]...)
		prev = k
		n++
	}
	return os.WriteFile(path, buf, 0o644)
}

func ReadKeys(path string) ([]uint64, error) {
	b, err := os.ReadFile(path)
	if err != nil {
		return nil, err
	}
	if !strings.HasPrefix(string(b[:min(7, len(b))]), "VKEYS1\n") {
		return nil, fmt.Errorf("%s: bad header", path)
	}
	b = b[7:]
	var out []uint64
	var prev uint64
	for len(b) > 0 {
		d, m := binary.Uvarint(b)
		if m <= 0 {
			return nil, fmt.Errorf("%s: corrupt", path)
		}
		prev += d
		out = append(out, prev)
		b = b[m:]
	}
	return out, nil
}

// ---------------------------------------------------------------------------
// run

type Violation struct {
	Class    string `json:"class"`
	Case     Case   `json:"case"`
	Expected string `json:"expected"`
	Got      string `json:"got"`
	Note     string `json:"note,omitempty"`
}

type Run struct {
	Prop, Tier string
	Seed       int64
	Start      time.Time
	Deadline   time.Time
	Regen      bool

	Evals, States, Trans, Nontriv atomic.Int64

	mu         sync.Mutex
	hist       map[string]int64
	samples    []any
	viols      []Violation
	nviol      int64
	violClass  map[string]int64
	knownSeen  map[string]int64
	regen      map[string][]uint64
	regenWit   map[string][]Violation
	Bounds     map[string]any
	Caps       []string
	Rule       string
	Assume     []string
	Extra      map[string]any
	harnessErr []string
	workers    []*Worker
	progress   atomic.Int64
	// Describe turns a Worker.Cur value into a replayable case.
	Describe func(cur any) (Case, bool)
}

func NewRun(prop string) *Run {
	tier := os.Getenv("VERIF_TIER")
	if tier != "thorough" {
		tier = "quick"
	}
	seed, _ := strconv.ParseInt(os.Getenv("VERIF_SEED"), 10, 64)
	r := &Run{Prop: prop, Tier: tier, Seed: seed, Start: time.Now(),
		hist: map[string]int64{}, violClass: map[string]int64{}, knownSeen: map[string]int64{},
		regen: map[string][]uint64{}, regenWit: map[string][]Violation{},
		Bounds: map[string]any{}, Extra: map[string]any{}}
	lim := 8 * time.Minute
	if tier == "thorough" {
		lim = 45 * time.Minute
	}
	if v := os.Getenv("VERIF_DEADLINE_S"); v != "" {
		if s, err := strconv.Atoi(v); err == nil {
			lim = time.Duration(s) * time.Second
		}
	}
	r.Deadline = r.Start.Add(lim)
	r.Regen = os.Getenv("VERIF_REGEN") != ""
	go r.watchdog()
	return r
}

func (r *Run) Thorough() bool { return r.Tier == "thorough" }

// Expired: the internal deadline passed; callers stop enumerating and the
// run is reported as not exhaustive (exit status still reflects only what
// was explored).
func (r *Run) Expired() bool { return time.Now().After(r.Deadline) }

func (r *Run) Cap(s string) {
	r.mu.Lock()
	defer r.mu.Unlock()
	for _, c := range r.Caps {
		if c == s {
			return
		}
	}
	r.Caps = append(r.Caps, s)
}

func (r *Run) Sample(s any) {
	r.mu.Lock()
	if len(r.samples) < 12 {
		r.samples = append(r.samples, s)
	}
	r.mu.Unlock()
}

// NoteMax keeps the maximum of a named measurement in the evidence.
func (r *Run) NoteMax(key string, v int64) {
	r.mu.Lock()
	if old, ok := r.Extra[key].(int64); !ok || v > old {
		r.Extra[key] = v
	}
	r.mu.Unlock()
}

func (r *Run) HarnessError(s string) {
	r.mu.Lock()
	r.harnessErr = append(r.harnessErr, s)
	r.mu.Unlock()
}

// Worker holds per-goroutine counters, merged on Flush.
type Worker struct {
	r                             *Run
	Evals, States, Trans, Nontriv int64
	hist                          map[string]int64
	// Cur is set by a check just before it calls into the library, so that a
	// call that never returns can be reported with its input.
	Cur    any
	active atomic.Bool
}

func (r *Run) Worker() *Worker {
	w := &Worker{r: r, hist: map[string]int64{}}
	r.mu.Lock()
	r.workers = append(r.workers, w)
	r.mu.Unlock()
	return w
}

// watchdog: if no shard completes for StallS seconds while a worker is still
// inside a shard, a library call is not returning (expected cost of a call
// is microseconds). The stuck inputs are reported as violations.
func (r *Run) watchdog() {
	stall := 300
	if v := os.Getenv("VERIF_STALL_S"); v != "" {
		if s, err := strconv.Atoi(v); err == nil {
			stall = s
		}
	}
	last := r.progress.Load()
	lastT := time.Now()
	for {
		time.Sleep(2 * time.Second)
		p := r.progress.Load()
		if p != last {
			last, lastT = p, time.Now()
			continue
		}
		if time.Since(lastT) < time.Duration(stall)*time.Second {
			continue
		}
		r.mu.Lock()
		var stuck []*Worker
		for _, w := range r.workers {
			if w.active.Load() {
				stuck = append(stuck, w)
			}
		}
		r.mu.Unlock()
		if len(stuck) == 0 {
			lastT = time.Now()
			continue
		}
		for _, w := range stuck {
			if r.Describe != nil && w.Cur != nil {
				if c, ok := r.Describe(w.Cur); ok {
					r.Fail("call-did-not-return", func() (Case, string, string) {
						return c, "the call returns", fmt.Sprintf("no return within %d s", stall)
					})
				}
			}
		}
		r.Cap("a library call did not return; enumeration abandoned")
		if r.NumViolations() == 0 && !r.Regen {
			// known hang or undescribed: still not exhaustive
		}
		r.Finish()
	}
}
func (w *Worker) Outcome(s string) { w.hist[s]++ }
func (w *Worker) Flush() {
	w.r.progress.Add(1)
	w.r.Evals.Add(w.Evals)
	w.r.States.Add(w.States)
	w.r.Trans.Add(w.Trans)
	w.r.Nontriv.Add(w.Nontriv)
	w.r.mu.Lock()
	for k, v := range w.hist {
		w.r.hist[k] += v
	}
	w.r.mu.Unlock()
	w.Evals, w.States, w.Trans, w.Nontriv = 0, 0, 0, 0
	w.hist = map[string]int64{}
}
func (w *Worker) Fail(class string, mk func() (Case, string, string)) { w.r.Fail(class, mk) }

// ParFor runs fn(i) for i in [0,n) on all cores; each goroutine gets a Worker.
func (r *Run) ParFor(n int, fn func(i int, w *Worker)) {
	procs := runtime.GOMAXPROCS(0)
	if procs > n {
		procs = n
	}
	if procs < 1 {
		procs = 1
	}
	var next atomic.Int64
	var wg sync.WaitGroup
	for p := 0; p < procs; p++ {
		wg.Add(1)
		go func() {
			defer wg.Done()
			w := r.Worker()
			w.active.Store(true)
			defer w.active.Store(false)
			defer w.Flush()
			for {
				i := int(next.Add(1) - 1)
				if i >= n {
					return
				}
				if r.Expired() {
					r.Cap("internal deadline reached")
					return
				}
				r.guard(w, func() { fn(i, w) })
				r.progress.Add(1)
			}
		}()
	}
	wg.Wait()
}

// guard runs one shard item; a panic escaping from the library (the checks
// themselves recover where they expect one) is reported as a violation of
// the property being checked, with the input the worker was on.
func (r *Run) guard(w *Worker, fn func()) {
	defer func() {
		if p := recover(); p != nil {
			buf := make([]byte, 2048)
			buf = buf[:runtime.Stack(buf, false)]
			c := Case{Kind: "panic", Op: fmt.Sprint(p)}
			if r.Describe != nil && w.Cur != nil {
				if d, ok := r.Describe(w.Cur); ok {
					c = d
				}
			}
			msg := fmt.Sprintf("panic: %v", p)
			// first frame inside the library, for the report
			for _, l := range strings.Split(string(buf), "\n") {
				if strings.Contains(l, RepoDir+"/") {
					msg += " at " + strings.TrimSpace(l)
					break
				}
			}
			r.Fail("panic-in-library-call", func() (Case, string, string) { return c, "the call returns normally", msg })
		}
	}()
	fn()
}

// Fail records that the code's answer differs from the oracle's on one input.
// The input is looked up (by exact key) in the known-finding key sets.
func (r *Run) Fail(class string, mk func() (Case, string, string)) {
	c, exp, got := mk()
	c.Class = class
	h := HashKey(c.Key())
	if d := os.Getenv("VERIF_DUMP"); d != "" && strings.HasPrefix(class, d) {
		fmt.Printf("DUMP %s | %s | exp=%s got=%s\n", class, c.Key(), exp, got)
	}
	if r.Regen {
		r.mu.Lock()
		r.regen[class] = append(r.regen[class], h)
		if len(r.regenWit[class]) < 6 {
			r.regenWit[class] = append(r.regenWit[class], Violation{Class: class, Case: c, Expected: exp, Got: got})
		}
		r.mu.Unlock()
		return
	}
	if id, ok := lookup(h); ok {
		r.mu.Lock()
		r.knownSeen[id]++
		r.mu.Unlock()
		return
	}
	r.mu.Lock()
	r.nviol++
	r.violClass[class]++
	if r.violClass[class] <= 5 && len(r.viols) < 60 {
		r.viols = append(r.viols, Violation{Class: class, Case: c, Expected: exp, Got: got})
	}
	r.mu.Unlock()
}

func (r *Run) NumViolations() int64 { r.mu.Lock(); defer r.mu.Unlock(); return r.nviol }

// ReplayWitnesses re-executes the witnesses of every listed finding of this
// property; a KNOWN-FINDING line is printed for each finding that still
// reproduces (a repaired defect prints nothing).
func (r *Run) ReplayWitnesses(eval func(c *Case) (fails bool, exp, got string, err error)) {
	ff := LoadFindings()
	for i := range ff.Findings {
		f := &ff.Findings[i]
		mine := false
		for _, p := range f.Properties {
			if p == r.Prop {
				mine = true
			}
		}
		if !mine {
			continue
		}
		repro := 0
		total := 0
		for j := range f.Witnesses {
			fails, _, _, err := eval(&f.Witnesses[j])
			if err != nil {
				continue // witness of another property's evaluator
			}
			total++
			if fails {
				repro++
			}
		}
		if repro > 0 {
			fmt.Printf("KNOWN-FINDING: property=%s %s: %s (%d/%d witnesses reproduce)\n", r.Prop, f.ID, f.Summary, repro, total)
		} else if total > 0 {
			fmt.Printf("note: listed finding %s no longer reproduces on this tree (0/%d witnesses)\n", f.ID, total)
		}
	}
}

type evidence struct {
	PropertyID  string         `json:"property_id"`
	Tier        string         `json:"tier"`
	Seed        int64          `json:"seed"`
	Level       string         `json:"level"`
	Coverage    map[string]any `json:"coverage"`
	Assumptions []string       `json:"assumptions"`
	WallS       float64        `json:"wall_s"`
	Violations  int64          `json:"violations"`
}

// Finish writes evidence and replay files, prints the verdict lines and
// exits with the contract's status.
func (r *Run) Finish() {
	wall := time.Since(r.Start).Seconds()
	if r.Regen {
		r.writeRegen()
		fmt.Printf("regen %s: wrote key sets\n", r.Prop)
		os.Exit(0)
	}
	if len(r.harnessErr) > 0 {
		for _, e := range r.harnessErr {
			fmt.Fprintln(os.Stderr, "HARNESS-ERROR:", e)
		}
		os.Exit(2)
	}
	exhaustive := len(r.Caps) == 0
	samples := r.samples
	if len(samples) == 0 {
		samples = []any{"(no sample recorded)"}
	}
	cov := map[string]any{
		"states":                        r.States.Load(),
		"transitions":                   r.Trans.Load(),
		"traces_validated_against_impl": r.States.Load(),
		"evaluations":                   r.Evals.Load(),
		"distinct_nontrivial":           r.Nontriv.Load(),
		"rule":                          r.Rule,
		"samples":                       samples,
		"exhaustive":                    exhaustive,
		"bounds":                        r.Bounds,
		"outcome_histogram":             r.hist,
		"known_findings_seen":           r.knownSeen,
		"caps_hit":                      r.Caps,
	}
	for k, v := range r.Extra {
		cov[k] = v
	}
	if r.Caps == nil {
		cov["caps_hit"] = []string{}
	}
	ev := evidence{PropertyID: r.Prop, Tier: r.Tier, Seed: r.Seed, Level: "model_checking",
		Coverage: cov, Assumptions: r.Assume, WallS: wall, Violations: r.nviol}
	if ev.Assumptions == nil {
		ev.Assumptions = []string{}
	}
	os.MkdirAll(filepath.Join(OutRoot, "evidence"), 0o755)
	b, _ := json.MarshalIndent(ev, "", " ")
	if err := os.WriteFile(filepath.Join(OutRoot, "evidence", r.Prop+".json"), b, 0o644); err != nil {
		fmt.Fprintln(os.Stderr, "cannot write evidence:", err)
		os.Exit(2)
	}
	ids := make([]string, 0, len(r.knownSeen))
	for id := range r.knownSeen {
		ids = append(ids, id)
	}
	sort.Strings(ids)
	for _, id := range ids {
		fmt.Printf("known-finding inputs matched: %s x%d\n", id, r.knownSeen[id])
	}
	fmt.Printf("%s %s: states=%d transitions=%d evaluations=%d nontrivial=%d exhaustive=%v wall=%.1fs violations=%d\n",
		r.Prop, r.Tier, r.States.Load(), r.Trans.Load(), r.Evals.Load(), r.Nontriv.Load(), exhaustive, wall, r.nviol)
	if r.nviol == 0 {
		os.Exit(0)
	}
	os.MkdirAll(filepath.Join(OutRoot, "replays"), 0o755)
	for i := range r.viols {
		v := &r.viols[i]
		name := fmt.Sprintf("%s-%010x.json", r.Prop, HashKey(v.Case.Key()))
		path := filepath.Join(OutRoot, "replays", name)
		out := map[string]any{"property": r.Prop, "class": v.Class, "case": v.Case,
			"expected": v.Expected, "got": v.Got,
			"replay": "cd /verif && ./run.sh replay " + path}
		jb, _ := json.MarshalIndent(out, "", " ")
		os.WriteFile(path, jb, 0o644)
		fmt.Printf("VIOLATION property=%s replay=%s\n", r.Prop, path)
		fmt.Printf("  class=%s expected=%s got=%s key=%s\n", v.Class, v.Expected, v.Got, v.Case.Key())
	}
	cl := make([]string, 0)
	for k, n := range r.violClass {
		cl = append(cl, fmt.Sprintf("%s=%d", k, n))
	}
	sort.Strings(cl)
	fmt.Printf("violation classes: %s\n", strings.Join(cl, " "))
	os.Exit(1)
}

func (r *Run) writeRegen() {
	dir := filepath.Join(Root, "known", "regen")
	os.MkdirAll(dir, 0o755)
	sum := map[string]any{}
	for class, ks := range r.regen {
		p := filepath.Join(dir, r.Prop+"-"+r.Tier+"-"+class+".keys")
		if err := WriteKeys(p, ks); err != nil {
			fmt.Fprintln(os.Stderr, err)
		}
		sum[class] = map[string]any{"count": len(ks), "witnesses": r.regenWit[class]}
		fmt.Printf("regen class %s: %d failing inputs\n", class, len(ks))
	}
	b, _ := json.MarshalIndent(sum, "", " ")
	os.WriteFile(filepath.Join(dir, r.Prop+"-"+r.Tier+"-summary.json"), b, 0o644)
}

func mathBits(f float64) uint64 { return float64bits(f) }
