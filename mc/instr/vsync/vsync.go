// Package vsync replaces "sync" inside the instrumented copy of the library
// (the instrumenter rewrites the import). While the cooperative scheduler is
// on, a blocked Lock yields to the scheduler instead of parking the only
// running goroutine; otherwise the real primitives are used.
package vsync

import (
	"sync"

	verifrt "github.com/tidwall/geojson/verifrt"
)

type Locker = sync.Locker

type Mutex struct {
	real   sync.Mutex
	locked bool
}

func (m *Mutex) Lock() {
	if !verifrt.SchedOn {
		m.real.Lock()
		return
	}
	for {
		verifrt.Tick(-1)
		if !m.locked {
			m.locked = true
			return
		}
		verifrt.Tick(-2) // blocked: spin through the scheduler
	}
}

func (m *Mutex) Unlock() {
	if !verifrt.SchedOn {
		m.real.Unlock()
		return
	}
	m.locked = false
	verifrt.Tick(-1)
}

func (m *Mutex) TryLock() bool {
	if !verifrt.SchedOn {
		return m.real.TryLock()
	}
	verifrt.Tick(-1)
	if m.locked {
		return false
	}
	m.locked = true
	return true
}

type RWMutex struct {
	real    sync.RWMutex
	writer  bool
	readers int
}

func (m *RWMutex) Lock() {
	if !verifrt.SchedOn {
		m.real.Lock()
		return
	}
	for {
		verifrt.Tick(-1)
		if !m.writer && m.readers == 0 {
			m.writer = true
			return
		}
		verifrt.Tick(-2)
	}
}
func (m *RWMutex) Unlock() {
	if !verifrt.SchedOn {
		m.real.Unlock()
		return
	}
	m.writer = false
	verifrt.Tick(-1)
}
func (m *RWMutex) RLock() {
	if !verifrt.SchedOn {
		m.real.RLock()
		return
	}
	for {
		verifrt.Tick(-1)
		if !m.writer {
			m.readers++
			return
		}
		verifrt.Tick(-2)
	}
}
func (m *RWMutex) RUnlock() {
	if !verifrt.SchedOn {
		m.real.RUnlock()
		return
	}
	m.readers--
	verifrt.Tick(-1)
}
func (m *RWMutex) RLocker() Locker { return rlocker{m} }

type rlocker struct{ m *RWMutex }

func (r rlocker) Lock()   { r.m.RLock() }
func (r rlocker) Unlock() { r.m.RUnlock() }

type Once struct {
	m    Mutex
	done bool
}

func (o *Once) Do(f func()) {
	verifrt.Tick(-1)
	if o.done {
		return
	}
	o.m.Lock()
	defer o.m.Unlock()
	if !o.done {
		defer func() { o.done = true }()
		f()
	}
}

type WaitGroup = sync.WaitGroup

// Pool is a deterministic model of sync.Pool for the instrumented build (one
// goroutine runs at a time there): Get hands out the most recently Put item,
// which is one of the behaviours the real pool may show and the one that
// shares the most; Get and Put are scheduling points. Pools are emptied by
// verifrt.Reset between executions.
type Pool struct {
	New        func() interface{}
	items      []interface{}
	registered bool
}

func (p *Pool) Get() interface{} {
	verifrt.Tick(-1)
	if n := len(p.items); n > 0 {
		x := p.items[n-1]
		p.items[n-1] = nil
		p.items = p.items[:n-1]
		return x
	}
	if p.New != nil {
		return p.New()
	}
	return nil
}

func (p *Pool) Put(x interface{}) {
	if x == nil {
		return
	}
	if !p.registered {
		p.registered = true
		verifrt.ResetHooks = append(verifrt.ResetHooks, func() { p.items = nil })
	}
	p.items = append(p.items, x)
	verifrt.Tick(-1)
}

type Map = sync.Map
type Cond = sync.Cond

func NewCond(l Locker) *Cond { return sync.NewCond(l) }
