// Package verifrt is the runtime behind the statements the instrumenter
// inserts into a scratch copy of tidwall/geojson (it is compiled into the
// module through `go build -overlay`; nothing is committed to /repo).
//
// Fuel mode (C05): Tick counts executed function entries and loop
// iterations and panics with Exhausted once the budget of the current call
// is used up - a deterministic, wall-clock-free "does not terminate" oracle.
//
// Sched mode (C16): Tick is a scheduling point of a cooperative scheduler
// that runs exactly one harness thread at a time and follows an externally
// supplied choice sequence, so that interleavings can be enumerated.
package verifrt

// Exhausted is the panic value raised when the fuel budget is used up.
type Exhausted struct {
	Site  int
	Ticks int64
}

var (
	// fuel mode
	FuelOn  bool
	Fuel    int64 // remaining
	Used    int64
	MaxUsed int64

	// sched mode
	SchedOn bool
	Hook    func(site int) // called at every scheduling point while SchedOn
)

// ResetHooks empty the package-level state the shims keep (pools); Reset
// runs them: called by the harness before every execution.
var ResetHooks []func()

func Reset() {
	for _, f := range ResetHooks {
		f()
	}
}

func Tick(site int) {
	if FuelOn {
		Used++
		Fuel--
		if Fuel < 0 {
			FuelOn = false
			panic(Exhausted{Site: site, Ticks: Used})
		}
		return
	}
	if SchedOn && Hook != nil {
		Hook(site)
	}
}

// StartFuel arms the budget for one call.
func StartFuel(budget int64) {
	Fuel, Used, FuelOn = budget, 0, true
}

// StopFuel disarms it and returns the ticks used.
func StopFuel() int64 {
	FuelOn = false
	if Used > MaxUsed {
		MaxUsed = Used
	}
	return Used
}
