// Package exact is the reference model for the planar properties (C01-C03,
// C12, C18, C19): exact integer / rational planar geometry written from the
// property statements, independent of the code under test.
//
// All inputs are integer points with |coordinate| <= MaxCoord. Rational points
// (needed for intersection parameters and gap midpoints) are homogeneous
// triples (X, Y, D) meaning (X/D, Y/D), D > 0. With MaxCoord = 64 every
// intermediate product stays below 2^50, so int64 arithmetic is exact; the
// kernel's self tests re-check a sample with math/big.
package exact

import (
	"sort"
	"sync"
)

const MaxCoord = 64

type P struct{ X, Y int64 }

// RP is the rational point (X/D, Y/D), D > 0.
type RP struct{ X, Y, D int64 }

func (p P) R() RP { return RP{p.X, p.Y, 1} }

func sgn(v int64) int {
	if v < 0 {
		return -1
	}
	if v > 0 {
		return 1
	}
	return 0
}

func cross(ax, ay, bx, by int64) int64 { return ax*by - ay*bx }

// Orient is the sign of (b-a) x (c-a): +1 left turn, -1 right turn, 0 collinear.
func Orient(a, b, c P) int {
	return sgn(cross(b.X-a.X, b.Y-a.Y, c.X-a.X, c.Y-a.Y))
}

// OrientR is Orient with a rational third point.
func OrientR(a, b P, c RP) int {
	return sgn((b.X-a.X)*(c.Y-a.Y*c.D) - (b.Y-a.Y)*(c.X-a.X*c.D))
}

func min64(a, b int64) int64 {
	if a < b {
		return a
	}
	return b
}
func max64(a, b int64) int64 {
	if a > b {
		return a
	}
	return b
}

// OnSeg: p lies on the closed segment ab (a == b allowed).
func OnSeg(p, a, b P) bool { return OnSegR(p.R(), a, b) }

func OnSegR(p RP, a, b P) bool {
	if OrientR(a, b, p) != 0 {
		return false
	}
	return min64(a.X, b.X)*p.D <= p.X && p.X <= max64(a.X, b.X)*p.D &&
		min64(a.Y, b.Y)*p.D <= p.Y && p.Y <= max64(a.Y, b.Y)*p.D
}

// SegsIntersect: the closed segments ab and cd share at least one point.
func SegsIntersect(a, b, c, d P) bool {
	o1, o2 := Orient(a, b, c), Orient(a, b, d)
	o3, o4 := Orient(c, d, a), Orient(c, d, b)
	if o1*o2 < 0 && o3*o4 < 0 {
		return true
	}
	return OnSeg(c, a, b) || OnSeg(d, a, b) || OnSeg(a, c, d) || OnSeg(b, c, d)
}

// SegsIntersect2 is an independent formulation (parametric, via the 1-D
// decomposition) used only to cross-check SegsIntersect.
func SegsIntersect2(a, b, c, d P) bool {
	s := &Shape{Kind: KLine, Line: []P{c, d}}
	_, any := SegInShape(a, b, s)
	return any
}

// SegContainsSeg: both endpoints of cd lie on ab (then all of cd does).
func SegContainsSeg(a, b, c, d P) bool { return OnSeg(c, a, b) && OnSeg(d, a, b) }

// Collinear: p is on the infinite line through a and b (everything is
// collinear with a zero-length segment).
func Collinear(p, a, b P) bool { return Orient(a, b, p) == 0 }

// RayCross: the rightward horizontal ray from p crosses ab under the half-open
// rule of C19: an endpoint level with p counts as below it. Only meaningful
// when p is not on ab.
func RayCross(p RP, a, b P) bool {
	al := a.Y*p.D <= p.Y
	bl := b.Y*p.D <= p.Y
	if al == bl {
		return false
	}
	if a.Y > b.Y {
		a, b = b, a
	}
	// a is the lower endpoint; p is strictly left of the upward edge
	return OrientR(a, b, p) > 0
}

// ---------------------------------------------------------------------------
// series / rings

// Segs returns the segments of a series under C18's rule: an open series of n
// points has n-1 segments; a closed one has none when n < 3, otherwise one
// per point, minus one if the last point repeats the first.
func Segs(pts []P, closed bool) [][2]P {
	n := len(pts)
	var out [][2]P
	if closed {
		if n < 3 {
			return nil
		}
		m := n
		if pts[n-1] == pts[0] {
			m = n - 1
		}
		for i := 0; i < m; i++ {
			out = append(out, [2]P{pts[i], pts[(i+1)%n]})
		}
		return out
	}
	for i := 0; i+1 < n; i++ {
		out = append(out, [2]P{pts[i], pts[i+1]})
	}
	return out
}

const (
	Out = 0
	On  = 1
	In  = 2
)

// SegsMember: membership of p in the closed curve given by segs: On if on
// any segment, else In/Out by crossing parity.
func SegsMember(segs [][2]P, p RP) int {
	par := false
	for _, s := range segs {
		if OnSegR(p, s[0], s[1]) {
			return On
		}
		if RayCross(p, s[0], s[1]) {
			par = !par
		}
	}
	if par {
		return In
	}
	return Out
}

// Winding is the winding number of the closed curve around p (p not on it);
// independent cross-check of parity for simple rings.
func Winding(segs [][2]P, p RP) int {
	w := 0
	for _, s := range segs {
		a, b := s[0], s[1]
		if a.Y*p.D <= p.Y {
			if b.Y*p.D > p.Y && OrientR(a, b, p) > 0 {
				w++
			}
		} else if b.Y*p.D <= p.Y && OrientR(a, b, p) < 0 {
			w--
		}
	}
	return w
}

// ---------------------------------------------------------------------------
// shapes

type Kind int

const (
	KPoint Kind = iota
	KLine
	KRect
	KPoly
)

func (k Kind) String() string { return [...]string{"point", "line", "rect", "poly"}[k] }

type Shape struct {
	Kind     Kind
	Pt       P
	Line     []P
	Min, Max P
	Ext      []P
	Holes    [][]P

	segs     [][2]P // skeleton cache
	extSegs  [][2]P
	holeSegs [][][2]P
	once     sync.Once
}

func (s *Shape) prep() { s.once.Do(s.prep1) }

func (s *Shape) prep1() {
	switch s.Kind {
	case KPoint:
		s.segs = [][2]P{{s.Pt, s.Pt}}
	case KLine:
		s.segs = Segs(s.Line, false)
	case KRect:
		a, b, c, d := s.Min, P{s.Max.X, s.Min.Y}, s.Max, P{s.Min.X, s.Max.Y}
		s.segs = [][2]P{{a, b}, {b, c}, {c, d}, {d, a}}
	case KPoly:
		s.extSegs = Segs(s.Ext, true)
		s.segs = append(s.segs, s.extSegs...)
		for _, h := range s.Holes {
			hs := Segs(h, true)
			s.holeSegs = append(s.holeSegs, hs)
			s.segs = append(s.segs, hs...)
		}
	}
}

// Skeleton: segments whose union is the boundary (areal shapes) or the
// shape itself (point, line, zero-area rect).
func (s *Shape) Skeleton() [][2]P { s.prep(); return s.segs }

// Empty per C11: no point, no line of >= 2 positions, no polygon of >= 3.
func (s *Shape) Empty() bool {
	switch s.Kind {
	case KLine:
		return len(s.Line) < 2
	case KPoly:
		return len(s.Ext) < 3
	}
	return false
}

// Areal: has non-empty interior (assumes a valid shape).
func (s *Shape) Areal() bool {
	switch s.Kind {
	case KRect:
		return s.Min.X < s.Max.X && s.Min.Y < s.Max.Y
	case KPoly:
		return len(s.Ext) >= 3 && Area2(s.Ext) != 0
	}
	return false
}

// Member: p belongs to the closed point set of s (C01's definition).
func (s *Shape) Member(p RP) bool {
	s.prep()
	switch s.Kind {
	case KPoint:
		return p.X == s.Pt.X*p.D && p.Y == s.Pt.Y*p.D
	case KLine:
		for _, g := range s.segs {
			if OnSegR(p, g[0], g[1]) {
				return true
			}
		}
		return false
	case KRect:
		return s.Min.X*p.D <= p.X && p.X <= s.Max.X*p.D &&
			s.Min.Y*p.D <= p.Y && p.Y <= s.Max.Y*p.D
	case KPoly:
		if SegsMember(s.extSegs, p) == Out {
			return false
		}
		for _, hs := range s.holeSegs {
			if SegsMember(hs, p) == In {
				return false
			}
		}
		return true
	}
	return false
}

// frac is n/d with d > 0.
type frac struct{ n, d int64 }

func fracLess(a, b frac) bool { return a.n*b.d < b.n*a.d }
func fracEq(a, b frac) bool   { return a.n*b.d == b.n*a.d }

func mkfrac(n, d int64) frac {
	if d < 0 {
		n, d = -n, -d
	}
	g := gcd(abs64(n), d)
	if g > 1 {
		n, d = n/g, d/g
	}
	return frac{n, d}
}
func abs64(a int64) int64 {
	if a < 0 {
		return -a
	}
	return a
}
func gcd(a, b int64) int64 {
	for b != 0 {
		a, b = b, a%b
	}
	if a == 0 {
		return 1
	}
	return a
}

// at returns the rational point a + t*(b-a).
func at(a, b P, t frac) RP {
	return RP{a.X*t.d + t.n*(b.X-a.X), a.Y*t.d + t.n*(b.Y-a.Y), t.d}
}

// critical appends the parameters in [0,1] at which segment ab meets cd.
func critical(ts []frac, a, b, c, d P) []frac {
	rx, ry := b.X-a.X, b.Y-a.Y
	sx, sy := d.X-c.X, d.Y-c.Y
	qx, qy := c.X-a.X, c.Y-a.Y
	rxs := cross(rx, ry, sx, sy)
	if rxs != 0 {
		tn := cross(qx, qy, sx, sy)
		un := cross(qx, qy, rx, ry)
		den := rxs
		if den < 0 {
			tn, un, den = -tn, -un, -den
		}
		if tn >= 0 && tn <= den && un >= 0 && un <= den {
			ts = append(ts, mkfrac(tn, den))
		}
		return ts
	}
	// parallel (or cd zero-length)
	if cross(qx, qy, rx, ry) != 0 {
		return ts
	}
	// cd zero-length and r nonzero: need c collinear with ab -- checked above
	// (cross(q, r) == 0). If additionally s != 0 the lines coincide.
	rr := rx*rx + ry*ry
	for _, e := range [2]P{c, d} {
		n := (e.X-a.X)*rx + (e.Y-a.Y)*ry
		if n >= 0 && n <= rr {
			ts = append(ts, mkfrac(n, rr))
		}
	}
	return ts
}

// SegInShape decomposes the closed segment ab against shape s exactly:
// all = every point of ab belongs to s; any = some point does.
func SegInShape(a, b P, s *Shape) (all, any bool) {
	if a == b {
		m := s.Member(a.R())
		return m, m
	}
	ts := make([]frac, 0, 16)
	ts = append(ts, frac{0, 1}, frac{1, 1})
	for _, g := range s.Skeleton() {
		ts = critical(ts, a, b, g[0], g[1])
	}
	sort.Slice(ts, func(i, j int) bool { return fracLess(ts[i], ts[j]) })
	all = true
	var prev frac
	for i, t := range ts {
		if i > 0 && fracEq(prev, t) {
			continue
		}
		if i > 0 {
			mid := frac{prev.n*t.d + t.n*prev.d, 2 * prev.d * t.d}
			if s.Member(at(a, b, mid)) {
				any = true
			} else {
				all = false
			}
		}
		if s.Member(at(a, b, t)) {
			any = true
		} else {
			all = false
		}
		prev = t
	}
	return
}

// Intersects: the closed point sets share a point.
func Intersects(A, B *Shape) bool {
	if A.Empty() || B.Empty() {
		return false
	}
	for _, g := range A.Skeleton() {
		if _, any := SegInShape(g[0], g[1], B); any {
			return true
		}
	}
	for _, g := range B.Skeleton() {
		if _, any := SegInShape(g[0], g[1], A); any {
			return true
		}
	}
	return false
}

// Contains: B is non-empty and every point of B belongs to A. A and B must
// be valid shapes (simple rings, holes inside).
func Contains(A, B *Shape) bool {
	if A.Empty() || B.Empty() {
		return false
	}
	for _, g := range B.Skeleton() {
		if all, _ := SegInShape(g[0], g[1], A); !all {
			return false
		}
	}
	if B.Areal() {
		if !A.Areal() {
			return false
		}
		if A.Kind == KPoly {
			for _, h := range A.Holes {
				if B.Member(InteriorPoint(h)) {
					return false
				}
			}
		}
	}
	return true
}

// Area2 is twice the signed shoelace area of the cyclic sequence (positive =
// counter-clockwise in the x-right, y-up convention).
func Area2(r []P) int64 {
	var s int64
	n := len(r)
	for i := 0; i < n; i++ {
		a, b := r[i], r[(i+1)%n]
		s += a.X*b.Y - b.X*a.Y
	}
	return s
}

// Cyclic drops one repeated closing vertex.
func Cyclic(r []P) []P {
	if len(r) >= 2 && r[len(r)-1] == r[0] {
		return r[:len(r)-1]
	}
	return r
}

// Convex per C18: no two turns along the cyclic vertex sequence have
// opposite orientation (turn = orientation of consecutive triples).
func Convex(r []P) bool {
	c := Cyclic(r)
	// a repeated position has no direction of its own: the turn at a vertex is
	// taken between the last edge that arrives there and the first one that
	// leaves it, so runs of equal consecutive positions (cyclically) count once
	d := c[:0:0]
	for i, p := range c {
		if i == 0 || p != c[i-1] {
			d = append(d, p)
		}
	}
	for len(d) > 1 && d[len(d)-1] == d[0] {
		d = d[:len(d)-1]
	}
	c = d
	n := len(c)
	if n < 3 {
		return true
	}
	pos, neg := false, false
	for i := 0; i < n; i++ {
		o := Orient(c[i], c[(i+1)%n], c[(i+2)%n])
		if o > 0 {
			pos = true
		} else if o < 0 {
			neg = true
		}
	}
	return !(pos && neg)
}

// Simple: the ring (closing vertex optional) is a simple polygon: >= 3
// distinct consecutive vertices, adjacent edges meet only at their shared
// vertex, non-adjacent edges are disjoint.
func Simple(r []P) bool {
	c := Cyclic(r)
	n := len(c)
	if n < 3 {
		return false
	}
	for i := 0; i < n; i++ {
		if c[i] == c[(i+1)%n] {
			return false
		}
	}
	for i := 0; i < n; i++ {
		a, b := c[i], c[(i+1)%n]
		for j := i + 1; j < n; j++ {
			p, q := c[j], c[(j+1)%n]
			switch {
			case j == i+1: // share b == p
				if Orient(a, b, q) == 0 && (q.X-b.X)*(a.X-b.X)+(q.Y-b.Y)*(a.Y-b.Y) > 0 {
					return false
				}
			case i == 0 && j == n-1: // share a == q
				if Orient(p, a, b) == 0 && (p.X-a.X)*(b.X-a.X)+(p.Y-a.Y)*(b.Y-a.Y) > 0 {
					return false
				}
			default:
				if SegsIntersect(a, b, p, q) {
					return false
				}
			}
		}
	}
	return Area2(c) != 0
}

// InteriorPoint returns a point strictly inside the simple ring r.
func InteriorPoint(r []P) RP {
	c := Cyclic(r)
	// two smallest distinct y levels
	y0, y1 := int64(1<<40), int64(1<<40)
	for _, p := range c {
		if p.Y < y0 {
			y0 = p.Y
		}
	}
	for _, p := range c {
		if p.Y > y0 && p.Y < y1 {
			y1 = p.Y
		}
	}
	yn := y0 + y1 // scan line y = yn/2
	var xs []frac
	n := len(c)
	for i := 0; i < n; i++ {
		a, b := c[i], c[(i+1)%n]
		if (2*a.Y < yn) == (2*b.Y < yn) {
			continue
		}
		dy := b.Y - a.Y
		// x = a.X + (yn/2 - a.Y) * dx/dy
		xs = append(xs, mkfrac(a.X*2*dy+(yn-2*a.Y)*(b.X-a.X), 2*dy))
	}
	sort.Slice(xs, func(i, j int) bool { return fracLess(xs[i], xs[j]) })
	m := frac{xs[0].n*xs[1].d + xs[1].n*xs[0].d, 2 * xs[0].d * xs[1].d}
	// point (m.n/m.d, yn/2) with common denominator 2*m.d
	return RP{2 * m.n, yn * m.d, 2 * m.d}
}

// ValidPoly: simple rings, holes inside the closed exterior, hole interiors
// pairwise disjoint. touch reports whether any two rings share a point
// (allowed; reported so callers can keep such cases as their own class).
// sharedEdge reports rings sharing more than isolated points.
func ValidPoly(ext []P, holes [][]P) (valid, touch, sharedEdge bool) {
	if !Simple(ext) {
		return false, false, false
	}
	es := &Shape{Kind: KPoly, Ext: ext}
	for _, h := range holes {
		if !Simple(h) {
			return false, false, false
		}
		for _, g := range Segs(h, true) {
			all, _ := SegInShape(g[0], g[1], es)
			if !all {
				return false, false, false
			}
		}
		t, se := ringsTouch(Segs(h, true), Segs(ext, true))
		touch = touch || t
		sharedEdge = sharedEdge || se
	}
	for i := range holes {
		for j := range holes {
			if i == j {
				continue
			}
			hj := Segs(holes[j], true)
			// no point of hole i's boundary strictly inside hole j
			for _, g := range Segs(holes[i], true) {
				if segHitsInterior(g[0], g[1], hj) {
					return false, false, false
				}
			}
			if SegsMember(hj, InteriorPoint(holes[i])) == In {
				return false, false, false
			}
			if i < j {
				t, se := ringsTouch(Segs(holes[i], true), hj)
				touch = touch || t
				sharedEdge = sharedEdge || se
			}
		}
	}
	return true, touch, sharedEdge
}

func ringsTouch(a, b [][2]P) (touch, shared bool) {
	for _, g := range a {
		for _, h := range b {
			if SegsIntersect(g[0], g[1], h[0], h[1]) {
				touch = true
				if Orient(g[0], g[1], h[0]) == 0 && Orient(g[0], g[1], h[1]) == 0 {
					// collinear: shared segment iff the overlap has positive length
					rx, ry := g[1].X-g[0].X, g[1].Y-g[0].Y
					n0 := (h[0].X-g[0].X)*rx + (h[0].Y-g[0].Y)*ry
					n1 := (h[1].X-g[0].X)*rx + (h[1].Y-g[0].Y)*ry
					lo, hi := max64(0, min64(n0, n1)), min64(rx*rx+ry*ry, max64(n0, n1))
					if hi > lo {
						shared = true
					}
				}
			}
		}
	}
	return
}

// segHitsInterior: some point of ab is strictly inside the closed curve segs.
func segHitsInterior(a, b P, segs [][2]P) bool {
	ts := []frac{{0, 1}, {1, 1}}
	for _, g := range segs {
		ts = critical(ts, a, b, g[0], g[1])
	}
	sort.Slice(ts, func(i, j int) bool { return fracLess(ts[i], ts[j]) })
	for i, t := range ts {
		if SegsMember(segs, at(a, b, t)) == In {
			return true
		}
		if i > 0 && !fracEq(ts[i-1], t) {
			p := ts[i-1]
			mid := frac{p.n*t.d + t.n*p.d, 2 * p.d * t.d}
			if SegsMember(segs, at(a, b, mid)) == In {
				return true
			}
		}
	}
	return false
}

// LineValid: >= 2 positions (zero-length segments and self-crossings allowed).
func LineValid(l []P) bool { return len(l) >= 2 }
