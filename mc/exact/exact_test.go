package exact

import (
	"math/big"
	"testing"
)

// The kernel is the trusted base of C01-C03, C12, C18, C19; these tests
// check it against arbitrary-precision arithmetic and against itself
// (independent formulations, invariance under the symmetries of the square)
// exhaustively on a small scope.

func lattice(k int64) []P {
	var out []P
	for y := -k; y <= k; y++ {
		for x := -k; x <= k; x++ {
			out = append(out, P{x, y})
		}
	}
	return out
}

func bigOrient(a, b, c P, cd int64, cx, cy int64) int {
	// sign of (b-a) x (c - a) with c = (cx/cd, cy/cd), cd > 0
	bx := big.NewInt(b.X - a.X)
	by := big.NewInt(b.Y - a.Y)
	t1 := new(big.Int).Sub(big.NewInt(cy), new(big.Int).Mul(big.NewInt(a.Y), big.NewInt(cd)))
	t2 := new(big.Int).Sub(big.NewInt(cx), new(big.Int).Mul(big.NewInt(a.X), big.NewInt(cd)))
	r := new(big.Int).Sub(new(big.Int).Mul(bx, t1), new(big.Int).Mul(by, t2))
	return r.Sign()
}

func TestOrientAgainstBig(t *testing.T) {
	L := lattice(2)
	for _, a := range L {
		for _, b := range L {
			for _, c := range L {
				if Orient(a, b, c) != bigOrient(a, b, c, 1, c.X, c.Y) {
					t.Fatalf("Orient(%v,%v,%v)", a, b, c)
				}
				// rational third point with a large denominator near the int64 budget
				for _, d := range []int64{1, 7, 1 << 20, 1 << 31} {
					p := RP{c.X*d + 3, c.Y*d - 5, d}
					if OrientR(a, b, p) != bigOrient(a, b, c, d, p.X, p.Y) {
						t.Fatalf("OrientR(%v,%v,%v)", a, b, p)
					}
				}
			}
		}
	}
	// extreme coordinates allowed by MaxCoord
	a, b := P{-MaxCoord, MaxCoord}, P{MaxCoord, -MaxCoord}
	p := RP{MaxCoord*(1<<31) - 1, -MaxCoord * (1 << 31), 1 << 31}
	if OrientR(a, b, p) != bigOrient(a, b, P{}, p.D, p.X, p.Y) {
		t.Fatal("OrientR at the coordinate bound")
	}
}

func TestSegmentFormulationsAgree(t *testing.T) {
	L := lattice(2)
	n := 0
	for _, a := range L {
		for _, b := range L {
			for _, c := range L {
				for _, d := range L {
					w := SegsIntersect(a, b, c, d)
					if w != SegsIntersect2(a, b, c, d) || w != SegsIntersect(c, d, a, b) {
						t.Fatalf("intersect formulations disagree on %v-%v %v-%v", a, b, c, d)
					}
					n++
				}
			}
		}
	}
	if n != 25*25*25*25 {
		t.Fatal("scope")
	}
}

func sym(k int, p P) P {
	x, y := p.X, p.Y
	switch k {
	case 1:
		return P{-x, y}
	case 2:
		return P{x, -y}
	case 3:
		return P{-x, -y}
	case 4:
		return P{y, x}
	case 5:
		return P{-y, x}
	case 6:
		return P{y, -x}
	case 7:
		return P{-y, -x}
	}
	return p
}

func symPts(k int, ps []P) []P {
	out := make([]P, len(ps))
	for i, p := range ps {
		out[i] = sym(k, p)
	}
	return out
}

// every simple ring with <= 4 vertices on the 3x3 lattice (coordinates
// doubled so that half-step probes are integers)
func rings3() [][]P {
	L := lattice(1)
	for i := range L {
		L[i] = P{2 * L[i].X, 2 * L[i].Y}
	}
	var out [][]P
	var rec func(seq []P)
	rec = func(seq []P) {
		if len(seq) >= 3 && seq[len(seq)-1] != seq[0] && Simple(seq) {
			out = append(out, append(append([]P{}, seq...), seq[0]))
		}
		if len(seq) == 4 {
			return
		}
		for _, p := range L {
			rec(append(seq, p))
		}
	}
	rec(nil)
	return out
}

func TestMembershipParityVersusWindingAndSymmetry(t *testing.T) {
	probes := lattice(2)
	for _, r := range rings3() {
		segs := Segs(r, true)
		for _, p := range probes {
			m := SegsMember(segs, p.R())
			if m != On && (m == In) != (Winding(segs, p.R()) != 0) {
				t.Fatalf("parity vs winding: %v %v", r, p)
			}
			for k := 1; k < 8; k++ {
				if SegsMember(Segs(symPts(k, r), true), sym(k, p).R()) != m {
					t.Fatalf("membership not invariant under symmetry %d: %v %v", k, r, p)
				}
			}
		}
	}
}

func TestContainsIntersectsInvariantAndConsistent(t *testing.T) {
	rs := rings3()
	if len(rs) < 1000 {
		t.Fatalf("only %d rings", len(rs))
	}
	step := 7
	for i := 0; i < len(rs); i += step {
		for j := 0; j < len(rs); j += step + 4 {
			A := &Shape{Kind: KPoly, Ext: rs[i]}
			B := &Shape{Kind: KPoly, Ext: rs[j]}
			c, in := Contains(A, B), Intersects(A, B)
			if c && !in {
				t.Fatalf("contains without intersects: %v %v", rs[i], rs[j])
			}
			if in != Intersects(B, A) {
				t.Fatalf("intersects not symmetric: %v %v", rs[i], rs[j])
			}
			if c && Contains(B, A) && Area2(Cyclic(rs[i])) != Area2(Cyclic(rs[j])) && Area2(Cyclic(rs[i])) != -Area2(Cyclic(rs[j])) {
				t.Fatalf("mutual containment of rings with different area: %v %v", rs[i], rs[j])
			}
			for k := 1; k < 8; k++ {
				Ak := &Shape{Kind: KPoly, Ext: symPts(k, rs[i])}
				Bk := &Shape{Kind: KPoly, Ext: symPts(k, rs[j])}
				if Contains(Ak, Bk) != c || Intersects(Ak, Bk) != in {
					t.Fatalf("not invariant under symmetry %d: %v %v", k, rs[i], rs[j])
				}
			}
			// containment must agree with a dense membership sample: every
			// vertex and edge midpoint of B inside A, and if contained, the
			// interior point of B inside A as well
			if c {
				for _, g := range B.Skeleton() {
					mid := RP{g[0].X + g[1].X, g[0].Y + g[1].Y, 2}
					if !A.Member(g[0].R()) || !A.Member(mid) {
						t.Fatalf("contained ring has a boundary point outside: %v %v", rs[i], rs[j])
					}
				}
				if !A.Member(InteriorPoint(rs[j])) {
					t.Fatalf("contained ring's interior point outside: %v %v", rs[i], rs[j])
				}
			}
		}
	}
}

func TestInteriorPointIsInterior(t *testing.T) {
	for _, r := range rings3() {
		if SegsMember(Segs(r, true), InteriorPoint(r)) != In {
			t.Fatalf("interior point of %v is not strictly inside", r)
		}
	}
}

func TestHoleSemantics(t *testing.T) {
	sq := func(x0, y0, x1, y1 int64) []P { return []P{{x0, y0}, {x1, y0}, {x1, y1}, {x0, y1}, {x0, y0}} }
	A := &Shape{Kind: KPoly, Ext: sq(0, 0, 20, 20), Holes: [][]P{sq(8, 8, 12, 12)}}
	in := &Shape{Kind: KPoly, Ext: sq(9, 9, 11, 11)}      // inside the hole
	eq := &Shape{Kind: KPoly, Ext: sq(8, 8, 12, 12)}      // equal to the hole
	around := &Shape{Kind: KPoly, Ext: sq(6, 6, 14, 14)}  // covers the hole
	ring := &Shape{Kind: KPoly, Ext: sq(6, 6, 14, 14), Holes: [][]P{sq(7, 7, 13, 13)}}
	along := &Shape{Kind: KLine, Line: []P{{8, 8}, {12, 8}}} // along the hole boundary
	if Intersects(A, in) || Contains(A, in) {
		t.Fatal("shape strictly inside a hole")
	}
	if !Intersects(A, eq) || Contains(A, eq) {
		t.Fatal("shape equal to the hole: touches the boundary only")
	}
	if !Intersects(A, around) || Contains(A, around) {
		t.Fatal("shape covering the hole")
	}
	if !Contains(A, ring) {
		t.Fatal("annulus around the hole whose own hole covers it")
	}
	if !Contains(A, along) || !Intersects(A, along) {
		t.Fatal("line along the hole boundary belongs to the polygon")
	}
	if v, touch, shared := ValidPoly(sq(0, 0, 20, 20), [][]P{sq(0, 0, 4, 4)}); !v || !touch || !shared {
		t.Fatal("hole sharing edges with the exterior must be reported as shared")
	}
	if v, touch, shared := ValidPoly(sq(0, 0, 20, 20), [][]P{{{0, 10}, {4, 8}, {4, 12}, {0, 10}}}); !v || !touch || shared {
		t.Fatal("hole touching the exterior at one point")
	}
}
