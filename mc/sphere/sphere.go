// Package sphere is the independent great-circle reference model for C13-C15:
// locations as unit 3-vectors, angle by atan2(|a x b|, a . b) (well
// conditioned everywhere, unlike the haversine/asin form of the library),
// destination by rotation in the tangent frame, bearing by tangent projection.
package sphere

import "math"

// R is the sphere radius the library's metre values refer to.
const R = 6371e3

const rad = math.Pi / 180

type V struct{ X, Y, Z float64 }

func Vec(lat, lon float64) V {
	sφ, cφ := math.Sincos(lat * rad)
	sλ, cλ := math.Sincos(lon * rad)
	return V{cφ * cλ, cφ * sλ, sφ}
}

func dot(a, b V) float64 { return a.X*b.X + a.Y*b.Y + a.Z*b.Z }
func cross(a, b V) V {
	return V{a.Y*b.Z - a.Z*b.Y, a.Z*b.X - a.X*b.Z, a.X*b.Y - a.Y*b.X}
}
func norm(a V) float64 { return math.Sqrt(dot(a, a)) }

// Angle between two locations in radians, in [0, pi].
func Angle(a, b V) float64 { return math.Atan2(norm(cross(a, b)), dot(a, b)) }

// Dist is the great-circle distance in metres.
func Dist(latA, lonA, latB, lonB float64) float64 {
	return R * Angle(Vec(latA, lonA), Vec(latB, lonB))
}

// frame returns the north and east unit tangent vectors at (lat, lon).
func frame(lat, lon float64) (n, e V) {
	sφ, cφ := math.Sincos(lat * rad)
	sλ, cλ := math.Sincos(lon * rad)
	return V{-sφ * cλ, -sφ * sλ, cφ}, V{-sλ, cλ, 0}
}

// Dest travels meters along the initial bearing (degrees clockwise from north).
func Dest(lat, lon, meters, bearing float64) (float64, float64) {
	p := Vec(lat, lon)
	n, e := frame(lat, lon)
	sθ, cθ := math.Sincos(bearing * rad)
	d := V{n.X*cθ + e.X*sθ, n.Y*cθ + e.Y*sθ, n.Z*cθ + e.Z*sθ}
	sδ, cδ := math.Sincos(meters / R)
	q := V{p.X*cδ + d.X*sδ, p.Y*cδ + d.Y*sδ, p.Z*cδ + d.Z*sδ}
	return math.Atan2(q.Z, math.Hypot(q.X, q.Y)) / rad, math.Atan2(q.Y, q.X) / rad
}

// Bearing is the initial bearing from A to B in [0, 360).
func Bearing(latA, lonA, latB, lonB float64) float64 {
	n, e := frame(latA, lonA)
	b := Vec(latB, lonB)
	θ := math.Atan2(dot(b, e), dot(b, n)) / rad
	if θ < 0 {
		θ += 360
	}
	return θ
}

// LonDiff is the absolute longitude difference modulo 360, in [0, 180].
func LonDiff(a, b float64) float64 {
	d := math.Mod(math.Abs(a-b), 360)
	if d > 180 {
		d = 360 - d
	}
	return d
}

// AngDiff is the absolute difference of two bearings in [0, 180].
func AngDiff(a, b float64) float64 { return LonDiff(a, b) }
