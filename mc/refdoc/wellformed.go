package refdoc

// WellFormed is an RFC 8259 validator of its own (no recursion, no nesting
// limit: encoding/json gives up beyond 10000 levels): text is exactly one
// JSON value with optional surrounding white space. Also returns the deepest
// nesting of arrays / objects. Invalid UTF-8 inside strings is tolerated, as
// encoding/json does.
func WellFormed(text string) (ok bool, depth int) {
	var stack []byte // '[' or '{' per open container
	i, n := 0, len(text)
	ws := func() {
		for i < n && (text[i] == ' ' || text[i] == '\t' || text[i] == '\n' || text[i] == '\r') {
			i++
		}
	}
	str := func() bool { // text[i] == '"'
		i++
		for i < n {
			c := text[i]
			switch {
			case c == '"':
				i++
				return true
			case c < 0x20:
				return false
			case c == '\\':
				i++
				if i >= n {
					return false
				}
				switch text[i] {
				case '"', '\\', '/', 'b', 'f', 'n', 'r', 't':
					i++
				case 'u':
					if i+4 >= n {
						return false
					}
					for k := 1; k <= 4; k++ {
						h := text[i+k]
						if !(h >= '0' && h <= '9' || h >= 'a' && h <= 'f' || h >= 'A' && h <= 'F') {
							return false
						}
					}
					i += 5
				default:
					return false
				}
			default:
				i++
			}
		}
		return false
	}
	digits := func() bool {
		s := i
		for i < n && text[i] >= '0' && text[i] <= '9' {
			i++
		}
		return i > s
	}
	num := func() bool {
		if i < n && text[i] == '-' {
			i++
		}
		if i >= n {
			return false
		}
		if text[i] == '0' {
			i++
		} else if !digits() {
			return false
		}
		if i < n && text[i] == '.' {
			i++
			if !digits() {
				return false
			}
		}
		if i < n && (text[i] == 'e' || text[i] == 'E') {
			i++
			if i < n && (text[i] == '+' || text[i] == '-') {
				i++
			}
			if !digits() {
				return false
			}
		}
		return true
	}
	lit := func(s string) bool {
		if i+len(s) <= n && text[i:i+len(s)] == s {
			i += len(s)
			return true
		}
		return false
	}
	// state: expecting a value
value:
	ws()
	if i >= n {
		return false, depth
	}
	switch c := text[i]; {
	case c == '[':
		i++
		stack = append(stack, '[')
		if len(stack) > depth {
			depth = len(stack)
		}
		ws()
		if i < n && text[i] == ']' {
			i++
			stack = stack[:len(stack)-1]
			goto after
		}
		goto value
	case c == '{':
		i++
		stack = append(stack, '{')
		if len(stack) > depth {
			depth = len(stack)
		}
		ws()
		if i < n && text[i] == '}' {
			i++
			stack = stack[:len(stack)-1]
			goto after
		}
		goto key
	case c == '"':
		if !str() {
			return false, depth
		}
	case c == '-' || (c >= '0' && c <= '9'):
		if !num() {
			return false, depth
		}
	case c == 't':
		if !lit("true") {
			return false, depth
		}
	case c == 'f':
		if !lit("false") {
			return false, depth
		}
	case c == 'n':
		if !lit("null") {
			return false, depth
		}
	default:
		return false, depth
	}
after:
	ws()
	if len(stack) == 0 {
		return i == n, depth
	}
	if i >= n {
		return false, depth
	}
	switch top := stack[len(stack)-1]; {
	case text[i] == ',' && top == '[':
		i++
		goto value
	case text[i] == ',' && top == '{':
		i++
		goto key
	case text[i] == ']' && top == '[', text[i] == '}' && top == '{':
		i++
		stack = stack[:len(stack)-1]
		goto after
	}
	return false, depth
key:
	ws()
	if i >= n || text[i] != '"' || !str() {
		return false, depth
	}
	ws()
	if i >= n || text[i] != ':' {
		return false, depth
	}
	i++
	goto value
}
