// Package refdoc is the reference GeoJSON reader used as the oracle of the
// document properties (C06, C07, C08, C17). It is written from the property
// statements on top of encoding/json only; it never calls gjson or the
// library under test.
package refdoc

import (
	"bytes"
	"encoding/json"
	"fmt"
	"io"
	"math"
	"strconv"
	"strings"
)

// JV is a JSON value with member order and duplicate keys preserved.
type JV struct {
	Kind byte // 'o' object, 'a' array, 's' string, 'n' number, 't' true, 'f' false, 'z' null
	Str  string
	Num  string // number literal
	Arr  []*JV
	Keys []string
	Vals []*JV
}

// ParseJSON reads text as exactly one JSON value (RFC 8259) surrounded by
// optional whitespace.
func ParseJSON(text string) (*JV, error) {
	jvalid := json.Valid([]byte(text))
	if wf, d := WellFormed(text); wf != jvalid && d <= 10000 {
		panic(fmt.Sprintf("harness: the two JSON validators disagree (own %v, encoding/json %v) on %q", wf, jvalid, text))
	}
	if !jvalid {
		return nil, fmt.Errorf("not valid JSON")
	}
	dec := json.NewDecoder(strings.NewReader(text))
	dec.UseNumber()
	v, err := readValue(dec)
	if err != nil {
		return nil, err
	}
	if _, err := dec.Token(); err != io.EOF {
		return nil, fmt.Errorf("trailing data")
	}
	return v, nil
}

func readValue(dec *json.Decoder) (*JV, error) {
	tok, err := dec.Token()
	if err != nil {
		return nil, err
	}
	return readFrom(dec, tok)
}

func readFrom(dec *json.Decoder, tok json.Token) (*JV, error) {
	switch t := tok.(type) {
	case json.Delim:
		switch t {
		case '{':
			v := &JV{Kind: 'o'}
			for dec.More() {
				kt, err := dec.Token()
				if err != nil {
					return nil, err
				}
				k, ok := kt.(string)
				if !ok {
					return nil, fmt.Errorf("non-string key")
				}
				val, err := readValue(dec)
				if err != nil {
					return nil, err
				}
				v.Keys = append(v.Keys, k)
				v.Vals = append(v.Vals, val)
			}
			if _, err := dec.Token(); err != nil {
				return nil, err
			}
			return v, nil
		case '[':
			v := &JV{Kind: 'a'}
			for dec.More() {
				val, err := readValue(dec)
				if err != nil {
					return nil, err
				}
				v.Arr = append(v.Arr, val)
			}
			if _, err := dec.Token(); err != nil {
				return nil, err
			}
			return v, nil
		}
		return nil, fmt.Errorf("unexpected delimiter")
	case string:
		return &JV{Kind: 's', Str: t}, nil
	case json.Number:
		return &JV{Kind: 'n', Num: string(t)}, nil
	case bool:
		if t {
			return &JV{Kind: 't'}, nil
		}
		return &JV{Kind: 'f'}, nil
	case nil:
		return &JV{Kind: 'z'}, nil
	}
	return nil, fmt.Errorf("unexpected token")
}

// Get returns the last member with the given key (for duplicate members the
// last one counts).
func (v *JV) Get(key string) *JV {
	if v == nil || v.Kind != 'o' {
		return nil
	}
	for i := len(v.Keys) - 1; i >= 0; i-- {
		if v.Keys[i] == key {
			return v.Vals[i]
		}
	}
	return nil
}

// Canon renders the value canonically (no whitespace, strings re-encoded by
// encoding/json, number literals verbatim) for value-equality comparisons.
func (v *JV) Canon() string {
	var sb strings.Builder
	v.canon(&sb)
	return sb.String()
}

func (v *JV) canon(sb *strings.Builder) {
	switch v.Kind {
	case 'o':
		sb.WriteByte('{')
		for i, k := range v.Keys {
			if i > 0 {
				sb.WriteByte(',')
			}
			sb.WriteString(quote(k))
			sb.WriteByte(':')
			v.Vals[i].canon(sb)
		}
		sb.WriteByte('}')
	case 'a':
		sb.WriteByte('[')
		for i, e := range v.Arr {
			if i > 0 {
				sb.WriteByte(',')
			}
			e.canon(sb)
		}
		sb.WriteByte(']')
	case 's':
		sb.WriteString(quote(v.Str))
	case 'n':
		sb.WriteString(v.Num)
	case 't':
		sb.WriteString("true")
	case 'f':
		sb.WriteString("false")
	default:
		sb.WriteString("null")
	}
}

func quote(s string) string {
	var b bytes.Buffer
	e := json.NewEncoder(&b)
	e.SetEscapeHTML(false)
	e.Encode(s)
	return strings.TrimSuffix(b.String(), "\n")
}

// ---------------------------------------------------------------------------
// GeoJSON reading

type Verdict int

const (
	Unspecified Verdict = iota
	MustAccept
	MustReject
)

func (v Verdict) String() string { return [...]string{"unspecified", "must-accept", "must-reject"}[v] }

// Pos is one position: x, y and the further ordinates present (up to the
// fourth); Null marks ordinates given as null.
type Pos struct {
	X, Y  float64
	Extra []float64
	N     int // number of ordinates in the document
}

type Member struct {
	Key string
	Val *JV
}

// Obj is the decoded GeoJSON object.
type Obj struct {
	Type     string
	Pts      []Pos   // Point: 1; LineString: n
	Rings    [][]Pos // Polygon
	Children []*Obj  // Multi*, collections; Feature: 1 (its geometry)
	Foreign  []Member
	HasProps bool
	Circle   bool // Feature in Tile38's Circle convention
}

var Reserved = map[string]bool{"type": true, "coordinates": true, "geometry": true, "geometries": true, "features": true}

var nine = map[string]bool{"Point": true, "LineString": true, "Polygon": true, "MultiPoint": true, "MultiLineString": true,
	"MultiPolygon": true, "GeometryCollection": true, "Feature": true, "FeatureCollection": true}

// cls accumulates the verdict of a (sub)document: a listed defect forces
// MustReject; anything the statement does not describe downgrades
// MustAccept to Unspecified.
type cls struct {
	reject bool
	unspec bool
	why    string
	// the Circle convention is switched off
	circleOff bool
}

func (c *cls) rej(why string) {
	if !c.reject {
		c.reject, c.why = true, why
	}
}
func (c *cls) uns(why string) {
	if !c.unspec && !c.reject {
		c.why = why
	}
	c.unspec = true
}

// Classify reads text and returns what C07 demands of Parse for it.
func Classify(text string) (Verdict, *Obj, string) { return ClassifyOpts(text, false) }

// ClassifyOpts: with the Circle convention switched off (DisableCircleType) a
// Feature whose properties look like it is an ordinary Feature, whatever its
// radius members say.
func ClassifyOpts(text string, circleOff bool) (Verdict, *Obj, string) {
	v, err := ParseJSON(text)
	if err != nil {
		return MustReject, nil, err.Error()
	}
	if v.Kind != 'o' {
		return MustReject, nil, "not an object"
	}
	c := cls{circleOff: circleOff}
	o := readObj(v, &c, 0)
	switch {
	case c.reject:
		return MustReject, nil, c.why
	case c.unspec:
		return Unspecified, o, c.why
	}
	return MustAccept, o, ""
}

func num(v *JV, c *cls) float64 {
	f, err := strconv.ParseFloat(v.Num, 64)
	if err != nil || math.IsInf(f, 0) {
		c.uns("number out of float64 range")
	}
	return f
}

// readPos reads one position; nullOK for Point / MultiPoint.
func readPos(v *JV, nullOK bool, c *cls) Pos {
	var p Pos
	if v.Kind != 'a' {
		c.rej("position is not an array")
		return p
	}
	p.N = len(v.Arr)
	if len(v.Arr) < 2 {
		c.rej("position with fewer than two ordinates")
		return p
	}
	if len(v.Arr) > 4 {
		c.uns("more than four ordinates")
	}
	vals := make([]float64, 0, 4)
	for i, e := range v.Arr {
		if i == 4 {
			break
		}
		switch e.Kind {
		case 'n':
			vals = append(vals, num(e, c))
		case 'z':
			if nullOK {
				c.uns("null ordinate")
				vals = append(vals, math.NaN())
			} else {
				c.rej("non-numeric ordinate")
				return p
			}
		default:
			c.rej("non-numeric ordinate")
			return p
		}
	}
	p.X, p.Y = vals[0], vals[1]
	p.Extra = vals[2:]
	return p
}

func readLine(v *JV, c *cls) []Pos {
	if v.Kind != 'a' {
		c.rej("line coordinates not an array")
		return nil
	}
	var out []Pos
	for _, e := range v.Arr {
		out = append(out, readPos(e, false, c))
		if c.reject {
			return nil
		}
	}
	if len(out) < 2 {
		c.rej("line with fewer than two positions")
	}
	return out
}

func readPoly(v *JV, c *cls) [][]Pos {
	if v.Kind != 'a' {
		c.rej("polygon coordinates not an array")
		return nil
	}
	var rings [][]Pos
	for _, rv := range v.Arr {
		if rv.Kind != 'a' {
			c.rej("ring not an array")
			return nil
		}
		var ring []Pos
		for _, e := range rv.Arr {
			ring = append(ring, readPos(e, false, c))
			if c.reject {
				return nil
			}
		}
		if len(ring) < 4 {
			c.rej("ring with fewer than four positions")
			return nil
		}
		a, b := ring[0], ring[len(ring)-1]
		if a.X != b.X || a.Y != b.Y {
			c.rej("ring not closed")
			return nil
		}
		rings = append(rings, ring)
	}
	if len(rings) == 0 {
		c.rej("polygon with no ring")
	}
	return rings
}

func readObj(v *JV, c *cls, depth int) *Obj {
	if v.Kind != 'o' {
		c.rej("nested value is not an object")
		return nil
	}
	o := &Obj{}
	for i, k := range v.Keys {
		if !Reserved[k] {
			o.Foreign = append(o.Foreign, Member{k, v.Vals[i]})
			if k == "properties" {
				o.HasProps = true
			}
		}
	}
	t := v.Get("type")
	if t == nil {
		c.rej("missing type")
		return nil
	}
	if t.Kind != 's' {
		c.rej("type is not a string")
		return nil
	}
	if !nine[t.Str] {
		c.rej("unknown type")
		return nil
	}
	o.Type = t.Str
	need := func(key string) *JV {
		m := v.Get(key)
		if m == nil {
			c.rej("missing " + key)
			return nil
		}
		if m.Kind != 'a' {
			c.rej(key + " is not an array")
			return nil
		}
		return m
	}
	switch t.Str {
	case "Point":
		if m := need("coordinates"); m != nil {
			o.Pts = []Pos{readPos(m, true, c)}
		}
	case "LineString":
		if m := need("coordinates"); m != nil {
			o.Pts = readLine(m, c)
		}
	case "Polygon":
		if m := need("coordinates"); m != nil {
			o.Rings = readPoly(m, c)
		}
	case "MultiPoint":
		if m := need("coordinates"); m != nil {
			for _, e := range m.Arr {
				o.Children = append(o.Children, &Obj{Type: "Point", Pts: []Pos{readPos(e, true, c)}})
				if c.reject {
					return nil
				}
			}
		}
	case "MultiLineString":
		if m := need("coordinates"); m != nil {
			for _, e := range m.Arr {
				o.Children = append(o.Children, &Obj{Type: "LineString", Pts: readLine(e, c)})
				if c.reject {
					return nil
				}
			}
		}
	case "MultiPolygon":
		if m := need("coordinates"); m != nil {
			for _, e := range m.Arr {
				o.Children = append(o.Children, &Obj{Type: "Polygon", Rings: readPoly(e, c)})
				if c.reject {
					return nil
				}
			}
		}
	case "GeometryCollection", "FeatureCollection":
		key := "geometries"
		if t.Str == "FeatureCollection" {
			key = "features"
		}
		if m := need(key); m != nil {
			for _, e := range m.Arr {
				ch := readObj(e, c, depth+1)
				if c.reject {
					return nil
				}
				o.Children = append(o.Children, ch)
			}
		}
	case "Feature":
		g := v.Get("geometry")
		if g == nil {
			c.rej("missing geometry")
			return nil
		}
		if g.Kind == 'z' {
			c.uns("null geometry")
			return o
		}
		ch := readObj(g, c, depth+1)
		if c.reject {
			return nil
		}
		o.Children = []*Obj{ch}
		// Tile38's Circle convention (a Point feature with properties.type ==
		// "Circle") has its own rules for radius_units; C07 does not describe
		// them, so documents with other units are not judged.
		if ch != nil && ch.Type == "Point" && !c.circleOff {
			nprops := 0
			for _, k := range v.Keys {
				if k == "properties" {
					nprops++
				}
			}
			if p := v.Get("properties"); p != nil && p.Kind == 'o' {
				// duplicate type / radius / radius_units members inside properties:
				// which one the convention reads is not described
				cnt := map[string]int{}
				anyCircle := false
				for i, k := range p.Keys {
					cnt[k]++
					if k == "type" && p.Vals[i].Kind == 's' && p.Vals[i].Str == "Circle" {
						anyCircle = true
					}
				}
				if anyCircle && (cnt["type"] > 1 || cnt["radius"] > 1 || cnt["radius_units"] > 1) {
					c.uns("Circle convention with duplicate members inside properties")
				}
				if t := p.Get("type"); t != nil && t.Kind == 's' && t.Str == "Circle" {
					o.Circle = true
					if nprops > 1 {
						c.uns("Circle convention with duplicate properties members")
					}
					if u := p.Get("radius_units"); u != nil {
						ok := u.Kind == 'z' || (u.Kind == 's' && (u.Str == "" || u.Str == "m" || u.Str == "km"))
						if !ok {
							c.uns("Circle convention with non-standard radius_units")
						}
					}
				}
			}
		}
	}
	if c.reject {
		return nil
	}
	// mixed dimensionality inside one coordinate member is well-formed by the
	// statement (every position has two to four numbers); nothing to do.
	return o
}

// ---------------------------------------------------------------------------
// canonical structure strings (type, nesting, child order, x/y)

func fbits(f float64) string {
	if math.IsNaN(f) {
		return "NaN"
	}
	if f == 0 && math.Signbit(f) {
		return "-0"
	}
	return strconv.FormatFloat(f, 'g', -1, 64)
}

// XY renders type, nesting, child order and every x,y of the object.
func (o *Obj) XY() string {
	var sb strings.Builder
	o.xy(&sb, false)
	return sb.String()
}

// XYZ additionally renders the further ordinates of every position.
func (o *Obj) XYZ() string {
	var sb strings.Builder
	o.xy(&sb, true)
	return sb.String()
}

func posStr(sb *strings.Builder, p Pos, extra bool) {
	sb.WriteString(fbits(p.X))
	sb.WriteByte(',')
	sb.WriteString(fbits(p.Y))
	if extra {
		for _, e := range p.Extra {
			sb.WriteByte(',')
			sb.WriteString(fbits(e))
		}
	}
	sb.WriteByte(';')
}

func (o *Obj) xy(sb *strings.Builder, extra bool) {
	if o == nil {
		sb.WriteString("<nil>")
		return
	}
	sb.WriteString(o.Type)
	sb.WriteByte('(')
	for _, p := range o.Pts {
		posStr(sb, p, extra)
	}
	for _, r := range o.Rings {
		sb.WriteByte('[')
		for _, p := range r {
			posStr(sb, p, extra)
		}
		sb.WriteByte(']')
	}
	for _, c := range o.Children {
		c.xy(sb, extra)
	}
	sb.WriteByte(')')
}

// ForeignCanon renders the foreign members (key and canonical value) in
// document order, recursively for nested objects.
func (o *Obj) ForeignCanon() string {
	var sb strings.Builder
	o.foreign(&sb)
	return sb.String()
}

func (o *Obj) foreign(sb *strings.Builder) {
	if o == nil {
		return
	}
	sb.WriteByte('{')
	for _, m := range o.Foreign {
		sb.WriteString(quote(m.Key))
		sb.WriteByte(':')
		sb.WriteString(m.Val.Canon())
		sb.WriteByte(',')
	}
	for _, c := range o.Children {
		c.foreign(sb)
	}
	sb.WriteByte('}')
}

// HasNonFinite: some number literal anywhere in the value is outside the
// float64 range (the document properties are stated for finite numbers).
func (v *JV) HasNonFinite() bool {
	switch v.Kind {
	case 'n':
		f, err := strconv.ParseFloat(v.Num, 64)
		return err != nil || math.IsInf(f, 0)
	case 'a':
		for _, e := range v.Arr {
			if e.HasNonFinite() {
				return true
			}
		}
	case 'o':
		for _, e := range v.Vals {
			if e.HasNonFinite() {
				return true
			}
		}
	}
	return false
}
