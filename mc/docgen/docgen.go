// Package docgen enumerates GeoJSON documents as token sequences: grammar
// seeds, and every document within k token deviations of a seed.
package docgen

import (
	"math"
	"fmt"
	"hash/fnv"
	"strconv"
	"strings"
)

type Doc []string

func (d Doc) Text() string { return strings.Join(d, "") }

// T splits a compact JSON text into tokens (structural characters, string
// literals, number / keyword literals, whitespace runs).
func T(s string) Doc {
	var out Doc
	for i := 0; i < len(s); {
		c := s[i]
		switch {
		case c == ' ' || c == '\n' || c == '\t' || c == '\r':
			// a whitespace run is a token of its own, so that seeds keep their spelling
			j := i
			for j < len(s) && (s[j] == ' ' || s[j] == '\n' || s[j] == '\t' || s[j] == '\r') {
				j++
			}
			out = append(out, s[i:j])
			i = j
		case strings.ContainsRune("{}[],:", rune(c)):
			out = append(out, string(c))
			i++
		case c == '"':
			j := i + 1
			for j < len(s) && s[j] != '"' {
				if s[j] == '\\' {
					j++
				}
				j++
			}
			out = append(out, s[i:j+1])
			i = j + 1
		default:
			j := i
			for j < len(s) && !strings.ContainsRune("{}[],: \n\t\r\"", rune(s[j])) {
				j++
			}
			out = append(out, s[i:j])
			i = j
		}
	}
	return out
}

func num(f float64) string { return strconv.FormatFloat(f, 'g', -1, 64) }

// Pos renders a position with the given ordinates.
func Pos(v ...float64) string {
	p := make([]string, len(v))
	for i, x := range v {
		p[i] = num(x)
	}
	return "[" + strings.Join(p, ",") + "]"
}

func list(items []string) string { return "[" + strings.Join(items, ",") + "]" }

// LinePts returns n positions of the given dimensionality along a zig-zag.
func LinePts(n, dims int) []string {
	var out []string
	for i := 0; i < n; i++ {
		v := []float64{float64(i), float64(i%2) * 2.5}
		for d := 2; d < dims; d++ {
			v = append(v, float64(10*d+i))
		}
		out = append(out, Pos(v...))
	}
	return out
}

// RingPts returns a closed ring with n positions (n >= 2); closed=false
// leaves the last position different from the first.
func RingPts(n, dims int, closed bool, off float64) []string {
	base := [][2]float64{{0, 0}, {4, 0}, {4, 4}, {2, 6}, {0, 4}, {-1, 2}}
	var out []string
	for i := 0; i < n; i++ {
		p := base[i%len(base)]
		if i == n-1 && closed {
			p = base[0]
		}
		v := []float64{p[0] + off, p[1] + off}
		for d := 2; d < dims; d++ {
			v = append(v, float64(7*d+i))
		}
		out = append(out, Pos(v...))
	}
	return out
}

func Obj(typ string, rest ...string) string {
	parts := append([]string{`"type":"` + typ + `"`}, rest...)
	return "{" + strings.Join(parts, ",") + "}"
}

// Seeds returns the grammar seeds: every type x list lengths at each level x
// dimensionalities x member sets, nested collections to depth 3.
func Seeds() []string {
	var s []string
	add := func(x string) { s = append(s, x) }
	members := []string{"", `"bbox":[0,0,1,1]`, `"id":"a","properties":{"k":[1,{"z":null}]}`}
	for _, dims := range []int{2, 3, 4, 5} {
		v := []float64{1, 2, 3, 4, 5}[:dims]
		add(Obj("Point", `"coordinates":`+Pos(v...)))
	}
	add(Obj("Point", `"coordinates":`+Pos(-0.0, 1e21), members[2]))
	add(Obj("Point", `"coordinates":[1,null]`))
	add(Obj("Point", `"coordinates":[1]`))
	add(Obj("Point", `"coordinates":[]`))
	add(`{"coordinates":[1,2],"type":"Point"}`)
	for n := 0; n <= 4; n++ {
		for _, dims := range []int{2, 3} {
			add(Obj("LineString", `"coordinates":`+list(LinePts(n, dims))))
		}
	}
	add(Obj("LineString", `"coordinates":`+list(LinePts(3, 4)), members[1]))
	add(Obj("LineString", `"coordinates":[[0,0],[1,1,5]]`)) // mixed dimensionality
	for rings := 0; rings <= 2; rings++ {
		for _, n := range []int{3, 4, 5} {
			for _, closed := range []bool{true, false} {
				var rs []string
				for r := 0; r < rings; r++ {
					rs = append(rs, list(RingPts(n, 2, closed, float64(r))))
				}
				add(Obj("Polygon", `"coordinates":`+list(rs)))
				if rings == 0 {
					break
				}
			}
			if rings == 0 {
				break
			}
		}
	}
	add(Obj("Polygon", `"coordinates":`+list([]string{list(RingPts(5, 3, true, 0)), list(RingPts(4, 3, true, 1))}), members[2]))
	add(Obj("Polygon", `"coordinates":[[[0,0],[4,0],[4,4],[0,4],[0,0]]]`)) // perfect box
	// two holes with z, and with z/m: extra ordinates are indexed across rings
	add(Obj("Polygon", `"coordinates":[[[0,0,1],[9,0,2],[9,9,3],[0,9,4],[0,0,1]],[[1,1,11],[2,1,12],[2,2,13],[1,1,11]],[[5,5,21],[6,5,22],[6,6,23],[5,5,21]]]`))
	add(Obj("Polygon", `"coordinates":[[[0,0,1,-1],[9,0,2,-2],[9,9,3,-3],[0,0,1,-1]],[[1,1,11,5],[2,1,12,6],[2,2,13,7],[1,1,11,5]],[[5,5,21,8],[6,5,22,9],[6,6,23,10],[5,5,21,8]]]`))
	add(Obj("MultiPolygon", `"coordinates":[[[[0,0],[9,0],[9,9],[0,9],[0,0]],[[1,1],[2,1],[2,2],[1,1]]],[[[10,10],[14,10],[14,14],[10,10]],[[11,11],[13,11],[13,12],[11,11]],[[11,12.5],[12,12.5],[12,13],[11,12.5]]]]`))
	add(Obj("MultiPolygon", `"coordinates":[[[[0,0,1],[9,0,2],[9,9,3],[0,0,1]],[[1,1,4],[2,1,5],[2,2,6],[1,1,4]],[[5,4,7],[6,4,8],[6,5,9],[5,4,7]]],[[[10,10],[14,10],[14,14],[10,10]]]]`))
	add(Obj("MultiLineString", `"coordinates":[[[0,0,1],[1,1,2]],[[5,5,3],[6,6,4],[7,5,5]],[[8,8],[9,9]]]`))
	for n := 0; n <= 2; n++ {
		var pts, lines, polys []string
		for i := 0; i < n; i++ {
			pts = append(pts, Pos(float64(i), float64(-i)))
			lines = append(lines, list(LinePts(2+i, 2)))
			polys = append(polys, list([]string{list(RingPts(4+i, 2, true, float64(i)))}))
		}
		add(Obj("MultiPoint", `"coordinates":`+list(pts)))
		add(Obj("MultiLineString", `"coordinates":`+list(lines)))
		add(Obj("MultiPolygon", `"coordinates":`+list(polys)))
	}
	add(Obj("MultiPoint", `"coordinates":[[1,2,3],[4,5],[null,6]]`))
	add(Obj("MultiLineString", `"coordinates":[[[0,0,1],[1,1,2]],[[5,5],[6,6]]]`))
	pt := Obj("Point", `"coordinates":[1,2]`)
	ls := Obj("LineString", `"coordinates":[[0,0],[1,1]]`)
	pg := Obj("Polygon", `"coordinates":[[[0,0],[4,0],[4,4],[0,0]]]`)
	for n := 0; n <= 2; n++ {
		ch := []string{pt, ls}[:n]
		add(Obj("GeometryCollection", `"geometries":`+list(ch)))
	}
	gc1 := Obj("GeometryCollection", `"geometries":`+list([]string{pt}))
	gc2 := Obj("GeometryCollection", `"geometries":`+list([]string{gc1, pg}))
	gc3 := Obj("GeometryCollection", `"geometries":`+list([]string{gc2}), members[1])
	add(gc2)
	add(gc3)
	for _, g := range []string{pt, pg, gc1} {
		add(Obj("Feature", `"geometry":`+g))
		add(Obj("Feature", `"geometry":`+g, members[2]))
	}
	add(Obj("Feature", `"geometry":null`))
	add(Obj("Feature", `"geometry":`+pt, `"properties":{"type":"Circle","radius":100,"radius_units":"m"}`))
	f1 := Obj("Feature", `"geometry":`+pt, `"properties":{}`)
	f2 := Obj("Feature", `"geometry":`+ls, `"id":7`)
	for n := 0; n <= 2; n++ {
		add(Obj("FeatureCollection", `"features":`+list([]string{f1, f2}[:n])))
	}
	add(Obj("FeatureCollection", `"features":`+list([]string{f1, Obj("FeatureCollection", `"features":`+list([]string{f2}))}), members[1]))
	// a Feature without properties whose foreign member has a nested "properties" key; escaped key spellings
	add(Obj("Feature", `"geometry":`+pt, `"id":7,"schema":{"properties":{"name":"string"}}`))
	add(Obj("Feature", `"geometry":`+pt, `"propert\u0069es":{"a":1}`))
	add(Obj("Feature", `"geometry":`+pt, `"x":"\"properties\":","y":[{"properties":null}]`))
	add(`{"\u0074ype":"Point","coordinates":[1,2]}`)
	// members on nested children, member order, whitespace, number spellings, unicode
	add(Obj("GeometryCollection", `"geometries":[`+Obj("Point", `"coordinates":[1,2]`, `"id":"child","bbox":[1,2,1,2]`)+`,`+Obj("LineString", `"coordinates":[[0,0],[1,1]]`, `"name":{"x":[true,false,null]}`)+`]`, `"properties":{"outer":1}`))
	add(Obj("FeatureCollection", `"features":[`+Obj("Feature", `"geometry":`+Obj("Point", `"coordinates":[1,2,3]`, `"inner":1`), `"id":"a","properties":{"p":1},"z":[]`)+`]`, `"bbox":[0,0,9,9],"crs":null`))
	add(`{"bbox":[1,2,1,2],"coordinates":[1,2],"id":5,"type":"Point","zz":"last"}`)
	add("{\n  \"type\" : \"LineString\" ,\n\t\"coordinates\" : [ [ 0 , 0 ] , [ 1.0 , 1e0 ] ]\r\n}")
	add(Obj("MultiPoint", `"coordinates":[[1E2,2e+1,3],[-0.0,0.10,5,6],[7,8]]`))
	add(Obj("Point", `"coordinates":[12345678901234567890,0.1e-2]`, `"big":123456789012345678901234567890,"s":"\u00e9\ud83d\ude00\n\"q\""`))
	add(Obj("Feature", `"geometry":`+Obj("MultiLineString", `"coordinates":[[[0,0],[1,1]],[[2,2],[3,3],[4,2]]]`), `"properties":null,"id":null`))
	add(Obj("Feature", `"geometry":`+Obj("Feature", `"geometry":`+Obj("Point", `"coordinates":[1,2]`), `"id":"inner"`), `"id":"outer"`))
	// duplicate and escaped keys
	add(`{"type":"LineString","type":"Point","coordinates":[[0,0],[1,1]],"coordinates":[3,4]}`)
	add(`{"type":"Point","coordinates":[1,2],"a":1,"a":2}`)
	return s
}

// Alphabet is the token alphabet of insertions and substitutions.
var Alphabet = []string{"{", "}", "[", "]", ",", ":", `"type"`, `"coordinates"`, `"geometry"`, `"Point"`, `"point"`, `"Polygon"`,
	`"x"`, "0", "1.5", "-1", "null", "true", " ", "#", `"Feature"`, `"geometries"`, "1e999", "{}"}

// Deviations1 calls fn with every document at exactly one token deviation
// from d: delete a token, insert or substitute an alphabet token, truncate
// after any token, swap two adjacent top-level members, duplicate a
// top-level member. The Doc passed to fn is only valid during the call.
func Deviations1(d Doc, fn func(Doc)) {
	buf := make(Doc, 0, len(d)+2)
	for i := range d { // delete
		buf = append(append(buf[:0], d[:i]...), d[i+1:]...)
		fn(buf)
	}
	for i := 0; i <= len(d); i++ { // insert
		for _, a := range Alphabet {
			buf = append(append(append(buf[:0], d[:i]...), a), d[i:]...)
			fn(buf)
		}
	}
	for i := range d { // substitute
		for _, a := range Alphabet {
			if a == d[i] {
				continue
			}
			buf = append(append(append(buf[:0], d[:i]...), a), d[i+1:]...)
			fn(buf)
		}
	}
	for i := 1; i < len(d); i++ { // truncate
		fn(d[:i])
	}
	spans := memberSpans(d)
	for i := 0; i+1 < len(spans); i++ { // swap adjacent members
		a, b := spans[i], spans[i+1]
		buf = append(buf[:0], d[:a[0]]...)
		buf = append(buf, d[b[0]:b[1]]...)
		buf = append(buf, ",")
		buf = append(buf, d[a[0]:a[1]]...)
		buf = append(buf, d[b[1]:]...)
		fn(buf)
	}
	for _, a := range spans { // duplicate a member (appended at the end of the object)
		buf = append(buf[:0], d[:len(d)-1]...)
		buf = append(buf, ",")
		buf = append(buf, d[a[0]:a[1]]...)
		buf = append(buf, "}")
		fn(buf)
	}
}

// memberSpans returns the [start,end) token spans of the top-level members.
func memberSpans(d Doc) [][2]int {
	if len(d) < 2 || d[0] != "{" {
		return nil
	}
	var out [][2]int
	depth, start := 0, 1
	for i, t := range d {
		switch t {
		case "{", "[":
			depth++
		case "}", "]":
			depth--
			if depth == 0 && i > start {
				out = append(out, [2]int{start, i})
			}
		case ",":
			if depth == 1 {
				out = append(out, [2]int{start, i})
				start = i + 1
			}
		}
	}
	return out
}

// Hash is used to drop duplicate documents inside one seed's neighbourhood.
func Hash(s string) uint64 {
	h := fnv.New64a()
	h.Write([]byte(s))
	return h.Sum64()
}

// LargeDocs returns documents well beyond the size of the seeds (thousands of
// positions, hundreds of holes / children, long member texts, deep nesting).
// They are checked as they are (no deviations): size-dependent behaviour
// (buffer growth, index thresholds, offsets into the extra-ordinate array).
func LargeDocs() []string {
	var out []string
	pts := func(n, dims int, f func(i int) (float64, float64)) string {
		var sb strings.Builder
		sb.WriteByte('[')
		for i := 0; i < n; i++ {
			if i > 0 {
				sb.WriteByte(',')
			}
			x, y := f(i)
			v := []float64{x, y}
			for d := 2; d < dims; d++ {
				v = append(v, float64(i*10+d))
			}
			sb.WriteString(Pos(v...))
		}
		sb.WriteByte(']')
		return sb.String()
	}
	zig := func(i int) (float64, float64) { return float64(i%97) * 0.25, float64(i/97)*0.5 + float64(i%2)*0.125 }
	for _, n := range []int{63, 64, 65, 1000, 5000} {
		for _, dims := range []int{2, 3, 4} {
			out = append(out, Obj("LineString", `"coordinates":`+pts(n, dims, zig)))
		}
	}
	// polygon with many small holes, z values on every position
	ring := func(x0, y0, w float64, dims int, base int) string {
		c := [][2]float64{{x0, y0}, {x0 + w, y0}, {x0 + w, y0 + w}, {x0, y0 + w}, {x0, y0}}
		var ps []string
		for i, p := range c {
			v := []float64{p[0], p[1]}
			for d := 2; d < dims; d++ {
				v = append(v, float64(base*10+i+d))
			}
			ps = append(ps, Pos(v...))
		}
		return "[" + strings.Join(ps, ",") + "]"
	}
	for _, holes := range []int{3, 10, 120} {
		for _, dims := range []int{2, 3} {
			rs := []string{ring(0, 0, 100, dims, 0)}
			for h := 0; h < holes; h++ {
				rs = append(rs, ring(float64(2+(h%12)*8), float64(2+(h/12)*8), 4, dims, h+1))
			}
			out = append(out, Obj("Polygon", `"coordinates":[`+strings.Join(rs, ",")+`]`, `"id":`+strconv.Itoa(holes)))
		}
	}
	// collections with many children (child-index threshold 64), members on children
	for _, n := range []int{63, 64, 65, 500} {
		var feats, geoms, mp []string
		for i := 0; i < n; i++ {
			x, y := float64(i%25)*0.5, float64(i/25)*0.5
			feats = append(feats, Obj("Feature", `"geometry":`+Obj("Point", `"coordinates":`+Pos(x, y, float64(i))), `"id":`+strconv.Itoa(i)+`,"properties":{"i":`+strconv.Itoa(i)+`}`))
			if i%3 == 0 {
				geoms = append(geoms, Obj("LineString", `"coordinates":[`+Pos(x, y)+`,`+Pos(x+0.25, y+0.25)+`]`))
			} else {
				geoms = append(geoms, Obj("Point", `"coordinates":`+Pos(x, y)))
			}
			mp = append(mp, Pos(x, y))
		}
		out = append(out, Obj("FeatureCollection", `"features":[`+strings.Join(feats, ",")+`]`, `"bbox":[0,0,13,10]`))
		out = append(out, Obj("GeometryCollection", `"geometries":[`+strings.Join(geoms, ",")+`]`))
		out = append(out, Obj("MultiPoint", `"coordinates":[`+strings.Join(mp, ",")+`]`))
	}
	// long member text and deep nesting of foreign values
	long := strings.Repeat(`"k`+strings.Repeat("x", 50)+`":[1,2,{"a":"`+strings.Repeat("é", 40)+`"}],`, 200)
	out = append(out, Obj("Feature", `"geometry":`+Obj("Point", `"coordinates":[1,2]`), long+`"properties":{"n":1}`))
	deep := "1"
	for i := 0; i < 60; i++ {
		deep = `{"d":[` + deep + `]}`
	}
	out = append(out, Obj("Point", `"coordinates":[1,2]`, `"deep":`+deep))
	nest := Obj("Point", `"coordinates":[1,2]`)
	for i := 0; i < 40; i++ {
		if i%2 == 0 {
			nest = Obj("GeometryCollection", `"geometries":[`+nest+`]`)
		} else {
			nest = Obj("Feature", `"geometry":`+nest, `"id":`+strconv.Itoa(i))
		}
	}
	out = append(out, nest)
	return out
}

// NumberDocs: point documents over an alphabet of number spellings: 1..19
// significant digits, decimal point at every position, exponent forms, signs,
// leading/trailing zeros, and the literals around float64's 2^53 / 15-17
// digit boundaries where a hand-written conversion would round differently
// from a correctly rounded one. The alphabet is a fixed deterministic list.
func NumberDocs() []string {
	lits := []string{"0", "-0", "0.0", "-0.0", "1", "-1", "0.1", "0.30000000000000004", "0.9999999999999999", "0.99999999999999989",
		"9.964311686859325", "-97.17058997262243", "9007199254740992", "9007199254740993", "9007199254740995", "90071992547409.93",
		"123456789012345678", "1234567890123456789", "4.35", "2.675", "1.005", "8.41e21", "1e22", "1e23", "1.0E+2", "1E2", "1e-0", "0.1e1", "10e-1",
		"2.2250738585072014e-308", "2.2250738585072011e-308", "5e-324", "4.9e-324", "1.7976931348623157e308", "179.99999999999997", "89.99999999999999",
		"0.000001", "1e-7", "123456.789e3", "0.5", "0.25", "1.5", "100", "1e2", "1.0"}
	x := uint64(0xC0FFEE)
	next := func(n uint64) uint64 {
		x = x*6364136223846793005 + 1442695040888963407
		return (x >> 33) % n
	}
	for i := 0; i < 1500; i++ {
		nd := int(next(19)) + 1
		digits := make([]byte, nd)
		for k := range digits {
			digits[k] = byte('0' + next(10))
		}
		if digits[0] == '0' {
			digits[0] = '9'
		}
		if i%3 == 0 && nd >= 16 {
			// the band just above 2^53 with an odd last digit
			copy(digits, "9007199254740993"[:min(nd, 16)])
			digits[nd-1] = "13579"[next(5)]
			digits[3] = byte('0' + next(10))
		}
		pos := int(next(uint64(nd + 1)))
		lit := string(digits[:pos]) + "." + string(digits[pos:])
		if pos == 0 {
			lit = "0" + lit
		}
		if pos == nd {
			lit = string(digits)
		}
		if next(4) == 0 {
			lit += "e" + []string{"0", "1", "-1", "+2", "-3", "5", "-10"}[next(7)]
		}
		if next(2) == 0 {
			lit = "-" + lit
		}
		lits = append(lits, lit)
	}
	var out []string
	for i, l := range lits {
		m := lits[(i*7+3)%len(lits)]
		out = append(out, Obj("Point", `"coordinates":[`+l+`,`+m+`]`))
		if i%5 == 0 {
			out = append(out, Obj("LineString", `"coordinates":[[`+l+`,1],[2,`+m+`],[`+m+`,`+l+`]]`))
			out = append(out, Obj("Polygon", `"coordinates":[[[`+l+`,0],[4,0],[4,`+m+`],[`+l+`,0]]]`))
		}
	}
	return out
}

// MemberDocs: foreign member texts combining insignificant whitespace
// (0..4 bytes, in earlier and later members) with string values that hold
// escaped quotes, backslash runs and spaces, keys with characters that are
// special in path languages, and duplicate keys.
func MemberDocs() []string {
	ws := []string{"", " ", "  ", " \n", "\t \r\n"}
	strs := []string{`"plain"`, `"say \"hi there\" ok"`, `"ends with backslash \\"`, `"a\\\"b c"`, `"the \"old mill\" trail"`, `"\\\\ x \\"`, `"tab\there"`, `"\u0022quoted\u0022 text"`, `" lead and trail "`}
	keys := []string{`"note"`, `"a.b"`, `"properties.x"`, `"*"`, `"#"`, `"k y"`, `"\u006eote"`, `""`}
	var out []string
	pt := Obj("Point", `"coordinates":[1.5,2.25]`)
	for wi, w := range ws {
		for si, s := range strs {
			k := keys[(wi+si)%len(keys)]
			out = append(out, Obj("Feature", `"geometry":`+pt, `"tags":[1,`+w+`2],"properties":{`+k+`:`+s+`}`))
			out = append(out, Obj("LineString", `"coordinates":[[0,0],[1,1]]`, `"bbox":[0,0,1,`+w+`1],"title":`+s+`,`+k+`:{"x":`+w+s+w+`}`))
			out = append(out, Obj("Feature", `"geometry":`+pt, k+`:`+s+`,"properties":{"a":`+w+`[`+s+`,`+w+s+`]},`+k+`:`+s))
		}
	}
	return out
}

// StringUnits is the alphabet of JSON string content: every raw printable
// ASCII byte, DEL, every two-character escape, \u escapes of every control
// character and of the characters that quoting schemes treat differently,
// surrogate pairs and lone surrogates, raw multi-byte UTF-8 of 2, 3 and 4
// bytes, and byte sequences that are not UTF-8 (legal inside a JSON string
// as far as the grammar is concerned).
func StringUnits() []string {
	var u []string
	for b := 0x20; b <= 0x7f; b++ {
		if b == '"' || b == '\\' {
			continue
		}
		u = append(u, string([]byte{byte(b)}))
	}
	u = append(u, `\"`, `\\`, `\/`, `\b`, `\f`, `\n`, `\r`, `\t`)
	for c := 0; c < 0x20; c++ {
		u = append(u, fmt.Sprintf(`\u%04x`, c))
	}
	for _, c := range []int{0x7f, 0x80, 0x9f, 0xa0, 0xe9, 0x2028, 0x2029, 0xfeff, 0xfffd, 0xffff, 0x22, 0x5c, 0x2f} {
		u = append(u, fmt.Sprintf(`\u%04x`, c))
	}
	esc := func(cs ...int) string {
		s := ""
		for _, c := range cs {
			s += fmt.Sprintf(`\u%04X`, c)
		}
		return s
	}
	u = append(u, esc(0x1f), esc(0xe9), esc(0xd83d, 0xde00), esc(0xdb40, 0xdc01), esc(0xd800), esc(0xdc00), esc(0xd800)+"x")
	for _, c := range []rune{0xe9, 0x80, 0x20ac, 0x2028, 0xfeff, 0xfffd, 0x1f600, 0xe0001, 0x10ffff} {
		u = append(u, string(c))
	}
	u = append(u, "\x80", "\xc3", "\xff", "\xc0\xaf", "\xed\xa0\x80", "\xf4\x90\x80\x80")
	return u
}

// StringDocs: every unit of StringUnits alone and between letters, and every
// ordered pair of units, as a foreign member key and as a foreign member
// value of a geometry; singles also as Feature id / property key / property
// value and as a member of a child of a collection.
func StringDocs() []string {
	us := StringUnits()
	var out []string
	for _, a := range us {
		for _, s := range []string{a, "x" + a + "y"} {
			q := `"` + s + `"`
			out = append(out, Obj("Point", `"coordinates":[1,2]`, q+`:1`))
			out = append(out, Obj("Point", `"coordinates":[1,2]`, `"k":`+q))
			out = append(out, Obj("Feature", `"geometry":`+Obj("Point", `"coordinates":[1,2]`), `"id":`+q+`,"properties":{`+q+`:`+q+`}`))
			out = append(out, Obj("FeatureCollection", `"features":[`+Obj("Feature", `"geometry":`+Obj("LineString", `"coordinates":[[0,0],[1,1]]`, q+`:[`+q+`]`), `"properties":null`, q+`:{}`)+`]`, q+`:null`))
		}
	}
	for _, a := range us {
		for _, b := range us {
			q := `"` + a + b + `"`
			out = append(out, Obj("Point", `"coordinates":[1,2]`, q+`:1`))
			out = append(out, Obj("LineString", `"coordinates":[[0,0],[1,1]]`, `"k":`+q))
		}
	}
	return out
}

// ExtraDocs: the generated document families that follow LargeDocs in the
// "large#i" numbering (append new families at the end only: known findings
// refer to documents by index).
func ExtraDocs() []string {
	out := append(append(NumberDocs(), MemberDocs()...), StringDocs()...)
	out = append(append(out, NestedKeyDocs()...), ClosureDocs()...)
	out = append(append(append(out, CaseKeyDocs()...), EscapedKeyDocs()...), AffixDocs()...)
	out = append(append(out, DimDocs()...), BBoxDocs()...)
	out = append(out, TypeNameDocs()...)
	out = append(out, CircleUnitDocs()...)
	out = append(out, BrokenMemberDocs()...)
	out = append(out, NullArrayDocs()...)
	return append(out, PowerDocs()...)
}

// NullArrayDocs: coordinate members whose elements at some level are all null
// (two to four of them), for every type and level: a position, a line, a ring
// is an array, never null.
func NullArrayDocs() []string {
	var out []string
	nulls := func(n int) string { return strings.TrimSuffix(strings.Repeat("null,", n), ",") }
	for n := 2; n <= 4; n++ {
		ns := nulls(n)
		for _, typ := range []string{"Point", "LineString", "Polygon", "MultiPoint", "MultiLineString", "MultiPolygon"} {
			for _, c := range []string{"[" + ns + "]", "[[" + ns + "]]", "[[[" + ns + "]]]", "[[[[" + ns + "]]]]", "[[1,2],[" + ns + "]]", "[[" + ns + "],[1,2]]"} {
				d := `{"type":"` + typ + `","coordinates":` + c + `}`
				out = append(out, d, `{"type":"Feature","geometry":`+d+`,"properties":{}}`)
			}
		}
		out = append(out, `{"type":"GeometryCollection","geometries":[`+ns+`]}`, `{"type":"FeatureCollection","features":[`+ns+`]}`)
	}
	return out
}

// PowerDocs: whole-number ordinates at the powers of two where integer types
// end (2^31, 2^32, 2^53, 2^63, 2^64) and the floats next to them, both signs,
// written in full and in exponent form, as x, y, z and radius.
func PowerDocs() []string {
	var out []string
	for _, e := range []int{24, 31, 32, 52, 53, 62, 63, 64, 65, 127, 128} {
		p := math.Ldexp(1, e)
		for _, v := range []float64{p, math.Nextafter(p, 0), math.Nextafter(p, math.Inf(1)), -p, math.Nextafter(-p, 0), p - 1, p + 1} {
			for _, txt := range []string{strconv.FormatFloat(v, 'f', -1, 64), strconv.FormatFloat(v, 'e', -1, 64)} {
				out = append(out,
					`{"type":"Point","coordinates":[`+txt+`,1]}`,
					`{"type":"LineString","coordinates":[[0,`+txt+`,`+txt+`],[1,1,1]]}`,
					`{"type":"Feature","geometry":{"type":"MultiPoint","coordinates":[[`+txt+`,`+txt+`]]},"properties":{}}`,
					`{"type":"Feature","geometry":{"type":"Point","coordinates":[1,2]},"properties":{"type":"Circle","radius":`+txt+`,"radius_units":"m"}}`)
			}
		}
	}
	return out
}

// BrokenMemberDocs: collections of 255 .. 1000 members of which two, three or
// eight are not acceptable (an ordinate missing, an unknown type, null), at
// the ends and spread evenly: the whole document has to be rejected, however
// the members are divided up for processing.
func BrokenMemberDocs() []string {
	var out []string
	bad := []string{`{"type":"Feature","geometry":{"type":"Point","coordinates":[7]},"properties":{}}`, `{"type":"Feature","geometry":{"type":"Pt","coordinates":[7,8]},"properties":{}}`, `{"type":"Feature","geometry":null,"properties":{}}`, `null`}
	for _, n := range []int{255, 256, 257, 300, 1000} {
		for _, k := range []int{2, 3, 8} {
			for bi, b := range bad {
				for _, typ := range []string{"FeatureCollection", "GeometryCollection"} {
					var sb strings.Builder
					broken := map[int]bool{}
					for j := 0; j < k; j++ {
						broken[j*(n-1)/(k-1)] = true // first, last and evenly in between
					}
					if typ == "FeatureCollection" {
						sb.WriteString(`{"type":"FeatureCollection","features":[`)
					} else {
						sb.WriteString(`{"type":"GeometryCollection","geometries":[`)
					}
					for i := 0; i < n; i++ {
						if i > 0 {
							sb.WriteByte(',')
						}
						if broken[i] {
							sb.WriteString(b)
						} else {
							fmt.Fprintf(&sb, `{"type":"Feature","geometry":{"type":"Point","coordinates":[%d,%d]},"properties":{"i":%d}}`, i%170, i%80, i)
						}
					}
					sb.WriteString(`]}`)
					if bi < 3 || n <= 257 {
						out = append(out, sb.String())
					}
				}
			}
		}
	}
	return out
}

// CircleUnitDocs: Features in the Circle convention with every kind of
// radius_units and radius value (standard, other spellings, other JSON kinds,
// missing), bare and as a member of collections / geometry of a Feature. What
// they mean is the convention's business when it is on; with it switched off
// they are ordinary Features.
func CircleUnitDocs() []string {
	units := []string{``, `"radius_units":"m"`, `"radius_units":"km"`, `"radius_units":""`, `"radius_units":"ft"`, `"radius_units":"mi"`, `"radius_units":"KM"`, `"radius_units":" m"`, `"radius_units":"meters"`,
		`"radius_units":5`, `"radius_units":true`, `"radius_units":null`, `"radius_units":["m"]`, `"radius_units":{"u":"m"}`}
	radii := []string{``, `"radius":5`, `"radius":"5"`, `"radius":null`, `"radius":-1`, `"radius":1e999`, `"radius":[5]`, `"radius":true`}
	var out []string
	for _, u := range units {
		for _, r := range radii {
			props := `"type":"Circle"`
			if r != "" {
				props += "," + r
			}
			if u != "" {
				props += "," + u
			}
			f := `{"type":"Feature","geometry":{"type":"Point","coordinates":[-112,33]},"properties":{` + props + `}}`
			out = append(out, f,
				`{"type":"FeatureCollection","features":[`+f+`]}`,
				`{"type":"GeometryCollection","geometries":[{"type":"Point","coordinates":[1,2]},`+f+`]}`,
				`{"type":"Feature","geometry":`+f+`,"properties":{}}`,
				`{"type":"Feature","properties":{`+props+`},"geometry":{"type":"Point","coordinates":[-112,33,7]},"id":1}`)
		}
	}
	return out
}

// TypeNameDocs: "type" values that differ from a correctly spelled type name
// by one string unit in front, behind or inside (every unit of the string
// alphabet: blanks, tabs and line ends written as escapes, NUL, NBSP, BOM ...)
// or by letter case, for each of the nine types - at top level, as a
// Feature's geometry, as a collection member - and for the Circle convention's
// properties.type.
func TypeNameDocs() []string {
	bodies := map[string]string{
		"Point": `"coordinates":[1,2]`, "LineString": `"coordinates":[[1,2],[3,4]]`, "Polygon": `"coordinates":[[[0,0],[4,0],[4,4],[0,0]]]`,
		"MultiPoint": `"coordinates":[[1,2]]`, "MultiLineString": `"coordinates":[[[1,2],[3,4]]]`, "MultiPolygon": `"coordinates":[[[[0,0],[4,0],[4,4],[0,0]]]]`,
		"GeometryCollection": `"geometries":[]`, "Feature": `"geometry":{"type":"Point","coordinates":[1,2]},"properties":{}`, "FeatureCollection": `"features":[]`,
	}
	names := []string{"Point", "LineString", "Polygon", "MultiPoint", "MultiLineString", "MultiPolygon", "GeometryCollection", "Feature", "FeatureCollection"}
	var out []string
	spell := func(n string) []string {
		v := []string{strings.ToLower(n), strings.ToUpper(n), strings.ToLower(n[:1]) + n[1:]}
		for _, u := range StringUnits() {
			v = append(v, u+n, n+u, n[:2]+u+n[2:])
		}
		return v
	}
	for _, n := range names {
		for _, t := range spell(n) {
			o := `{"type":"` + t + `",` + bodies[n] + `}`
			out = append(out, o)
			if n != "Feature" && n != "FeatureCollection" {
				out = append(out, `{"type":"Feature","geometry":`+o+`,"properties":{}}`, `{"type":"GeometryCollection","geometries":[{"type":"Point","coordinates":[0,0]},`+o+`]}`)
			} else if n == "Feature" {
				out = append(out, `{"type":"FeatureCollection","features":[`+o+`]}`)
			}
		}
	}
	for _, t := range spell("Circle") {
		out = append(out, `{"type":"Feature","geometry":{"type":"Point","coordinates":[1,2]},"properties":{"type":"`+t+`","radius":1000,"radius_units":"m"}}`)
	}
	return out
}

// NestedKeyDocs: foreign members whose values hold reserved key names
// (type, coordinates, geometry, geometries, features, properties, id, bbox)
// at depth 1..3, as first / second / last key of an object or inside an
// array, on every object type; Features with and without a top-level
// properties member, before and after the foreign member.
func NestedKeyDocs() []string {
	reserved := []string{"type", "coordinates", "geometry", "geometries", "features", "properties", "id", "bbox"}
	pt := Obj("Point", `"coordinates":[102,0.5]`)
	hosts := []func(m string) string{
		func(m string) string { return Obj("Point", `"coordinates":[102,0.5]`, m) },
		func(m string) string { return Obj("LineString", `"coordinates":[[0,0],[1,1]]`, m) },
		func(m string) string { return Obj("Feature", `"geometry":`+pt, m) },
		func(m string) string { return Obj("Feature", `"geometry":`+pt, m, `"properties":{"a":1}`) },
		func(m string) string { return Obj("Feature", `"properties":null`, `"geometry":`+pt, m) },
		func(m string) string { return Obj("Feature", `"geometry":`+Obj("Point", `"coordinates":[1,2]`, m)) },
		func(m string) string { return Obj("GeometryCollection", `"geometries":[`+pt+`]`, m) },
		func(m string) string {
			return Obj("FeatureCollection", `"features":[`+Obj("Feature", `"geometry":`+pt, m)+`]`, m)
		},
	}
	var out []string
	for _, k := range reserved {
		q := `"` + k + `"`
		vals := []string{
			`{` + q + `:{"name":"x"}}`,                     // first key, depth 1
			`{"rel":"self",` + q + `:null}`,                // second key
			`{"a":1,"b":[2],` + q + `:"Point"}`,            // last key
			`[{"rel":"self",` + q + `:[1,2]}]`,             // inside an array
			`{"x":{"y":{"z":0,` + q + `:{}}}}`,             // depth 3
			`{"s":"` + `\"` + k + `\":` + `",` + q + `:1}`, // the key text inside a string as well
			`[[{` + q + `:true}],{"k":[{"j":1,` + q + `:false}]}]`,
		}
		for _, v := range vals {
			for _, name := range []string{"crs", "links", k + "2"} {
				m := `"` + name + `":` + v
				for _, h := range hosts {
					out = append(out, h(m))
				}
			}
		}
	}
	return out
}

// ClosureDocs: rings whose last position is the first position moved by a
// few units in the last place (1, 2, 3, 4, 8 ulps either way, on x, on y, on
// both), spelled with 17 significant digits: such a ring is not closed. Also
// the exactly closed ring spelled two different ways (closed).
func ClosureDocs() []string {
	bases := [][2]float64{{100.1, 0.3}, {0.3, 7}, {-70.5, 1.1}, {1e-7, -1e-7}, {123456.789, -0.001}, {1, 1}, {0.1, 0.2}, {179.99999999999997, -89.99999999999999}}
	fmtf := func(v float64) string { return strconv.FormatFloat(v, 'g', 17, 64) }
	step := func(v float64, k int) float64 {
		for ; k > 0; k-- {
			v = math.Nextafter(v, math.Inf(1))
		}
		for ; k < 0; k++ {
			v = math.Nextafter(v, math.Inf(-1))
		}
		return v
	}
	var out []string
	for _, b := range bases {
		for _, k := range []int{0, 1, -1, 2, -2, 3, 4, -4, 8, -8} {
			for axis := 0; axis < 3; axis++ {
				lx, ly := b[0], b[1]
				if axis == 0 || axis == 2 {
					lx = step(lx, k)
				}
				if axis == 1 || axis == 2 {
					ly = step(ly, k)
				}
				first := `[` + fmtf(b[0]) + `,` + fmtf(b[1]) + `]`
				last := `[` + fmtf(lx) + `,` + fmtf(ly) + `]`
				mid := `[` + fmtf(b[0]+1) + `,` + fmtf(b[1]) + `],[` + fmtf(b[0]+1) + `,` + fmtf(b[1]+1) + `]`
				ring := `[` + first + `,` + mid + `,` + last + `]`
				outer := `[[-200,-200],[300000,-200],[300000,200],[-200,200],[-200,-200]]`
				out = append(out, Obj("Polygon", `"coordinates":[`+ring+`]`))
				if axis == 2 {
					out = append(out, Obj("Polygon", `"coordinates":[`+outer+`,`+ring+`]`))
					out = append(out, Obj("MultiPolygon", `"coordinates":[[`+outer+`],[`+ring+`]]`))
					out = append(out, Obj("Feature", `"geometry":`+Obj("Polygon", `"coordinates":[`+ring+`]`), `"properties":{}`))
					out = append(out, Obj("GeometryCollection", `"geometries":[`+Obj("MultiPolygon", `"coordinates":[[`+outer+`,`+ring+`]]`)+`]`))
				}
			}
		}
	}
	return out
}

// CaseKeyDocs: foreign members whose names differ from a reserved name only
// in letter case (Type, TYPE, tYPE, ...), before and after the real member,
// on every host object.
func CaseKeyDocs() []string {
	reserved := []string{"type", "coordinates", "geometry", "geometries", "features", "properties", "id", "bbox"}
	variants := func(k string) []string {
		up := strings.ToUpper(k)
		return []string{strings.ToUpper(k[:1]) + k[1:], up, k[:1] + up[1:], k[:len(k)-1] + up[len(k)-1:]}
	}
	pt := Obj("Point", `"coordinates":[102,0.5]`)
	var out []string
	for _, k := range reserved {
		for _, v := range variants(k) {
			for _, val := range []string{`"survey"`, `[1,2,3]`, `{"epsg":4326}`, `null`} {
				m := `"` + v + `":` + val
				out = append(out,
					`{`+m+`,"type":"Point","coordinates":[1,2]}`,
					`{"type":"LineString",`+m+`,"coordinates":[[1,2],[3,4]]}`,
					Obj("Polygon", `"coordinates":[[[0,0],[4,0],[4,4],[0,0]]]`, m),
					Obj("Feature", `"geometry":`+Obj("Point", `"coordinates":[1,2]`, m), `"properties":{"name":"a"}`, m),
					`{`+m+`,"type":"Feature","geometry":`+pt+`}`,
					Obj("GeometryCollection", `"geometries":[`+pt+`]`, m),
					Obj("FeatureCollection", `"features":[`+Obj("Feature", `"geometry":`+pt, `"properties":null`, m)+`]`, m),
				)
			}
		}
	}
	return out
}

// EscapedKeyDocs: a reserved member name spelled with a \u escape, alone (it
// is the member) and next to the plainly spelled member (duplicate: the last
// one counts), with conflicting values.
func EscapedKeyDocs() []string {
	esc := func(k string, i int) string {
		return k[:i] + fmt.Sprintf(`\u%04x`, k[i]) + k[i+1:]
	}
	var out []string
	for _, i := range []int{0, 1} {
		ty, co, ge, gs, fe := `"`+esc("type", i)+`"`, `"`+esc("coordinates", i)+`"`, `"`+esc("geometry", i)+`"`, `"`+esc("geometries", i)+`"`, `"`+esc("features", i)+`"`
		out = append(out,
			`{`+ty+`:"Point","coordinates":[1,2]}`,
			`{`+ty+`:"Polygon","type":"Point","coordinates":[1,2]}`,
			`{"type":"Point",`+ty+`:"LineString","coordinates":[1,2]}`,
			`{"type":"Point",`+co+`:[1,2]}`,
			`{"type":"Point",`+co+`:[[[9,9]]],"coordinates":[1,2]}`,
			`{"type":"Point","coordinates":[1,2],`+co+`:[3,4]}`,
			`{"type":"LineString","coordinates":[[1,2],[3,4]],`+ty+`:"Point"}`,
			`{"type":"Feature",`+ge+`:{"type":"Point","coordinates":[1,2]},"properties":{}}`,
			`{"type":"Feature","geometry":{`+ty+`:"Polygon","type":"Point","coordinates":[1,2]},`+ge+`:null,"properties":{}}`,
			`{"type":"Feature",`+ge+`:{"type":"LineString","coordinates":[[0,0],[1,1]]},"geometry":{"type":"Point","coordinates":[1,2]}}`,
			`{"type":"GeometryCollection",`+gs+`:[{"type":"Point","coordinates":[1,2]}]}`,
			`{"type":"GeometryCollection","geometries":[],`+gs+`:[{"type":"Point","coordinates":[1,2]}]}`,
			`{"type":"FeatureCollection",`+fe+`:[],"features":[{"type":"Feature","geometry":{"type":"Point","coordinates":[1,2]},"properties":{}}]}`,
		)
	}
	return out
}

// AffixDocs: a well-formed document of each type with every single byte as a
// prefix and as a suffix, and the usual multi-byte marks (UTF-8 / UTF-16
// byte order marks, NEL, NBSP, U+2028) before and after it.
func AffixDocs() []string {
	bases := []string{
		Obj("Point", `"coordinates":[1,2]`),
		Obj("LineString", `"coordinates":[[0,0],[1,1]]`),
		Obj("Feature", `"geometry":`+Obj("Polygon", `"coordinates":[[[0,0],[4,0],[4,4],[0,0]]]`), `"properties":{}`),
		Obj("FeatureCollection", `"features":[`+Obj("Feature", `"geometry":`+Obj("Point", `"coordinates":[1,2]`), `"properties":null`)+`]`),
	}
	marks := []string{"\xef\xbb\xbf", "\xfe\xff", "\xff\xfe", "\xc2\x85", "\xc2\xa0", "\xe2\x80\xa8", "\xe2\x80\x8b", "\x00\x00", "\xef\xbb\xbf \n", " \xef\xbb\xbf"}
	var out []string
	for _, b := range bases {
		for c := 0; c < 256; c++ {
			out = append(out, string([]byte{byte(c)})+b, b+string([]byte{byte(c)}))
		}
		for _, m := range marks {
			out = append(out, m+b, b+m, m+" "+b, " "+b+" "+m)
		}
	}
	return out
}

// DimDocs: positions of 2..5 ordinates in every combination along a line of
// three positions and a ring of four, with ordinate values that are zero,
// ordinary, and overflowing (1e999 in the third / fourth place), as
// LineString, MultiLineString member, Polygon (also the canonical rectangle
// ring, which AllowRects may turn into a Rect) and inside a Feature.
func DimDocs() []string {
	pos := func(x, y string, dims int, fill string) string {
		s := "[" + x + "," + y
		for d := 2; d < dims; d++ {
			s += "," + fill
		}
		return s + "]"
	}
	var out []string
	fills := []string{"0", "7", "-0.5", "1e999", "-1e999"}
	for _, fill := range fills {
		for a := 2; a <= 5; a++ {
			for b := 2; b <= 5; b++ {
				for c := 2; c <= 5; c++ {
					ls := `"coordinates":[` + pos("0", "0", a, fill) + `,` + pos("10", "0", b, fill) + `,` + pos("10", "10", c, fill) + `]`
					out = append(out, Obj("LineString", ls))
					if a == c || fill == "0" {
						out = append(out, Obj("MultiLineString", `"coordinates":[[[5,5],[6,6]],[`+pos("0", "0", a, fill)+`,`+pos("10", "0", b, fill)+`,`+pos("10", "10", c, fill)+`]]`))
						out = append(out, Obj("Feature", `"geometry":`+Obj("LineString", ls), `"properties":{}`))
					}
					// rectangle ring 10,20 -> 30,40 (the shape AllowRects recognises), fourth and fifth position with dims a
					ring := `[` + pos("10", "20", a, fill) + `,` + pos("30", "20", b, fill) + `,` + pos("30", "40", c, fill) + `,` + pos("10", "40", a, fill) + `,` + pos("10", "20", a, fill) + `]`
					out = append(out, Obj("Polygon", `"coordinates":[`+ring+`]`))
					if b == c {
						out = append(out, Obj("GeometryCollection", `"geometries":[`+Obj("Polygon", `"coordinates":[`+ring+`]`)+`]`))
						out = append(out, Obj("MultiPolygon", `"coordinates":[[`+ring+`]]`))
					}
				}
			}
		}
	}
	return out
}

// BBoxDocs: "bbox" members of every shape — correct 2D, the six-number 3D
// form, too small, west/east swapped (antimeridian style), far away, empty,
// not an array — on geometries with and without z, on Features and on
// collections and their children.
func BBoxDocs() []string {
	boxes := []string{`[0,0,10,10]`, `[0,0,2,10,10,8]`, `[0,0,5,10,10,7]`, `[0,0,0,0]`, `[10,0,0,10]`, `[177,-20,-178,-16]`, `[100,100,101,101]`, `[]`, `[1]`, `"none"`, `null`, `[0,0,"x",10]`, `[0,0,1e999,10]`}
	var out []string
	for _, b := range boxes {
		m := `"bbox":` + b
		poly2 := `"coordinates":[[[0,0],[10,0],[10,10],[0,10],[0,0]]]`
		poly3 := `"coordinates":[[[0,0,2],[10,0,4],[10,10,8],[0,10,4],[0,0,2]]]`
		line3 := `"coordinates":[[0,0,2],[10,10,8]]`
		out = append(out,
			Obj("Polygon", m, poly2), Obj("Polygon", poly3, m), Obj("LineString", m, line3), Obj("Point", `"coordinates":[7,7,3]`, m),
			Obj("MultiPoint", `"coordinates":[[7,7],[1,1]]`, m),
			Obj("Feature", m, `"geometry":`+Obj("Polygon", poly3), `"properties":{}`),
			Obj("Feature", `"geometry":`+Obj("Polygon", poly2, m), `"properties":null`, m),
			Obj("FeatureCollection", `"features":[`+Obj("Feature", m, `"geometry":`+Obj("Polygon", poly3), `"properties":{}`)+`,`+Obj("Feature", `"geometry":`+Obj("LineString", `"coordinates":[[20,0,1],[21,1,2]]`), m)+`]`, m),
			Obj("GeometryCollection", `"geometries":[`+Obj("Polygon", poly2, m)+`,`+Obj("Point", `"coordinates":[30,30]`, m)+`]`, m),
		)
	}
	return out
}
