#!/bin/bash
# ./run.sh <C01..C19> <quick|thorough>   run one check against /repo's working tree
# ./run.sh replay <file>                 re-execute one recorded case
# ./run.sh setup                         warm the build cache
set -u
cd "$(dirname "$0")"
export GOFLAGS=-mod=mod GOPROXY=off GOSUMDB=off GOTOOLCHAIN=local
export VERIF_ROOT="$(pwd)"
BIN="$VERIF_ROOT/.bin"
mkdir -p "$BIN"
VERIF_BIN="$BIN/verif"
build() {
  # the replace directive makes go re-hash /repo's working tree on every build
  if [ -n "${VERIF_REPO:-}" ] && [ "$VERIF_REPO" != /repo ]; then
    # a scratch tree (tools/mutant-wt.sh): own go.mod/go.sum pair and binary, /repo is not involved
    tag=$(echo "$VERIF_REPO" | md5sum | cut -c1-10)
    mkdir -p "$BIN/alt-$tag"
    sed "s|=> /repo|=> $VERIF_REPO|" mc/go.mod > "$BIN/alt-$tag/go.mod"
    cp -f "$VERIF_REPO/go.sum" "$BIN/alt-$tag/go.sum"
    export VERIF_MODFILE="$BIN/alt-$tag/go.mod"
    VERIF_BIN="$BIN/alt-$tag/verif"
    (cd mc && go build -modfile="$VERIF_MODFILE" -o "$VERIF_BIN" ./cmd/verif) || { echo "HARNESS-ERROR: harness does not build against $VERIF_REPO" >&2; exit 2; }
    return
  fi
  (cd mc && cp -f /repo/go.sum go.sum 2>/dev/null; go build -o "$BIN/verif" ./cmd/verif) || { echo "HARNESS-ERROR: harness does not build against /repo's working tree" >&2; exit 2; }
}
case "${1:-}" in
  setup)
    build
    # the reference kernel's own tests (big-number cross-check, independent formulations, symmetries)
    (cd mc && go test -count=1 ./exact) || { echo "HARNESS-ERROR: the exact kernel's self-tests fail" >&2; exit 1; }
    "$VERIF_BIN" warm || exit 1
    exit 0 ;;
  build)
    build
    exit 0 ;;
  replay)
    build
    exec "$VERIF_BIN" replay "$2" ;;
  C*)
    build
    export VERIF_TIER="${2:-quick}"
    exec "$VERIF_BIN" "$1" ;;
  *)
    echo "usage: $0 <Cxx> <quick|thorough> | replay <file> | setup" >&2; exit 2 ;;
esac
