#!/bin/bash
# ./run.sh <C01..C19> <quick|thorough>   run one check against /repo's working tree
# ./run.sh replay <file>                 re-execute one recorded case
# ./run.sh setup                         warm the build cache
set -u
cd "$(dirname "$0")"
export GOFLAGS=-mod=mod GOPROXY=off GOSUMDB=off GOTOOLCHAIN=local
export VERIF_ROOT="$(pwd)"
BIN="$VERIF_ROOT/.bin"
mkdir -p "$BIN"
build() {
  # the replace directive makes go re-hash /repo's working tree on every build
  (cd mc && cp -f /repo/go.sum go.sum 2>/dev/null; go build -o "$BIN/verif" ./cmd/verif) || { echo "HARNESS-ERROR: harness does not build against /repo's working tree" >&2; exit 2; }
}
case "${1:-}" in
  setup)
    build
    # the reference kernel's own tests (big-number cross-check, independent formulations, symmetries)
    (cd mc && go test -count=1 ./exact) || { echo "HARNESS-ERROR: the exact kernel's self-tests fail" >&2; exit 1; }
    "$BIN/verif" warm || exit 1
    exit 0 ;;
  build)
    build
    exit 0 ;;
  replay)
    build
    exec "$BIN/verif" replay "$2" ;;
  C*)
    build
    export VERIF_TIER="${2:-quick}"
    exec "$BIN/verif" "$1" ;;
  *)
    echo "usage: $0 <Cxx> <quick|thorough> | replay <file> | setup" >&2; exit 2 ;;
esac
